#!/usr/bin/env python3
"""Store-site table for C07 (fail-closed on syntax errors only): every assignment / augmented assignment /
`del` / call of a known mutating method in the code reachable from fit/predict, with the root variable of
its target classified

    RSelf    the target chain starts at `self` (object state owned by the library)
    RLocal   a local bound to a fresh object (literal, np.zeros, arithmetic result, ...)
    RCaller  a parameter, or an alias/view of one (p, p[i], p[:, j], np.asarray(p), loop variable over p,
             zip/enumerate of p), or any chain through `.features` (Node.features is a view of the caller's row)

`SupervisedOPF.learn` is excluded: exchanging rows between the caller's training and validation arrays is its
documented job (property C17). `prune` is included: it only drops samples and must build its reduced set afresh.

Emits Gen/Stores_gen.v:  stores : list store_site.
"""
import ast
import os

FILES = [
    "opfython/utils/decorator.py",
    "opfython/core/node.py",
    "opfython/core/subgraph.py",
    "opfython/core/opf.py",
    "opfython/subgraphs/knn.py",
    "opfython/models/supervised.py",
    "opfython/models/semi_supervised.py",
    "opfython/models/knn_supervised.py",
    "opfython/models/unsupervised.py",
    "opfython/math/general.py",
    "opfython/math/distance.py",
]
EXCLUDED_FUNCS = {("opfython/models/supervised.py", "learn")}
MUTATING_METHODS = {"fill", "sort", "append", "insert", "resize", "put", "extend", "pop", "remove", "clear",
                    "itemset", "partition", "setfield", "byteswap", "reverse", "update", "setflags"}
MUTATING_FUNCS = {"copyto", "put", "place", "putmask", "fill_diagonal", "shuffle"}
ALIASING_CALLS = {"asarray", "array", "ascontiguousarray", "asanyarray", "ravel", "reshape", "squeeze", "atleast_2d",
                  "atleast_1d", "transpose", "zip", "enumerate", "iter", "reversed", "list", "tuple"}
# list(p)/tuple(p) build a new container but its elements are still views of p's rows


def root_of(e):
    """(root name or None, mentions_features)"""
    feats = False
    while True:
        if isinstance(e, ast.Attribute):
            if e.attr == "features":
                feats = True
            e = e.value
        elif isinstance(e, ast.Subscript):
            e = e.value
        elif isinstance(e, ast.Starred):
            e = e.value
        elif isinstance(e, ast.Name):
            return e.id, feats
        elif isinstance(e, ast.Call):
            return None, feats
        else:
            return None, feats


def is_alias_expr(e, aliases):
    """Does evaluating e yield (a view of / a container of views of) an aliased array?"""
    if isinstance(e, ast.Name):
        return e.id in aliases
    if isinstance(e, (ast.Subscript, ast.Attribute, ast.Starred)):
        r, feats = root_of(e)
        if feats:
            return True
        if isinstance(e, ast.Attribute) and e.attr in ("shape", "size", "ndim", "dtype"):
            return False
        return r in aliases
    if isinstance(e, ast.Call):
        fn = e.func
        name = fn.attr if isinstance(fn, ast.Attribute) else (fn.id if isinstance(fn, ast.Name) else None)
        if name in ALIASING_CALLS:
            return any(is_alias_expr(a, aliases) for a in e.args)
        if isinstance(fn, ast.Attribute) and name in ("copy", "astype", "item", "tolist"):
            return False
        return False
    if isinstance(e, (ast.Tuple, ast.List)):
        return any(is_alias_expr(x, aliases) for x in e.elts)
    if isinstance(e, ast.IfExp):
        return is_alias_expr(e.body, aliases) or is_alias_expr(e.orelse, aliases)
    return False   # BinOp, UnaryOp, Compare, Constant, comprehension...: fresh values


def bind_targets(t, alias, aliases):
    if isinstance(t, ast.Name):
        if alias:
            aliases.add(t.id)
        else:
            aliases.discard(t.id)
    elif isinstance(t, (ast.Tuple, ast.List)):
        for x in t.elts:
            bind_targets(x, alias, aliases)


class FuncScan(ast.NodeVisitor):
    def __init__(self, path, fname, params):
        self.path, self.fname = path, fname
        self.aliases = set(params)
        self.sites = []

    def classify(self, target):
        r, feats = root_of(target)
        if isinstance(target, ast.Attribute):
            # `obj.attr = v` rebinds an attribute; only what lies below the attribute is dereferenced
            _, feats = root_of(target.value)
        if feats:
            return "RCaller", r or "?"
        if r == "self":
            return "RSelf", r
        if r in self.aliases:
            return "RCaller", r
        return "RLocal", r or "?"

    def site(self, node, kind, target):
        cls, r = self.classify(target)
        self.sites.append((self.path, self.fname, node.lineno, kind, r, cls))

    def visit_FunctionDef(self, node):
        # nested function (the decorator's wrapper): scanned separately by scan_file
        pass

    def visit_Assign(self, node):
        self.generic_visit(node)
        alias = is_alias_expr(node.value, self.aliases)
        for t in node.targets:
            for tt in (t.elts if isinstance(t, (ast.Tuple, ast.List)) else [t]):
                if isinstance(tt, (ast.Subscript, ast.Attribute)):
                    self.site(node, "assign", tt)
                else:
                    bind_targets(tt, alias, self.aliases)

    def visit_AnnAssign(self, node):
        self.generic_visit(node)
        if node.value is not None:
            if isinstance(node.target, (ast.Subscript, ast.Attribute)):
                self.site(node, "assign", node.target)
            else:
                bind_targets(node.target, is_alias_expr(node.value, self.aliases), self.aliases)

    def visit_AugAssign(self, node):
        self.generic_visit(node)
        # `x += c` on an array writes through; on a Name that is an alias this is a store into the caller's buffer
        self.site(node, "augassign", node.target)

    def visit_Delete(self, node):
        for t in node.targets:
            if isinstance(t, (ast.Subscript, ast.Attribute)):
                self.site(node, "del", t)

    def visit_For(self, node):
        bind_targets(node.target, is_alias_expr(node.iter, self.aliases), self.aliases)
        self.generic_visit(node)

    def visit_Call(self, node):
        self.generic_visit(node)
        fn = node.func
        if isinstance(fn, ast.Attribute):
            if fn.attr in MUTATING_METHODS:
                self.site(node, "call:" + fn.attr, fn.value)
            if fn.attr in MUTATING_FUNCS and node.args:
                self.site(node, "call:" + fn.attr, node.args[0])
        for kw in node.keywords:
            if kw.arg == "out":
                self.site(node, "out=", kw.value)


def scan_file(repo, rel):
    path = os.path.join(repo, rel)
    tree = ast.parse(open(path, encoding="utf-8").read(), filename=path)
    sites = []

    def scan_func(fn, qual):
        if (rel, fn.name) in EXCLUDED_FUNCS:
            return
        scalar = {"int", "float", "str", "bool", "callable"}
        params = [a.arg for a in fn.args.args + fn.args.kwonlyargs
                  if a.arg != "self" and not (isinstance(a.annotation, ast.Name) and a.annotation.id in scalar)]
        if fn.args.vararg:
            params.append(fn.args.vararg.arg)
        sc = FuncScan(rel, qual, params)
        for st in fn.body:
            sc.visit(st)
        sites.extend(sc.sites)
        for st in ast.walk(fn):
            if isinstance(st, ast.FunctionDef) and st is not fn:
                scan_func(st, qual + "." + st.name)

    for st in tree.body:
        if isinstance(st, ast.FunctionDef):
            scan_func(st, st.name)
        elif isinstance(st, ast.ClassDef):
            for m in st.body:
                if isinstance(m, ast.FunctionDef):
                    scan_func(m, st.name + "." + m.name)
    return sites


def collect(repo):
    sites = []
    for rel in FILES:
        sites.extend(scan_file(repo, rel))
    return sites


def emit(sites):
    out = ["(* GENERATED by translator/stores.py from the store sites of the code reachable from fit/predict and of the",
           "   distance decorator -- do not edit, do not commit. *)",
           "From Coq Require Import String List.",
           "From OPF Require Import Model.Effects.",
           "Import ListNotations.",
           "Open Scope string_scope.",
           "",
           "Definition stores : list store_site :="]
    rows = []
    for (path, fname, line, kind, root, cls) in sites:
        rows.append('  mkSite "%s" "%s" %d "%s" "%s" %s' % (path, fname, line, kind, root, cls))
    out.append("  [\n" + ";\n".join(rows) + "\n  ].")
    return "\n".join(out) + "\n"


if __name__ == "__main__":
    import sys
    for s in collect(sys.argv[1] if len(sys.argv) > 1 else "/repo"):
        if s[-1] != "RSelf":
            print(s)
