#!/usr/bin/env python3
"""Fail-closed translator: opfython source (parsed with `ast`) -> Coq files under coq/theories/Gen.

    python translator/py2coq.py --repo /repo --out coq/theories/Gen [--json build/metrics_ir.json]

Generated (only rewritten when the text changed, so `make` stays incremental):
    Consts_gen.v     numeric constants of utils/constants.py as exact rationals
    ConstsFlt_gen.v  the binary64 values of the same constants and of every numeric literal of math/distance.py (hex floats)
    Decorator_gen.v  the wrapper body of utils/decorator.py:avoid_zero_division as an effect program
    Metrics_gen.v    one `ir_<name> : metric_ir` per `def <name>_distance` of math/distance.py
    Registry_gen.v   DISTANCES, the whitelist of OPF.distance's setter, constructor plumbing facts
and a JSON dump of the same data for translator validation (translator/eval_ir.py).

The translator accepts a small whitelisted grammar and exits non-zero with a message naming the
file, line and construct on anything else.  Only the standard library is used.
"""
import argparse
import ast
import json
import os
import sys
from fractions import Fraction


class Unsupported(Exception):
    pass


def fail(path, node, msg):
    line = getattr(node, "lineno", "?")
    raise Unsupported("%s:%s: %s" % (path, line, msg))


def read(path):
    with open(path, encoding="utf-8") as fh:
        src = fh.read()
    return src, ast.parse(src, filename=path)


def is_docstring(st):
    return isinstance(st, ast.Expr) and isinstance(st.value, ast.Constant) and isinstance(st.value.value, str)


def number_to_fraction(path, node, src):
    """Exact rational of a numeric literal, read from its *source text* (so 1e-20 is 1/10^20)."""
    v = node.value
    if isinstance(v, bool) or not isinstance(v, (int, float)):
        fail(path, node, "unsupported literal %r" % (v,))
    if isinstance(v, int):
        return Fraction(v)
    seg = ast.get_source_segment(src, node)
    try:
        q = Fraction(seg.replace("_", ""))
    except (ValueError, AttributeError, ZeroDivisionError):
        q = Fraction(repr(v))
    if float(q) != v:
        fail(path, node, "literal %r does not round-trip" % (seg,))
    return q


# ----------------------------------------------------------------------------------------------
# imports

KNOWN_MODULES = {
    "math": "math",
    "numpy": "numpy",
    "opfython.utils.constants": "consts",
    "opfython.utils.decorator": "decorator",
    "opfython.math.distance": "distance",
}


def import_aliases(path, tree, allowed_extra=()):
    """alias -> role for the imports of a module ('math', 'numpy', 'consts', 'decorator', 'distance', 'njit')."""
    al = {}
    for st in tree.body:
        if isinstance(st, ast.Import):
            for a in st.names:
                role = KNOWN_MODULES.get(a.name)
                name = a.asname or a.name.split(".")[0]
                if role is not None and (a.asname or "." not in a.name):
                    al[name] = role
                else:
                    al[name] = "other:" + a.name
        elif isinstance(st, ast.ImportFrom):
            for a in st.names:
                name = a.asname or a.name
                if st.module == "numba" and a.name == "njit":
                    al[name] = "njit"
                elif st.module == "functools" and a.name == "wraps":
                    al[name] = "wraps"
                else:
                    al[name] = "other:%s.%s" % (st.module, a.name)
    return al


# ----------------------------------------------------------------------------------------------
# constants.py

def parse_consts(repo):
    path = os.path.join(repo, "opfython", "utils", "constants.py")
    src, tree = read(path)
    out = {}
    float_max_is_sys = False
    for st in tree.body:
        if isinstance(st, ast.Assign) and len(st.targets) == 1 and isinstance(st.targets[0], ast.Name):
            name = st.targets[0].id
            v = st.value
            neg = False
            if isinstance(v, ast.UnaryOp) and isinstance(v.op, ast.USub):
                v, neg = v.operand, True
            if isinstance(v, ast.Constant) and isinstance(v.value, (int, float)) and not isinstance(v.value, bool):
                q = number_to_fraction(path, v, src)
                out[name] = -q if neg else q
            elif name == "FLOAT_MAX":
                ok = (isinstance(v, ast.Attribute) and v.attr == "max" and isinstance(v.value, ast.Attribute)
                      and v.value.attr == "float_info" and isinstance(v.value.value, ast.Name) and v.value.value.id == "sys")
                if not ok:
                    fail(path, st, "FLOAT_MAX is not sys.float_info.max")
                float_max_is_sys = True
            else:
                fail(path, st, "constant %s is not a numeric literal" % name)
        elif is_docstring(st) or isinstance(st, (ast.Import, ast.ImportFrom)):
            continue
        else:
            fail(path, st, "unsupported module-level statement in constants.py")
    for need in ("EPSILON", "MAX_ARC_WEIGHT", "MAX_DENSITY"):
        if need not in out:
            fail(path, tree, "constant %s not found" % need)
    if not float_max_is_sys:
        fail(path, tree, "FLOAT_MAX not found")
    return out


CONST_NAMES = {"EPSILON": "CEpsilon", "MAX_ARC_WEIGHT": "CMaxArcWeight", "MAX_DENSITY": "CMaxDensity"}


# ----------------------------------------------------------------------------------------------
# decorator.py

def parse_decorator(repo):
    path = os.path.join(repo, "opfython", "utils", "decorator.py")
    src, tree = read(path)
    al = import_aliases(path, tree)
    outer = [st for st in tree.body if isinstance(st, ast.FunctionDef) and st.name == "avoid_zero_division"]
    if len(outer) != 1:
        fail(path, tree, "expected exactly one def avoid_zero_division")
    outer = outer[0]
    if len(outer.args.args) != 1 or outer.args.vararg or outer.args.kwarg or outer.args.kwonlyargs or outer.decorator_list:
        fail(path, outer, "avoid_zero_division must take exactly one plain parameter")
    fparam = outer.args.args[0].arg
    body = [st for st in outer.body if not is_docstring(st)]
    if len(body) != 2 or not isinstance(body[0], ast.FunctionDef) or not isinstance(body[1], ast.Return):
        fail(path, outer, "avoid_zero_division body must be: def wrapper; return wrapper")
    w = body[0]
    if not (isinstance(body[1].value, ast.Name) and body[1].value.id == w.name):
        fail(path, body[1], "avoid_zero_division must return its wrapper")
    for dec in w.decorator_list:
        ok = (isinstance(dec, ast.Call) and isinstance(dec.func, ast.Name) and al.get(dec.func.id) == "wraps"
              and len(dec.args) == 1 and isinstance(dec.args[0], ast.Name) and dec.args[0].id == fparam and not dec.keywords)
        if not ok:
            fail(path, dec, "unsupported decorator on the wrapper (only @wraps(f))")
    a = w.args
    if a.vararg or a.kwarg or a.kwonlyargs or a.defaults or getattr(a, "posonlyargs", []):
        fail(path, w, "wrapper must take plain positional parameters without defaults")
    params = [p.arg for p in a.args]
    if len(set(params)) != len(params) or fparam in params:
        fail(path, w, "wrapper parameter names clash")

    def const_of(e):
        if (isinstance(e, ast.Attribute) and isinstance(e.value, ast.Name) and al.get(e.value.id) == "consts"
                and e.attr in CONST_NAMES):
            return CONST_NAMES[e.attr]
        fail(path, e, "decorator: added value must be a constant c.<NAME> of utils/constants.py")

    prog = []
    stmts = [st for st in w.body if not is_docstring(st)]
    aliases = {}     # local name -> constant (a local alias `eps = c.EPSILON`, read once per call: same value)

    def const_or_alias(e):
        if isinstance(e, ast.Name) and e.id in aliases:
            return aliases[e.id]
        return const_of(e)
    for i, st in enumerate(stmts):
        if (isinstance(st, ast.Assign) and len(st.targets) == 1 and isinstance(st.targets[0], ast.Name)
                and st.targets[0].id not in params and st.targets[0].id != fparam and st.targets[0].id not in aliases
                and isinstance(st.value, ast.Attribute) and not prog):
            aliases[st.targets[0].id] = const_of(st.value)
            continue
        if isinstance(st, ast.AugAssign) and isinstance(st.op, ast.Add) and isinstance(st.target, ast.Name):
            if st.target.id not in params:
                fail(path, st, "decorator: += on a non-parameter")
            prog.append(["AugAdd", st.target.id, const_or_alias(st.value)])
        elif (isinstance(st, ast.Assign) and len(st.targets) == 1 and isinstance(st.targets[0], ast.Name)
              and isinstance(st.value, ast.BinOp) and isinstance(st.value.op, ast.Add)
              and isinstance(st.value.left, ast.Name) and st.value.left.id == st.targets[0].id):
            if st.targets[0].id not in params:
                fail(path, st, "decorator: rebinding of a non-parameter")
            prog.append(["Rebind", st.targets[0].id, const_or_alias(st.value.right)])
        elif isinstance(st, ast.Return):
            v = st.value
            if not (isinstance(v, ast.Call) and isinstance(v.func, ast.Name) and v.func.id == fparam and not v.keywords) \
                    or i != len(stmts) - 1:
                fail(path, st, "decorator: the wrapper must end in `return f(<its parameters>)`")
            names = []
            for x in v.args:
                if isinstance(x, ast.Name) and x.id in params:
                    names.append(x.id)
                elif (isinstance(x, ast.BinOp) and isinstance(x.op, ast.Add) and isinstance(x.left, ast.Name)
                      and x.left.id in params):
                    # f(x + c.EPSILON, ...): a fresh array is passed on - the same program as `x = x + c.EPSILON; f(x, ...)`
                    if x.left.id in names or any(pr[1] == x.left.id for pr in prog):
                        fail(path, st, "decorator: parameter %s is shifted twice" % x.left.id)
                    prog.append(["Rebind", x.left.id, const_or_alias(x.right)])
                    names.append(x.left.id)
                else:
                    fail(path, st, "decorator: the wrapper must end in `return f(<its parameters>)`")
            if len(set(names)) != len(names):
                fail(path, st, "decorator: a parameter is passed twice")
            prog.append(["ReturnCall", names])
        else:
            fail(path, st, "decorator: unsupported statement %s" % type(st).__name__)
    if not prog or prog[-1][0] != "ReturnCall":
        fail(path, w, "decorator: the wrapper does not end in a return of the wrapped call")
    return dict(params=params, body=prog)


# ----------------------------------------------------------------------------------------------
# distance.py : expressions

BINOPS = {ast.Add: "BAdd", ast.Sub: "BSub", ast.Mult: "BMul", ast.Div: "BDiv"}
CMPOPS = {ast.GtE: "CGe", ast.Gt: "CGt", ast.LtE: "CLe", ast.Lt: "CLt"}
# (role, attribute) -> (unop, accepts vector?)
UNARY_CALLS = {
    ("numpy", "fabs"): ("UFabs", True), ("numpy", "abs"): ("UFabs", True), ("numpy", "absolute"): ("UFabs", True),
    ("numpy", "log"): ("ULog", True), ("numpy", "exp"): ("UExp", True), ("numpy", "sqrt"): ("USqrt", True),
    ("math", "log"): ("ULog", False), ("math", "exp"): ("UExp", False), ("math", "sqrt"): ("USqrt", False),
    ("math", "fabs"): ("UFabs", False),
}
BINARY_CALLS = {("numpy", "minimum"): "BMin", ("numpy", "maximum"): "BMax"}


def lift(kn):
    """scalar -> broadcast vector"""
    kind, node = kn
    return node if kind == "v" else ["VConstS", node]


class FunctionTranslator:
    def __init__(self, path, src, al, fn, all_fn_names, decorated_names):
        self.path, self.src, self.al, self.fn = path, src, al, fn
        self.all_fn_names = all_fn_names
        self.decorated_names = decorated_names
        self.env = {}          # local name -> ('v'|'s', node) | ('zeros',) | ('cond', op, l, r)
        self.calls = []
        self.loop_var = None
        self.helpers = {}
        self.inline_depth = 0

    def err(self, node, msg):
        fail(self.path, node, "%s: %s" % (self.fn.name, msg))

    # -- header -------------------------------------------------------------------------------
    def header(self):
        fn = self.fn
        avoid, njit = False, False
        for i, dec in enumerate(fn.decorator_list):
            if (isinstance(dec, ast.Attribute) and isinstance(dec.value, ast.Name)
                    and self.al.get(dec.value.id) == "decorator" and dec.attr == "avoid_zero_division"):
                if avoid or i != 0:
                    self.err(dec, "avoid_zero_division must be the single outermost decorator")
                avoid = True
            elif isinstance(dec, ast.Name) and self.al.get(dec.id) == "njit":
                if njit:
                    self.err(dec, "njit applied twice")
                njit = True
            elif (isinstance(dec, ast.Call) and isinstance(dec.func, ast.Name) and self.al.get(dec.func.id) == "njit"
                  and not dec.args and all(k.arg in ("cache", "fastmath", "nogil") for k in dec.keywords)):
                for k in dec.keywords:
                    if k.arg == "fastmath" and not (isinstance(k.value, ast.Constant) and k.value.value is False):
                        self.err(dec, "njit(fastmath=...) changes floating-point semantics")
                if njit:
                    self.err(dec, "njit applied twice")
                njit = True
            else:
                self.err(dec, "unsupported decorator")
        a = fn.args
        if a.vararg or a.kwarg or a.kwonlyargs or getattr(a, "posonlyargs", []):
            self.err(fn, "unsupported parameter kinds")
        names = [p.arg for p in a.args]
        if len(names) < 2 or len(set(names)) != len(names):
            self.err(fn, "a metric takes at least two distinct parameters")
        ndef = len(a.defaults)
        if ndef > len(names) - 2:
            self.err(fn, "the two vector parameters cannot have defaults")
        params = []
        for i, n in enumerate(names):
            j = i - (len(names) - ndef)
            if j >= 0:
                dnode = a.defaults[j]
                neg = False
                if isinstance(dnode, ast.UnaryOp) and isinstance(dnode.op, ast.USub):
                    dnode, neg = dnode.operand, True
                if not isinstance(dnode, ast.Constant):
                    self.err(dnode, "default of %s is not a numeric literal" % n)
                q = number_to_fraction(self.path, dnode, self.src)
                params.append((n, -q if neg else q))
            else:
                if i >= 2:
                    self.err(fn, "extra parameter %s has no default (models call distance_fn(x, y))" % n)
                params.append((n, None))
        if avoid and len(names) != 2:
            self.err(fn, "a decorated metric must take exactly (x, y): the wrapper forwards two arguments")
        self.params = params
        self.px, self.py = names[0], names[1]
        self.extra = names[2:]
        self.avoid, self.njit = avoid, njit

    # -- expressions --------------------------------------------------------------------------
    def module_attr(self, e):
        """(role, attr) for `alias.attr`, else None"""
        if isinstance(e, ast.Attribute) and isinstance(e.value, ast.Name) and e.value.id in self.al \
                and e.value.id not in self.env and e.value.id not in [p for p, _ in self.params]:
            return self.al[e.value.id], e.attr
        return None

    def is_len(self, e):
        """x.shape[0] for the first parameter"""
        return (isinstance(e, ast.Subscript) and isinstance(e.value, ast.Attribute) and e.value.attr == "shape"
                and isinstance(e.value.value, ast.Name) and self.px is not None and e.value.value.id == self.px
                and isinstance(e.slice, ast.Constant) and e.slice.value == 0 and not isinstance(e.slice.value, bool))

    def tr(self, e):
        if isinstance(e, ast.Name):
            if e.id == self.px:
                return ("v", ["VX"])
            if e.id == self.py:
                return ("v", ["VY"])
            if e.id in self.extra:
                return ("s", ["SParam", e.id])
            if e.id in self.env:
                val = self.env[e.id]
                if val[0] in ("v", "s"):
                    return val
                self.err(e, "local %s used before it holds a value" % e.id)
            self.err(e, "unknown name %s" % e.id)
        if isinstance(e, ast.Constant):
            q = number_to_fraction(self.path, e, self.src)
            return ("s", ["SConstQ", str(q.numerator), str(q.denominator)])
        if isinstance(e, ast.UnaryOp):
            if not isinstance(e.op, ast.USub):
                self.err(e, "unsupported unary operator %s" % type(e.op).__name__)
            k, n = self.tr(e.operand)
            return (k, ["VUn" if k == "v" else "SUn", "UNeg", n])
        if isinstance(e, ast.BinOp):
            if isinstance(e.op, ast.Pow):
                r = e.right
                if not (isinstance(r, ast.Constant) and not isinstance(r.value, bool) and isinstance(r.value, (int, float))
                        and r.value in (2, 0.5)):
                    self.err(e, "unsupported exponent (only ** 2 and ** 0.5)")
                pc = "PTwo" if r.value == 2 else "PHalf"
                k, n = self.tr(e.left)
                return (k, ["VPowC" if k == "v" else "SPowC", n, pc])
            op = BINOPS.get(type(e.op))
            if op is None:
                self.err(e, "unsupported binary operator %s" % type(e.op).__name__)
            return self.bin(op, self.tr(e.left), self.tr(e.right))
        if isinstance(e, ast.Subscript):
            if self.is_len(e):
                return ("s", ["SLen"])
            # v[i] inside the per-index loop: the entry of v at the current index
            if (self.loop_var is not None and isinstance(e.slice, ast.Name) and e.slice.id == self.loop_var
                    and isinstance(e.value, ast.Name)):
                k, n = self.tr(e.value)
                if k != "v":
                    self.err(e, "indexing a scalar")
                return ("v", n)
            self.err(e, "unsupported subscript")
        if isinstance(e, ast.Attribute):
            ma = self.module_attr(e)
            if ma and ma[0] == "consts" and ma[1] in ("EPSILON", "MAX_ARC_WEIGHT"):
                return ("s", ["SConstName", CONST_NAMES[ma[1]]])
            self.err(e, "unsupported attribute access")
        if isinstance(e, ast.Call):
            return self.call(e)
        self.err(e, "unsupported expression %s" % type(e).__name__)

    def bin(self, op, l, r):
        if l[0] == "s" and r[0] == "s":
            return ("s", ["SBin", op, l[1], r[1]])
        return ("v", ["VBin", op, lift(l), lift(r)])

    def call(self, e):
        if e.keywords:
            self.err(e, "keyword arguments are not supported")
        if any(isinstance(a, ast.Starred) for a in e.args):
            self.err(e, "starred arguments are not supported")
        ma = self.module_attr(e.func)
        if ma in UNARY_CALLS and len(e.args) == 1:
            op, vec_ok = UNARY_CALLS[ma]
            k, n = self.tr(e.args[0])
            if k == "v" and not vec_ok:
                self.err(e, "math.%s applied to an array" % ma[1])
            return (k, ["VUn" if k == "v" else "SUn", op, n])
        if ma in BINARY_CALLS and len(e.args) == 2:
            return self.bin(BINARY_CALLS[ma], self.tr(e.args[0]), self.tr(e.args[1]))
        if ma == ("numpy", "sum") and len(e.args) == 1:
            k, n = self.tr(e.args[0])
            if k != "v":
                self.err(e, "np.sum of a scalar")
            return ("s", ["SSum", n])
        if ma in (("numpy", "amax"), ("numpy", "max")) and len(e.args) == 1:
            k, n = self.tr(e.args[0])
            if k != "v":
                self.err(e, "np.amax of a scalar")
            return ("s", ["SAmax", n])
        if ma == ("numpy", "count_nonzero") and len(e.args) == 1:
            c = e.args[0]
            if not (isinstance(c, ast.Compare) and len(c.ops) == 1 and isinstance(c.ops[0], ast.NotEq)):
                self.err(e, "np.count_nonzero is only supported on `a != b`")
            l, r = self.tr(c.left), self.tr(c.comparators[0])
            if l[0] != "v" and r[0] != "v":
                self.err(e, "np.count_nonzero of a scalar comparison")
            return ("s", ["SCountNe", lift(l), lift(r)])
        if isinstance(e.func, ast.Name) and e.func.id in self.helpers and e.func.id not in self.env \
                and e.func.id not in [p for p, _ in self.params]:
            return self.inline_helper(e)
        if isinstance(e.func, ast.Name) and e.func.id in self.all_fn_names and e.func.id not in self.env \
                and e.func.id not in [p for p, _ in self.params]:
            f = e.func.id
            if len(e.args) != 2:
                self.err(e, "sibling metric %s must be called with exactly two arguments" % f)
            if f == self.fn.name:
                self.err(e, "recursive metric")
            if self.njit and f in self.decorated_names:
                self.err(e, "njit code calling the Python-level wrapper of %s" % f)
            a, b = self.tr(e.args[0]), self.tr(e.args[1])
            if a[0] != "v" or b[0] != "v":
                self.err(e, "sibling metric called on scalars")
            self.calls.append(f)
            return ("s", ["SCall", f, a[1], b[1]])
        self.err(e, "unsupported call %s" % ast.unparse(e.func))

    def inline_helper(self, e):
        """f(a, b, ...) for a module-level private helper: its return expression with the parameters replaced by the
        (already translated) arguments. Only expression helpers: plain parameters, single assignments, one return;
        decorators other than a plain @njit are refused (the EPSILON wrapper would change the arguments)."""
        h = self.helpers[e.func.id]
        if self.inline_depth >= 3:
            self.err(e, "helper calls nested too deeply")
        a = h.args
        if a.vararg or a.kwarg or a.kwonlyargs or a.defaults or getattr(a, "posonlyargs", []):
            self.err(e, "helper %s: unsupported parameter kinds" % h.name)
        for dec in h.decorator_list:
            ok = (isinstance(dec, ast.Name) and self.al.get(dec.id) == "njit") or \
                 (isinstance(dec, ast.Call) and isinstance(dec.func, ast.Name) and self.al.get(dec.func.id) == "njit" and not dec.args
                  and all(k.arg in ("cache", "nogil") for k in dec.keywords))
            if not ok:
                self.err(e, "helper %s: unsupported decorator" % h.name)
        if self.njit and not h.decorator_list:
            self.err(e, "njit code calling the plain Python helper %s" % h.name)
        names = [p.arg for p in a.args]
        if len(names) != len(e.args) or len(set(names)) != len(names):
            self.err(e, "helper %s called with the wrong number of arguments" % h.name)
        sub = FunctionTranslator(self.path, self.src, self.al, h, self.all_fn_names, self.decorated_names)
        sub.helpers = {k: v for k, v in self.helpers.items() if k != h.name}
        sub.inline_depth = self.inline_depth + 1
        sub.params, sub.px, sub.py, sub.extra = [], None, None, []
        sub.avoid, sub.njit = False, bool(h.decorator_list)
        sub.calls = self.calls
        for n, arg in zip(names, e.args):
            sub.env[n] = self.tr(arg)
        return sub.body(result_kind=None)

    # -- statements ---------------------------------------------------------------------------
    def bind(self, st, name, val):
        if name in [p for p, _ in self.params]:
            self.err(st, "assignment to parameter %s" % name)
        if name in self.env:
            self.err(st, "local %s assigned twice" % name)
        if name in self.al or name in self.all_fn_names:
            self.err(st, "local %s shadows a module-level name" % name)
        self.env[name] = val

    def body(self, result_kind="s"):
        stmts = [st for st in self.fn.body if not is_docstring(st)]
        if not stmts or not isinstance(stmts[-1], ast.Return) or stmts[-1].value is None:
            self.err(self.fn, "the body must end in `return <expr>`")
        for st in stmts[:-1]:
            if isinstance(st, ast.Assign) and len(st.targets) == 1 and isinstance(st.targets[0], ast.Name):
                name, v = st.targets[0].id, st.value
                ma = self.module_attr(v.func) if isinstance(v, ast.Call) else None
                if ma == ("numpy", "zeros"):
                    if len(v.args) != 1 or v.keywords or not self.is_len(v.args[0]):
                        self.err(st, "np.zeros is only supported as np.zeros(%s.shape[0])" % self.px)
                    self.bind(st, name, ("zeros",))
                elif isinstance(v, ast.Compare):
                    if len(v.ops) != 1 or type(v.ops[0]) not in CMPOPS:
                        self.err(st, "unsupported comparison for a mask")
                    l, r = self.tr(v.left), self.tr(v.comparators[0])
                    if l[0] != "v" and r[0] != "v":
                        self.err(st, "a mask must compare arrays")
                    self.bind(st, name, ("cond", CMPOPS[type(v.ops[0])], lift(l), lift(r)))
                else:
                    self.bind(st, name, self.tr(v))
            elif isinstance(st, ast.For):
                self.for_loop(st)
            else:
                self.err(st, "unsupported statement %s" % type(st).__name__)
        k, n = self.tr(stmts[-1].value)
        if result_kind == "s" and k != "s":
            self.err(stmts[-1], "a metric must return a scalar")
        for name, val in self.env.items():
            if val[0] == "zeros":
                self.err(self.fn, "array %s is never filled" % name)
        return n if result_kind == "s" else (k, n)

    def for_loop(self, st):
        """for i in range(x.shape[0]): if mask[i] is True: d[i] = A  else: d[i] = B      (hassanat)"""
        if st.orelse or not isinstance(st.target, ast.Name):
            self.err(st, "unsupported for loop")
        it = st.iter
        if not (isinstance(it, ast.Call) and isinstance(it.func, ast.Name) and it.func.id == "range"
                and "range" not in self.env and len(it.args) == 1 and not it.keywords and self.is_len(it.args[0])):
            self.err(st, "only `for i in range(%s.shape[0])` is supported" % self.px)
        i = st.target.id
        if i in self.env or i in [p for p, _ in self.params] or i in self.al:
            self.err(st, "loop variable %s clashes" % i)
        self.loop_var = i
        # leading `name = <expr>` statements: per-index temporaries (single assignment), visible in the rest of the body
        body_stmts = list(st.body)
        loop_locals = []
        while len(body_stmts) > 1 and isinstance(body_stmts[0], ast.Assign) and len(body_stmts[0].targets) == 1 \
                and isinstance(body_stmts[0].targets[0], ast.Name):
            a0 = body_stmts.pop(0)
            k0, n0 = self.tr(a0.value)
            self.bind(a0, a0.targets[0].id, ("v", lift((k0, n0))))
            loop_locals.append(a0.targets[0].id)
        if len(body_stmts) != 1:
            self.err(st, "loop body must be temporaries followed by a single if/else or a single store")

        def store(s):
            if not (isinstance(s, ast.Assign) and len(s.targets) == 1 and isinstance(s.targets[0], ast.Subscript)
                    and isinstance(s.targets[0].value, ast.Name) and isinstance(s.targets[0].slice, ast.Name)
                    and s.targets[0].slice.id == i):
                self.err(s, "loop statement must be `<array>[%s] = <expr>`" % i)
            arr = s.targets[0].value.id
            if self.env.get(arr) != ("zeros",):
                self.err(s, "store into %s, which is not a fresh np.zeros array" % arr)
            k, n = self.tr(s.value)
            return arr, lift((k, n))

        b = body_stmts[0]
        if isinstance(b, ast.If):
            if len(b.body) != 1 or len(b.orelse) != 1:
                self.err(b, "if/else branches must be single stores")
            t = b.test
            if isinstance(t, ast.Compare) and len(t.ops) == 1 and isinstance(t.ops[0], (ast.Is, ast.Eq)) \
                    and isinstance(t.comparators[0], ast.Constant) and t.comparators[0].value is True:
                if isinstance(t.ops[0], ast.Is) and not self.njit:
                    self.err(t, "`mask[i] is True` is always False on numpy booleans outside numba")
                t = t.left
            if not (isinstance(t, ast.Subscript) and isinstance(t.value, ast.Name) and isinstance(t.slice, ast.Name)
                    and t.slice.id == i and self.env.get(t.value.id, ("",))[0] == "cond"):
                self.err(b, "loop test must be `<mask>[%s]` or `<mask>[%s] is True`" % (i, i))
            _, op, l, r = self.env[t.value.id]
            a1, e1 = store(b.body[0])
            a2, e2 = store(b.orelse[0])
            if a1 != a2:
                self.err(b, "branches store into different arrays")
            self.env[a1] = ("v", ["VSel", op, l, r, e1, e2])
        else:
            a1, e1 = store(b)
            self.env[a1] = ("v", e1)
        self.loop_var = None
        for nm in loop_locals:
            self.env[nm] = ("dead",)       # per-index temporaries are not visible after the loop


def parse_distance(repo):
    path = os.path.join(repo, "opfython", "math", "distance.py")
    src, tree = read(path)
    al = import_aliases(path, tree)
    need = {"numpy", "math", "consts", "decorator", "njit"}
    if not need <= set(al.values()):
        fail(path, tree, "missing expected imports: %s" % sorted(need - set(al.values())))
    fns, registry, helpers = [], None, {}
    for st in tree.body:
        if is_docstring(st) or isinstance(st, (ast.Import, ast.ImportFrom)):
            continue
        if isinstance(st, ast.FunctionDef):
            if st.name.startswith("_") and not st.name.endswith("_distance"):
                # a private helper shared by metric bodies: inlined at every call site (pure expression function)
                if registry is not None:
                    fail(path, st, "function defined after DISTANCES")
                helpers[st.name] = st
                continue
            if not st.name.endswith("_distance") or st.name == "_distance":
                fail(path, st, "module-level function %s is not a *_distance metric" % st.name)
            if registry is not None:
                fail(path, st, "function defined after DISTANCES")
            fns.append(st)
        elif (isinstance(st, ast.Assign) and len(st.targets) == 1 and isinstance(st.targets[0], ast.Name)
              and st.targets[0].id == "DISTANCES" and isinstance(st.value, ast.Dict) and registry is None):
            registry = st
        else:
            fail(path, st, "unsupported module-level statement %s" % type(st).__name__)
    names = [f.name for f in fns]
    if len(set(names)) != len(names):
        fail(path, tree, "a metric is defined twice")
    if registry is None:
        fail(path, tree, "DISTANCES = {...} not found")
    for n in names:
        if n in al:
            fail(path, tree, "%s clashes with an import" % n)
    decorated = set()
    for f in fns:
        for dec in f.decorator_list:
            if isinstance(dec, ast.Attribute) and dec.attr == "avoid_zero_division":
                decorated.add(f.name)
    metrics = []
    for f in fns:
        ft = FunctionTranslator(path, src, al, f, set(names), decorated)
        ft.helpers = helpers
        ft.header()
        body = ft.body()
        metrics.append(dict(name=f.name[:-len("_distance")], fname=f.name, avoid_zero=ft.avoid, njit=ft.njit,
                            params=[[p, None if q is None else [str(q.numerator), str(q.denominator)]] for p, q in ft.params],
                            body=body, calls=ft.calls, line=f.lineno))
    # sibling calls: acyclic, depth <= 2 (Model/MetricIR.call_depth = 3)
    by = {m["fname"]: m for m in metrics}

    def depth(fn, seen):
        if fn in seen:
            fail(path, tree, "cyclic sibling calls through %s" % fn)
        return 1 + max([depth(g, seen | {fn}) for g in by[fn]["calls"]] + [0])
    for m in metrics:
        if depth(m["fname"], frozenset()) > 3:
            fail(path, tree, "%s: sibling call chain deeper than the model's call depth" % m["fname"])
    reg = []
    for k, v in zip(registry.value.keys, registry.value.values):
        if not (isinstance(k, ast.Constant) and isinstance(k.value, str)):
            fail(path, registry, "DISTANCES key is not a string literal")
        if not (isinstance(v, ast.Name) and v.id in by):
            fail(path, v, "DISTANCES[%r] is not a metric defined in this module" % k.value)
        reg.append([k.value, v.id])
    if len(set(k for k, _ in reg)) != len(reg):
        fail(path, registry, "duplicate key in DISTANCES")
    return metrics, reg


# ----------------------------------------------------------------------------------------------
# core/opf.py and models/*.py

def self_attr(e, attr=None):
    return (isinstance(e, ast.Attribute) and isinstance(e.value, ast.Name) and e.value.id == "self"
            and (attr is None or e.attr == attr))


def assigned_names(fn):
    out = set()
    for n in ast.walk(fn):
        if isinstance(n, (ast.Assign, ast.AugAssign, ast.AnnAssign)):
            tg = n.targets if isinstance(n, ast.Assign) else [n.target]
            for t in tg:
                for m in ast.walk(t):
                    if isinstance(m, ast.Name):
                        out.add(m.id)
        elif isinstance(n, (ast.For, ast.comprehension)):
            for m in ast.walk(n.target):
                if isinstance(m, ast.Name):
                    out.add(m.id)
        elif isinstance(n, ast.NamedExpr):
            out.add(n.target.id)
        elif isinstance(n, (ast.Global, ast.Nonlocal)):
            out.update(n.names)
    return out


def parse_opf(repo):
    path = os.path.join(repo, "opfython", "core", "opf.py")
    src, tree = read(path)
    al = import_aliases(path, tree)
    cls = [st for st in tree.body if isinstance(st, ast.ClassDef) and st.name == "OPF"]
    if len(cls) != 1:
        fail(path, tree, "class OPF not found")
    cls = cls[0]
    # --- the whitelist in the `distance` setter
    setters = [st for st in cls.body if isinstance(st, ast.FunctionDef) and st.name == "distance"
               and any(isinstance(d, ast.Attribute) and d.attr == "setter" and isinstance(d.value, ast.Name)
                       and d.value.id == "distance" for d in st.decorator_list)]
    if len(setters) != 1:
        fail(path, cls, "expected exactly one @distance.setter")
    s = setters[0]
    if len(s.args.args) != 2:
        fail(path, s, "distance setter must take (self, distance)")
    p = s.args.args[1].arg
    body = [st for st in s.body if not is_docstring(st)]
    ok = (len(body) == 2 and isinstance(body[0], ast.If) and not body[0].orelse
          and isinstance(body[0].test, ast.Compare) and len(body[0].test.ops) == 1
          and isinstance(body[0].test.ops[0], ast.NotIn)
          and isinstance(body[0].test.left, ast.Name) and body[0].test.left.id == p
          and isinstance(body[0].test.comparators[0], (ast.List, ast.Tuple, ast.Set))
          and len(body[0].body) == 1 and isinstance(body[0].body[0], ast.Raise)
          and isinstance(body[1], ast.Assign) and len(body[1].targets) == 1 and self_attr(body[1].targets[0], "_distance")
          and isinstance(body[1].value, ast.Name) and body[1].value.id == p)
    if not ok:
        fail(path, s, "distance setter is not `if distance not in [<literals>]: raise ...; self._distance = distance`")
    wl = []
    for e in body[0].test.comparators[0].elts:
        if not (isinstance(e, ast.Constant) and isinstance(e.value, str)):
            fail(path, e, "whitelist entry is not a string literal")
        wl.append(e.value)
    # the getter must return the stored value
    getters = [st for st in cls.body if isinstance(st, ast.FunctionDef) and st.name == "distance" and st is not s]
    # --- __init__
    inits = [st for st in cls.body if isinstance(st, ast.FunctionDef) and st.name == "__init__"]
    if len(inits) != 1:
        fail(path, cls, "OPF.__init__ not found")
    init = inits[0]
    pnames = [a.arg for a in init.args.args]
    ok = pnames[:1] == ["self"] and "distance" in pnames and "distance" not in assigned_names(init)
    n_fn, n_d = 0, 0
    for st in init.body:                                  # top level of __init__ only (unconditional)
        if isinstance(st, ast.Assign) and len(st.targets) == 1:
            t, v = st.targets[0], st.value
            if self_attr(t, "distance_fn"):
                n_fn += 1
                ok = ok and (isinstance(v, ast.Subscript) and isinstance(v.value, ast.Attribute)
                             and v.value.attr == "DISTANCES" and isinstance(v.value.value, ast.Name)
                             and al.get(v.value.value.id) == "distance"
                             and isinstance(v.slice, ast.Name) and v.slice.id == "distance")
            elif self_attr(t, "distance"):
                n_d += 1
                ok = ok and isinstance(v, ast.Name) and v.id == "distance"
    ok = ok and n_fn == 1 and n_d == 1
    # no other store to distance_fn / _distance_fn / distance / _distance anywhere in the class
    for fn in cls.body:
        if not isinstance(fn, ast.FunctionDef):
            continue
        for n in ast.walk(fn):
            tg = n.targets if isinstance(n, ast.Assign) else [n.target] if isinstance(n, (ast.AugAssign, ast.AnnAssign)) else []
            for t in tg:
                for m in ast.walk(t):
                    if isinstance(m, ast.Attribute) and m.attr in ("distance_fn", "_distance_fn", "distance", "_distance"):
                        allowed = ((fn is init and m.attr in ("distance_fn", "distance") and n in init.body)
                                   or (fn is s and m.attr == "_distance")
                                   or (fn.name == "distance_fn" and m.attr == "_distance_fn"))
                        ok = ok and allowed
    # the distance_fn property must hand back what was stored
    for fn in cls.body:
        if isinstance(fn, ast.FunctionDef) and fn.name == "distance_fn":
            body = [st for st in fn.body if not is_docstring(st)]
            if len(fn.args.args) == 1:       # getter
                ok = ok and len(body) == 1 and isinstance(body[0], ast.Return) and self_attr(body[0].value, "_distance_fn")
            else:                            # setter: optional validation `if ...: raise`, then the store
                q = fn.args.args[1].arg
                last = body[-1] if body else None
                ok = ok and (isinstance(last, ast.Assign) and len(last.targets) == 1 and self_attr(last.targets[0], "_distance_fn")
                             and isinstance(last.value, ast.Name) and last.value.id == q
                             and all(isinstance(b, ast.If) and not b.orelse and all(isinstance(r, ast.Raise) for r in b.body)
                                     for b in body[:-1]))
    return wl, bool(ok)


MODEL_FILES = ["supervised.py", "semi_supervised.py", "knn_supervised.py", "unsupervised.py"]


def parse_models(repo):
    d = os.path.join(repo, "opfython", "models")
    out = []
    files = sorted(f for f in os.listdir(d) if f.endswith(".py") and f != "__init__.py")
    for fn in files:
        path = os.path.join(d, fn)
        src, tree = read(path)
        for cls in tree.body:
            if not isinstance(cls, ast.ClassDef):
                continue
            inits = [st for st in cls.body if isinstance(st, ast.FunctionDef) and st.name == "__init__"]
            ok = len(inits) == 1
            if ok:
                init = inits[0]
                pn = [a.arg for a in init.args.args]
                ok = ("distance" in pn and "pre_computed_distance" in pn
                      and not ({"distance", "pre_computed_distance"} & assigned_names(init)))
                n = 0
                for st in init.body:       # unconditional, top level
                    c = st.value if isinstance(st, ast.Expr) else None
                    if (isinstance(c, ast.Call) and isinstance(c.func, ast.Attribute) and c.func.attr == "__init__"
                            and isinstance(c.func.value, ast.Call) and isinstance(c.func.value.func, ast.Name)
                            and c.func.value.func.id == "super"):
                        n += 1
                        sa = c.func.value.args
                        ok = ok and (len(sa) == 0 or (len(sa) == 2 and isinstance(sa[0], ast.Name) and sa[0].id == cls.name
                                                      and isinstance(sa[1], ast.Name) and sa[1].id == "self"))
                        ok = ok and (not c.keywords and len(c.args) == 2
                                     and isinstance(c.args[0], ast.Name) and c.args[0].id == "distance"
                                     and isinstance(c.args[1], ast.Name) and c.args[1].id == "pre_computed_distance")
                ok = ok and n == 1
            # the class must not redefine or overwrite the lookup result
            for st in cls.body:
                if isinstance(st, ast.FunctionDef) and st.name in ("distance", "distance_fn"):
                    ok = False
            for n_ in ast.walk(cls):
                tg = n_.targets if isinstance(n_, ast.Assign) else [n_.target] if isinstance(n_, (ast.AugAssign, ast.AnnAssign)) else []
                for t in tg:
                    for m in ast.walk(t):
                        if isinstance(m, ast.Attribute) and m.attr in ("distance_fn", "_distance_fn", "distance", "_distance"):
                            ok = False
            out.append([cls.name, bool(ok)])
    return out


# ----------------------------------------------------------------------------------------------
# Coq emission

def cq_str(s):
    if '"' in s or "\n" in s or any(ord(ch) > 126 or ord(ch) < 32 for ch in s):
        raise Unsupported("string %r cannot be emitted" % s)
    return '"%s"' % s


def cq_q(num, den):
    num, den = int(num), int(den)
    return "(Qmake (%s)%%Z (%d)%%positive)" % (num, den)


def cq_bool(b):
    return "true" if b else "false"


def cq_node(n):
    tag = n[0]
    if tag in ("VX", "VY", "SLen"):
        return tag
    if tag == "SConstQ":
        return "(SConstQ %s)" % cq_q(n[1], n[2])
    if tag == "SConstName":
        return "(SConstName %s)" % n[1]
    if tag == "SParam":
        return "(SParam %s)" % cq_str(n[1])
    if tag in ("VBin", "SBin"):
        return "(%s %s %s %s)" % (tag, n[1], cq_node(n[2]), cq_node(n[3]))
    if tag in ("VUn", "SUn"):
        return "(%s %s %s)" % (tag, n[1], cq_node(n[2]))
    if tag in ("VPowC", "SPowC"):
        return "(%s %s %s)" % (tag, cq_node(n[1]), n[2])
    if tag == "VSel":
        return "(VSel %s %s %s\n      %s\n      %s)" % (n[1], cq_node(n[2]), cq_node(n[3]), cq_node(n[4]), cq_node(n[5]))
    if tag in ("VConstS", "SSum", "SAmax"):
        return "(%s %s)" % (tag, cq_node(n[1]))
    if tag == "SCountNe":
        return "(SCountNe %s %s)" % (cq_node(n[1]), cq_node(n[2]))
    if tag == "SCall":
        return "(SCall %s %s %s)" % (cq_str(n[1]), cq_node(n[2]), cq_node(n[3]))
    raise Unsupported("internal: unknown IR node %r" % (tag,))


HEADER = "(* GENERATED by translator/py2coq.py from %s -- do not edit, do not commit. *)\n"


def emit_consts(repo, consts):
    o = [HEADER % "opfython/utils/constants.py"]
    o.append("From Coq Require Import QArith.\nFrom OPF Require Import Model.Consts.\n\n")
    for k in ("EPSILON", "MAX_ARC_WEIGHT", "MAX_DENSITY"):
        q = consts[k]
        o.append("Definition c_%s : Q := %s.\n" % (k, cq_q(q.numerator, q.denominator)))
    o.append("(* FLOAT_MAX = sys.float_info.max: by name only *)\n")
    o.append("Definition c_FLOAT_MAX_is_sys_float_max : bool := true.\n\n")
    o.append("Definition cvalQ (n : cname) : option Q :=\n  match n with\n  | CEpsilon => Some c_EPSILON\n"
             "  | CMaxArcWeight => Some c_MAX_ARC_WEIGHT\n  | CMaxDensity => Some c_MAX_DENSITY\n  | CFloatMax => None\n  end.\n")
    return "".join(o)


def cq_float(v):
    """Coq hex float literal of a finite Python float (exact: float.hex())"""
    v = float(v)
    if v != v or v in (float("inf"), float("-inf")):
        raise Unsupported("non-finite float constant %r" % (v,))
    return "(%s)%%float" % v.hex()


def ir_literals(node, acc):
    """all (num, den) of the SConstQ nodes of an IR term, in order of first occurrence"""
    if isinstance(node, (list, tuple)):
        if node and node[0] == "SConstQ":
            k = (int(node[1]), int(node[2]))
            if k not in acc:
                acc.append(k)
        else:
            for ch in node:
                ir_literals(ch, acc)
    return acc


def emit_consts_flt(consts, metrics):
    """binary64 values of the named constants and of every numeric literal / parameter default of distance.py.

    The value is the double Python itself uses: float(<exact rational of the source text>), i.e. the correctly rounded
    conversion that the Python parser performs on a float literal and that int -> float64 promotion performs on an int literal
    (exact below 2^53; larger integer literals are left out of the table, so that Model/MetricFlt.v evaluates to None on them)."""
    import sys as _sys
    o = [HEADER % "opfython/utils/constants.py, opfython/math/distance.py (binary64 values)"]
    o.append("From Coq Require Import QArith Floats List.\nFrom OPF Require Import Model.Consts.\nImport ListNotations.\n\n")
    for k in ("EPSILON", "MAX_ARC_WEIGHT", "MAX_DENSITY"):
        q = consts[k]
        o.append("Definition cf_%s : float := %s.   (* float(%s) *)\n" % (k, cq_float(float(q)), q))
    o.append("Definition cf_FLOAT_MAX : float := %s.   (* sys.float_info.max *)\n\n" % cq_float(_sys.float_info.max))
    o.append("(* mirrors cvalQ: FLOAT_MAX is known to the exact-rational tables by name only *)\n")
    o.append("Definition cvalF (n : cname) : option float :=\n  match n with\n  | CEpsilon => Some cf_EPSILON\n"
             "  | CMaxArcWeight => Some cf_MAX_ARC_WEIGHT\n  | CMaxDensity => Some cf_MAX_DENSITY\n  | CFloatMax => None\n  end.\n\n")
    lits = []
    for m in metrics:
        ir_literals(m["body"], lits)
        for _, q in m["params"]:
            if q is not None and (int(q[0]), int(q[1])) not in lits:
                lits.append((int(q[0]), int(q[1])))
    lits.sort(key=lambda t: Fraction(t[0], t[1]))
    rows = []
    for num, den in lits:
        if den == 1 and abs(num) > 2 ** 53:
            continue
        rows.append("(%s, %s)" % (cq_q(num, den), cq_float(float(Fraction(num, den)))))
    o.append("(* every numeric literal and parameter default occurring in distance.py, with the double Python uses for it *)\n")
    o.append("Definition lit_floats : list (Q * float) :=\n  [ %s ].\n" % ";\n    ".join(rows))
    return "".join(o)


def emit_decorator(dec):
    o = [HEADER % "opfython/utils/decorator.py (avoid_zero_division)"]
    o.append("From Coq Require Import String List.\nFrom OPF Require Import Model.Consts Model.Effects.\n"
             "Import ListNotations.\nOpen Scope string_scope.\n\n")
    o.append("Definition decorator_params : list string := [%s].\n\n" % "; ".join(cq_str(p) for p in dec["params"]))
    items = []
    for st in dec["body"]:
        if st[0] == "ReturnCall":
            items.append("ReturnCall [%s]" % "; ".join(cq_str(p) for p in st[1]))
        else:
            items.append("%s %s %s" % (st[0], cq_str(st[1]), st[2]))
    o.append("Definition decorator_body : list dstmt :=\n  [ %s ].\n" % ";\n    ".join(items))
    return "".join(o)


def emit_metrics(metrics):
    o = [HEADER % "opfython/math/distance.py"]
    o.append("From Coq Require Import QArith String List.\nFrom OPF Require Import Model.Consts Model.MetricIR.\n"
             "Import ListNotations.\nOpen Scope string_scope.\n\n")
    for m in metrics:
        ps = "; ".join("(%s, %s)" % (cq_str(p), "None" if q is None else "Some %s" % cq_q(q[0], q[1])) for p, q in m["params"])
        o.append("(* line %d *)\nDefinition ir_%s : metric_ir :=\n  {| m_name := %s;\n     m_avoid_zero := %s;\n     m_njit := %s;\n"
                 "     m_params := [%s];\n     m_body :=\n     %s |}.\n\n"
                 % (m["line"], m["name"], cq_str(m["fname"]), cq_bool(m["avoid_zero"]), cq_bool(m["njit"]), ps, cq_node(m["body"])))
    o.append("Definition all_metrics_ir : list (string * metric_ir) :=\n  [ %s ].\n"
             % ";\n    ".join("(%s, ir_%s)" % (cq_str(m["fname"]), m["name"]) for m in metrics))
    return "".join(o)


def emit_registry(reg, wl, init_ok, ctors):
    o = [HEADER % "opfython/math/distance.py (DISTANCES), opfython/core/opf.py, opfython/models/*.py"]
    o.append("From Coq Require Import String List.\nImport ListNotations.\nOpen Scope string_scope.\n\n")
    o.append("Definition registry : list (string * string) :=\n  [ %s ].\n\n"
             % ";\n    ".join("(%s, %s)" % (cq_str(k), cq_str(f)) for k, f in reg))
    o.append("Definition whitelist : list string :=\n  [ %s ].\n\n" % ";\n    ".join(cq_str(k) for k in wl))
    o.append("(* OPF.__init__ does `self.distance = distance` and `self.distance_fn = d.DISTANCES[distance]`,\n"
             "   unconditionally, once, on its unmodified parameter; nothing else in the class stores to them *)\n")
    o.append("Definition init_lookup_ok : bool := %s.\n\n" % cq_bool(init_ok))
    o.append("(* per model class: __init__ calls super().__init__(distance, pre_computed_distance) on its own unmodified parameters *)\n")
    o.append("Definition ctor_forwards : list (string * bool) :=\n  [ %s ].\n"
             % ";\n    ".join("(%s, %s)" % (cq_str(c), cq_bool(b)) for c, b in ctors))
    return "".join(o)


def write_if_changed(path, text):
    try:
        with open(path, encoding="utf-8") as fh:
            if fh.read() == text:
                return False
    except OSError:
        pass
    tmp = path + ".tmp"
    with open(tmp, "w", encoding="utf-8") as fh:
        fh.write(text)
    os.replace(tmp, path)
    return True


def translate(repo):
    consts = parse_consts(repo)
    dec = parse_decorator(repo)
    metrics, reg = parse_distance(repo)
    wl, init_ok = parse_opf(repo)
    ctors = parse_models(repo)
    files = {
        "Consts_gen.v": emit_consts(repo, consts),
        "ConstsFlt_gen.v": emit_consts_flt(consts, metrics),
        "Decorator_gen.v": emit_decorator(dec),
        "Metrics_gen.v": emit_metrics(metrics),
        "Registry_gen.v": emit_registry(reg, wl, init_ok, ctors),
    }
    sys.path.insert(0, os.path.dirname(os.path.abspath(__file__)))
    import stores
    sites = stores.collect(repo)
    files["Stores_gen.v"] = stores.emit(sites)
    import attrs
    files["Attrs_gen.v"] = attrs.emit(*attrs.collect(repo))
    dump = dict(repo=os.path.abspath(repo),
                consts={k: [str(v.numerator), str(v.denominator)] for k, v in consts.items()
                        if k in ("EPSILON", "MAX_ARC_WEIGHT", "MAX_DENSITY")},
                decorator=dec, metrics=metrics, registry=reg, whitelist=wl, init_lookup_ok=init_ok,
                ctor_forwards=ctors, stores=[list(x) for x in sites])
    return files, dump


def main(argv=None):
    here = os.path.dirname(os.path.dirname(os.path.abspath(__file__)))
    ap = argparse.ArgumentParser()
    ap.add_argument("--repo", default=os.environ.get("VERIF_REPO", "/repo"))
    ap.add_argument("--out", default=os.path.join(here, "coq", "theories", "Gen"))
    ap.add_argument("--json", default=os.path.join(here, "build", "metrics_ir.json"))
    a = ap.parse_args(argv)
    try:
        files, dump = translate(a.repo)
    except Unsupported as ex:
        print("py2coq: UNSUPPORTED (translator is fail-closed): %s" % ex)
        return 2
    except (OSError, SyntaxError) as ex:
        print("py2coq: cannot read/parse the source: %s" % ex)
        return 2
    os.makedirs(a.out, exist_ok=True)
    changed = [fn for fn, text in files.items() if write_if_changed(os.path.join(a.out, fn), text)]
    os.makedirs(os.path.dirname(os.path.abspath(a.json)), exist_ok=True)
    write_if_changed(a.json, json.dumps(dump, indent=1, sort_keys=True) + "\n")
    print("py2coq: %d metrics, %d registry keys, %d whitelist entries; rewritten: %s"
          % (len(dump["metrics"]), len(dump["registry"]), len(dump["whitelist"]), ", ".join(changed) or "nothing"))
    return 0


if __name__ == "__main__":
    sys.exit(main())
