"""Interpreter for the IR dumped by translator/py2coq.py (build/metrics_ir.json, or the `dump` returned by
py2coq.translate).  It mirrors coq/theories/Model/MetricIR.v (`evalS`/`evalV`, `wrap`, `call_fuel`)
clause by clause, over a pluggable number system (`ops`, see harness/errnum.py: floats, 60-digit decimals,
floats with a rounding-error bound).  Used for *translator validation*: the real functions must agree
with the IR on random vectors, otherwise the translator or the IR semantics is wrong (or numpy/numba
behaves outside the model).

    python translator/eval_ir.py build/metrics_ir.json manhattan "1,2,3" "0,5,1"
"""
import json
import os
import sys

sys.path.insert(0, os.path.join(os.path.dirname(os.path.dirname(os.path.abspath(__file__))), "harness"))
from errnum import DecOps, DomainError, ErrOps, FloatOps, Straddle, total  # noqa: E402

CALL_DEPTH = 3


class IR:
    def __init__(self, dump):
        self.dump = dump
        self.by_fname = {m["fname"]: m for m in dump["metrics"]}
        self.by_name = {m["name"]: m for m in dump["metrics"]}
        self.registry = dict((k, f) for k, f in dump["registry"])
        self.consts = {"CEpsilon": dump["consts"]["EPSILON"], "CMaxArcWeight": dump["consts"]["MAX_ARC_WEIGHT"],
                       "CMaxDensity": dump["consts"]["MAX_DENSITY"]}

    @staticmethod
    def load(path):
        with open(path) as fh:
            return IR(json.load(fh))

    # ---- constants
    def cval(self, ops, name):
        num, den = self.consts[name]
        return ops.const(int(num), int(den))

    # ---- operators
    @staticmethod
    def binop(ops, o, a, b):
        if o == "BAdd":
            return a + b
        if o == "BSub":
            return a - b
        if o == "BMul":
            return a * b
        if o == "BDiv":
            return ops.div(a, b)
        if o == "BMin":
            return ops.min(a, b)
        if o == "BMax":
            return ops.max(a, b)
        raise ValueError(o)

    @staticmethod
    def unop(ops, o, a):
        if o == "UNeg":
            return -a
        if o == "UFabs":
            return ops.abs(a)
        if o == "ULog":
            return ops.log(a)
        if o == "UExp":
            return ops.exp(a)
        if o == "USqrt":
            return ops.sqrt(a)
        raise ValueError(o)

    @staticmethod
    def powc(ops, a, c):
        return a * a if c == "PTwo" else ops.sqrt(a)

    @staticmethod
    def cmp(ops, c, l, r):
        if c == "CGe":
            return ops.le(r, l)
        if c == "CGt":
            return ops.lt(r, l)
        if c == "CLe":
            return ops.le(l, r)
        if c == "CLt":
            return ops.lt(l, r)
        raise ValueError(c)

    # ---- evalS / evalV
    def evalS(self, ops, fuel, pe, s, x, y):
        t = s[0]
        if t == "SSum":
            return total(ops, [self.evalV(ops, fuel, pe, s[1], x, y, a, b) for a, b in zip(x, y)])
        if t == "SAmax":
            vals = [self.evalV(ops, fuel, pe, s[1], x, y, a, b) for a, b in zip(x, y)]
            if not vals:
                return ops.const(0)
            acc = vals[0]
            for v in vals[1:]:
                acc = ops.max(acc, v)
            return acc
        if t == "SCountNe":
            n = 0
            for a, b in zip(x, y):
                if ops.ne(self.evalV(ops, fuel, pe, s[1], x, y, a, b), self.evalV(ops, fuel, pe, s[2], x, y, a, b)):
                    n += 1
            return ops.const(n)
        if t == "SLen":
            return ops.const(len(x))
        if t == "SConstQ":
            return ops.const(int(s[1]), int(s[2]))
        if t == "SConstName":
            return self.cval(ops, s[1])
        if t == "SParam":
            return pe[s[1]]
        if t == "SBin":
            return self.binop(ops, s[1], self.evalS(ops, fuel, pe, s[2], x, y), self.evalS(ops, fuel, pe, s[3], x, y))
        if t == "SUn":
            return self.unop(ops, s[1], self.evalS(ops, fuel, pe, s[2], x, y))
        if t == "SPowC":
            return self.powc(ops, self.evalS(ops, fuel, pe, s[1], x, y), s[2])
        if t == "SCall":
            xs = [self.evalV(ops, fuel, pe, s[2], x, y, a, b) for a, b in zip(x, y)]
            ys = [self.evalV(ops, fuel, pe, s[3], x, y, a, b) for a, b in zip(x, y)]
            return self.call(ops, fuel, s[1], xs, ys)
        raise ValueError(t)

    def evalV(self, ops, fuel, pe, v, x, y, a, b):
        t = v[0]
        if t == "VX":
            return a
        if t == "VY":
            return b
        if t == "VConstS":
            return self.evalS(ops, fuel, pe, v[1], x, y)
        if t == "VBin":
            return self.binop(ops, v[1], self.evalV(ops, fuel, pe, v[2], x, y, a, b), self.evalV(ops, fuel, pe, v[3], x, y, a, b))
        if t == "VUn":
            return self.unop(ops, v[1], self.evalV(ops, fuel, pe, v[2], x, y, a, b))
        if t == "VPowC":
            return self.powc(ops, self.evalV(ops, fuel, pe, v[1], x, y, a, b), v[2])
        if t == "VSel":
            c = self.cmp(ops, v[1], self.evalV(ops, fuel, pe, v[2], x, y, a, b), self.evalV(ops, fuel, pe, v[3], x, y, a, b))
            return self.evalV(ops, fuel, pe, v[4] if c else v[5], x, y, a, b)
        raise ValueError(t)

    # ---- decorator (value level), wrap, call_fuel
    def dec_apply(self, ops, args):
        d = self.dump["decorator"]
        env = dict(zip(d["params"], args))
        for st in d["body"]:
            if st[0] in ("AugAdd", "Rebind"):
                c = self.cval(ops, st[2])
                env[st[1]] = [a + c for a in env[st[1]]]
            elif st[0] == "ReturnCall":
                return [env[p] for p in st[1]]
        raise ValueError("decorator program does not return a call")

    def defaults(self, ops, m):
        return {p: ops.const(int(q[0]), int(q[1])) for p, q in m["params"] if q is not None}

    def wrap(self, ops, fuel, pe, m, x, y):
        if m["avoid_zero"]:
            x, y = self.dec_apply(ops, [x, y])
        return self.evalS(ops, fuel, pe, m["body"], x, y)

    def call(self, ops, fuel, fname, x, y):
        if fuel <= 0:
            return ops.const(0)
        m = self.by_fname[fname]
        return self.wrap(ops, fuel - 1, self.defaults(ops, m), m, x, y)

    def metric_value(self, ops, key, x, y, params=None):
        """`DISTANCES[key](x, y)`: registry -> function name -> definition; x, y are Python floats"""
        m = self.by_fname[self.registry[key]]
        pe = self.defaults(ops, m)
        for k, v in (params or {}).items():
            pe[k] = ops.of_float(v)
        return self.wrap(ops, CALL_DEPTH, pe, m, [ops.of_float(a) for a in x], [ops.of_float(b) for b in y])


if __name__ == "__main__":
    ir = IR.load(sys.argv[1])
    xs = [float(t) for t in sys.argv[3].split(",")]
    ys = [float(t) for t in sys.argv[4].split(",")]
    for ops in (FloatOps(), DecOps(), ErrOps()):
        try:
            print(ops.name, ir.metric_value(ops, sys.argv[2], xs, ys))
        except (DomainError, Straddle) as ex:
            print(ops.name, "->", type(ex).__name__, ex)
