"""Large-size streams: a few big inputs per check (more samples, longer vectors, longer batches, deeper heaps/forests than
the bulk streams use). Fast paths, blocked computations, fixed-capacity buffers and narrow integer types only show above a
size threshold. The big inputs are judged by the Python oracles (the property evaluated on the implementation's own
output); the Coq correspondence stays on the small instances."""
import numpy as np

from supcommon import *  # noqa

BIG_METRICS = ["log_squared_euclidean", "euclidean", "manhattan", "cosine", "bray_curtis", "dice", "jaccard", "canberra", "squared_euclidean"]


def big_instance(rng, n, nu, m, metric, dim, offset=0.0, spread=9.0, classes=2, blobs=False):
    N = n + nu + m
    if blobs:
        # class-structured data: one Gaussian blob per class (few prototypes, long optimum paths), 4 % label noise
        cen = [[offset + rng.uniform(1.0, spread) for _ in range(dim)] for _ in range(classes)]
        lab = [j % classes for j in range(N)]
        rng.shuffle(lab)
        X = [[abs(cen[lab[j]][t] + rng.gauss(0, spread / 8.0)) + 0.01 for t in range(dim)] for j in range(N)]
        labels = [1 + (lab[j] if rng.random() > 0.04 else rng.randrange(classes)) for j in range(n)]
        for c_ in range(min(classes, n)):
            labels[c_] = 1 + c_
        D = metric_matrix(metric, X)
        return Instance("large", X, labels, D, nu, m, metric)
    X = [[offset + rng.uniform(0.05, spread) for _ in range(dim)] for _ in range(N)]
    labels = [1 + (j % classes) for j in range(n)]
    rng.shuffle(labels)
    D = metric_matrix(metric, X)
    return Instance("large", X, labels, D, nu, m, metric)


def sup_large(rep, rng, tier, what):
    """what: subset of {'forest', 'prototypes', 'semi', 'predict_big_batch', 'resub_offset'}; returns #violations"""
    nviol = 0
    reps = 1 if tier == "quick" else 6

    def viol(msg, it, key):
        nonlocal nviol
        nviol += 1
        if nviol <= 3:
            d = dict(kind="large", metric=it.metric, n=it.n, nu=it.nu, m=it.m, labels=it.labels, X=it.X)
            rep.violation(msg, d, key=key)

    for r_ in range(reps):
        if "forest" in what or "prototypes" in what:
            ratio = rng.sample(BIG_METRICS[3:], 2)
            for vi, metric in enumerate([rng.choice(BIG_METRICS[:3]), ratio[0], rng.choice(BIG_METRICS[:3]), ratio[1]]):
                lowdim = vi == 2
                n = rng.choice([100, 140, 200]) if lowdim else rng.choice([65, 70, 90, 129, 150])
                dim = rng.choice([2, 3]) if lowdim else rng.choice([33, 36, 48, 64, 65])
                it = big_instance(rng, n, 0, 0, metric, dim, classes=rng.choice([2, 3]) if lowdim else rng.choice([2, 3, 9]), blobs=(vi != 1))
                if any(v != v for row in it.D for v in row):
                    continue
                try:
                    pst = impl_prim(it)
                    _, st = impl_fit(it)
                except Exception as ex:
                    viol("training on %d samples with %d features (%s) raised %r" % (n, dim, metric, ex), it, "large:fit"); continue
                rep.count_case(("large", it.key()), True)
                protos = {q for q in range(n) if st["status"][q] == 1}
                msg = None
                if "forest" in what:
                    msg = oracle_forest(st, it.D, n, it.labels, protos)
                if not msg and "prototypes" in what:
                    msg = oracle_prototypes(pst, st, it.D, n, it.labels)
                if msg:
                    viol("%d samples, %d features, %s: %s" % (n, dim, metric, msg), it, "large:fit")
        if "semi" in what:
            nl, nu = rng.randint(16, 30), rng.choice([257, 300, 513])
            it = big_instance(rng, nl, nu, 0, rng.choice(["euclidean", "log_squared_euclidean", "manhattan"]), rng.randint(2, 4))
            try:
                _, st = impl_semi_fit(it)
                rep.count_case(("large-semi", it.key()), True)
                protos = {q for q in range(nl) if st["status"][q] == 1}
                msg = oracle_forest(st, it.D, nl + nu, it.labels + [0] * nu, protos, check_labels=False)
                if not msg:
                    # labels: every node carries the true label of its root prototype
                    for q in range(nl + nu):
                        r = q
                        while st["pred"][r] != -1:
                            r = st["pred"][r]
                        if st["plabel"][q] != it.labels[r]:
                            msg = "sample %d carries label %d, its root prototype %d has true label %d" % (q, st["plabel"][q], r, it.labels[r]); break
            except Exception as ex:
                msg = "raised %r" % (ex,)
            if msg:
                viol("semi-supervised training with %d labeled and %d unlabeled samples: %s" % (nl, nu, msg), it, "large:semi")
        if "predict_big_batch" in what:
            # one predict call on a float64 batch larger than 1 MiB, coordinates with a large common offset
            n, dim, m = 24, 64, 2100
            metric = "euclidean"
            off = 1.0e6
            Xtr = np.array([[off + rng.uniform(0, 10) for _ in range(dim)] for _ in range(n)])
            Xq = np.array([[off + rng.uniform(0, 10) for _ in range(dim)] for _ in range(m)])
            # half of the queries sit almost on a bisector of two training points of different classes
            labels = [1 + (j % 2) for j in range(n)]
            for j in range(0, m, 2):
                a, b = rng.sample(range(n), 2)
                Xq[j] = (Xtr[a] + Xtr[b]) / 2 + np.array([rng.uniform(-1e-3, 1e-3) for _ in range(dim)])
            from opfython.models.supervised import SupervisedOPF
            import opfython.math.distance as dmod
            fn = dmod.DISTANCES[metric]
            opf = SupervisedOPF(distance=metric)
            opf.fit(Xtr.copy(), np.array(labels))
            st = node_state(opf.subgraph)
            preds = [int(p) for p in opf.predict(Xq.copy())]
            rep.count_case(("large-batch", Xtr.tobytes()[:64], m), True)
            for j in range(m):
                dcol = [float(fn(Xtr[t], Xq[j])) for t in range(n)]
                msg = oracle_predict(st, dcol, preds[j])
                if msg:
                    nviol += 1
                    if nviol <= 3:
                        rep.violation("query %d of a %d-row float64 batch (%d values): %s" % (j, m, m * dim, msg),
                                      dict(kind="large-batch", metric=metric, X_train=Xtr.tolist(), labels=labels, query=Xq[j].tolist(), batch_rows=m), key="large:predict")
                    break
        if "resub_offset" in what:
            # tie-free data with a large common offset (time stamps), default metric, more than 64 samples
            n, dim = rng.choice([96, 130]), 3
            for _ in range(20):
                X = [[1.7e9 + 40.0 * rng.gauss(0, 1) for _ in range(dim)] for _ in range(n)]
                D = metric_matrix("log_squared_euclidean", X)
                offd = [D[a][b] for a in range(n) for b in range(a + 1, n)]
                if len(set(offd)) == len(offd) and min(offd) > 0 and all(D[a][b] == D[b][a] for a in range(n) for b in range(a)):
                    break
            else:
                continue
            labels = [1 + (j % 2) for j in range(n)]; rng.shuffle(labels)
            it = Instance("large", X, labels, D, 0, 0, "log_squared_euclidean")
            try:
                opf, st = impl_fit(it)
                preds = [int(p) for p in opf.predict(np.array(X))]
            except Exception as ex:
                viol("raised %r" % (ex,), it, "large:resub"); continue
            rep.count_case(("large-resub", it.key()), True)
            if st["plabel"] != labels:
                q = [j for j in range(n) if st["plabel"][j] != labels[j]][0]
                viol("tie-free training on %d samples (features near 1.7e9): sample %d was assigned label %d, its true label is %d" % (n, q, st["plabel"][q], labels[q]), it, "large:resub")
            elif preds != labels:
                q = [j for j in range(n) if preds[j] != labels[j]][0]
                viol("tie-free training on %d samples (features near 1.7e9): predicting training row %d returns %d, its label is %d" % (n, q, preds[q], labels[q]), it, "large:resub")
    return nviol
