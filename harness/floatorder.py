"""Run-time tie between the formal float order (coq/theories/Proofs/FloatOrder.v, FloatRank.v) and the harness / Python.

Props/C01_float_order.v proves, for Coq's primitive binary64 floats, that PrimFloat.ltb is a strict weak order on
non-NaN floats and that `fenc` (the integer read off the IEEE bit pattern) and `ranker` (its dense rank in a list) are
order embeddings.  What those theorems do not say is that the objects are the ones used on the Python side:

  * `fenc x`        is common.enc(x)            (struct.pack bit pattern, sign-magnitude -> integer)
  * `ranker vs x`   is common.Ranker(vs).r(x)
  * `PrimFloat.ltb` / `eqb` decide like Python's `<` / `==` on float and numpy.float64

This module checks exactly that on sampled doubles (random bit patterns, subnormals, both zeros, infinities, extremes,
neighbours one ulp apart), by evaluating the Coq definitions with vm_compute.  It is called from c05.py; one
obligation is added to the report.
"""
import math
import random
import struct

import numpy as np

from common import Ranker, enc, flit, run_cases


def _from_bits(b):
    return struct.unpack(">d", struct.pack(">Q", b))[0]


SPECIAL = [0.0, -0.0, 1.0, -1.0, 0.5, 2.5, -2.5, float("inf"), float("-inf"),
           5e-324, -5e-324, 2.2250738585072014e-308, 2.225073858507201e-308, -2.2250738585072014e-308,
           1.7976931348623157e308, -1.7976931348623157e308, 0.1, 0.2, 0.30000000000000004, 0.3,
           0.5833333333333333, 0.5833333333333334, 1e-7, 1e-10, 4503599627370496.0, 9007199254740992.0, 9007199254740993.0]


def sample_values(rng, n):
    vals = list(SPECIAL)
    while len(vals) < n:
        k = rng.random()
        if k < 0.5:
            x = _from_bits(rng.getrandbits(64))
        elif k < 0.7:
            x = _from_bits(rng.getrandbits(52) | (rng.getrandbits(1) << 63))      # subnormal
        elif k < 0.85:
            x = rng.choice([-1, 1]) * rng.random() * 10 ** rng.randint(-3, 3)      # the range the library works in
        else:
            x = float(rng.randint(-20, 20)) / rng.choice([1, 2, 4, 3, 7])
        if x == x:
            vals.append(x)
    return vals


def sample_pairs(rng, vals, n):
    pairs = [(0.0, -0.0), (-0.0, 0.0), (0.0, 0.0), (-0.0, -0.0), (float("inf"), float("inf")),
             (float("-inf"), float("inf")), (5e-324, 0.0), (-5e-324, -0.0), (0.5833333333333333, 0.5833333333333334)]
    while len(pairs) < n:
        x = rng.choice(vals)
        k = rng.random()
        if k < 0.3:
            y = rng.choice(vals)
        elif k < 0.5:
            y = x
        elif k < 0.7:
            y = math.nextafter(x, rng.choice([-math.inf, math.inf]))
        elif k < 0.85:
            y = -x
        else:
            y = math.nextafter(math.nextafter(x, math.inf), math.inf)
        if y == y:
            pairs.append((x, y))
    return pairs


def check(rep, tier, seed):
    rng = random.Random(seed + 505)
    nv = 1500 if tier == "quick" else 60000
    vals = sample_values(rng, nv)
    pairs = sample_pairs(rng, vals, nv)
    lists = [[rng.choice(vals[:200]) for _ in range(rng.randint(1, 12))] for _ in range(60 if tier == "quick" else 1500)]
    lists.append([0.0, -0.0, 0.5, 0.5, -0.0, 1.7976931348623157e308])
    terms, expect = [], []
    CH = 100
    for i in range(0, len(vals), CH):
        ch = vals[i:i + CH]
        terms.append("map fenc %s" % ("[" + "; ".join(flit(v) for v in ch) + "]"))
        expect.append([enc(v) for v in ch])
    for i in range(0, len(pairs), CH):
        ch = pairs[i:i + CH]
        terms.append("flat_map (fun xy : float * float => [if PrimFloat.ltb (fst xy) (snd xy) then 1 else 0; "
                     "if PrimFloat.eqb (fst xy) (snd xy) then 1 else 0; if PrimFloat.ltb (snd xy) (fst xy) then 1 else 0]) [%s]"
                     % "; ".join("(%s, %s)" % (flit(x), flit(y)) for x, y in ch))
        e = []
        for x, y in ch:
            nx, ny = np.float64(x), np.float64(y)
            py = [int(x < y), int(x == y), int(y < x)]
            npv = [int(bool(nx < ny)), int(bool(nx == ny)), int(bool(ny < nx))]
            gt = [int(y > x), int(not (x != y)), int(x > y)]
            if py != npv or py != gt:
                rep.obligation("python float and numpy.float64 comparisons agree", False, "x=%r y=%r" % (x, y))
            e.extend(py)
        expect.append(e)
    for l in lists:
        terms.append("map (ranker %s) %s" % ("[" + "; ".join(flit(v) for v in l) + "]", "[" + "; ".join(flit(v) for v in l) + "]"))
        rk = Ranker(l)
        expect.append([rk.r(v) for v in l])
    try:
        got = run_cases("FLOATORDER", terms, requires=("Proofs.FloatOrder", "Proofs.WeakOrder", "Proofs.FloatRank"))
    except RuntimeError as ex:
        rep.obligation("correspondence FloatOrder.fenc / FloatRank.ranker / PrimFloat.ltb,eqb vs common.enc / common.Ranker / Python <,==", False, str(ex))
        return
    bad = [(t, g, e) for t, g, e in zip(terms, got, expect) if g != e]
    rep.obligation("correspondence FloatOrder.fenc / FloatRank.ranker / PrimFloat.ltb,eqb vs common.enc / common.Ranker / Python <,== "
                   "(%d doubles, %d pairs, %d lists)" % (len(vals), len(pairs), len(lists)),
                   not bad, "" if not bad else "first disagreement: %s\n got %r\n expected %r" % (bad[0][0][:400], bad[0][1], bad[0][2]))
    rep.corr["float_order"] = dict(cases=len(vals) + len(pairs) + len(lists), disagreements=len(bad),
                                   distribution=dict(values=len(vals), pairs=len(pairs), rank_lists=len(lists),
                                                     subnormal=sum(1 for v in vals if v != 0 and abs(v) < 2.2250738585072014e-308),
                                                     zeros=sum(1 for v in vals if v == 0), infinite=sum(1 for v in vals if math.isinf(v)),
                                                     equal_pairs=sum(1 for x, y in pairs if x == y),
                                                     one_ulp_pairs=sum(1 for x, y in pairs if x != y and math.nextafter(x, y) == y)))
