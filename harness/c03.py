from supcheck import main_c03 as main
from supcommon import *  # noqa


def replay(path):
    print(open(path).read()[:2000])
    return 0
