"""C06, quantitative rounding oracle (Props/C06_rounding.v).

For exactly the identifiers and exponents k(n) stated by the theorem C06_rounding_table (read from the Props file,
cross-checked against the per-identifier theorems C06_rounding_<name> and against the Coq function `rdepth_name`
evaluated by coqc, so the oracle and the theorems cannot drift apart) the REAL functions must satisfy

        |value - exact|  <=  ((1 + u)^k(n) - 1) * exact,        u = 2^-53,

on vectors of every length 1..130.  `exact` is the closed form of harness/metric_ref.py evaluated by errnum.DecOps at 200
significant decimal digits (inputs converted exactly; every Decimal operation is correctly rounded to 200 digits, so the
reference has a relative error below 1e-190, 170 orders of magnitude below u).

The theorem is about the model of Model/MetricRnd.v: a rounding after every arithmetic node, np.sum as a LEFT FOLD.
numpy sums pairwise from n = 8 (8-way unrolled blocks, recursion above 128 entries); pairwise summation has a smaller
worst-case error than the left fold, so the bound must still hold.  The registered functions are njit-compiled: numba's
np.sum is a sequential accumulation (the model's left fold; measured errors grow like n u / 6 on equal terms).  BOTH are
checked: the registered function, and the same source run by plain numpy (`.py_func`, pairwise np.sum).  A
fused multiply-add would remove one rounding per term.  None of this can exceed the bound; a measured excess is a
modelling finding and is reported as a violation with the input.

Magnitudes: every entry is exactly 0 or 1e-100 <= |v| <= 1e100.  Then no intermediate result is subnormal or overflows
(non-zero differences of such doubles are >= 1e-117 in magnitude, their squares >= 1e-234 > 2.3e-308; sums of <= 130
squares are <= 5.2e202 < 1.8e308), which is the side condition of the standard model.

SHIFTED FAMILY (Props/C06_rounding_shift.v, theorem C06_rounding_shift_table): for 19 decorated identifiers on non-negative
user vectors the theorem compares with the closed form at the arguments the decorator hands to the body,
x' = fl(x + 1e-20), y' = fl(y + 1e-20) (computed here by the same float64 addition), with the factor
(1+u)^p / (1-u)^q - 1.  Entries are exactly 0 or 1e-60 <= v <= 1e60 (zeros become 1e-20 behind the decorator; quotients
like (x-y)^2 (x+y) / (x y) and (x-y)^2 / min(x,y)^2 then stay between 1e-273 and 1e203: normal range).

Information only (never a violation): squared_chord / matusita / hellinger are REFUTED in the model
(C06_rounding_squared_chord_refuted); the binary64 witness x = [1.0], y = [1.0 + 2^-52] is evaluated and recorded.
"""
import math
import os
import random
import re
from decimal import Decimal

import numpy as np

from common import COQ, BUILD, sh, vo_ok
import errnum
import metric_ref

PROPS = os.path.join(COQ, "theories", "Props", "C06_rounding.v")
PREC = 200
ALL_LENGTHS = list(range(1, 131))
QUICK_LENGTHS = list(range(1, 13)) + [15, 16, 17, 24, 31, 32, 33, 63, 64, 65, 100, 127, 128, 129, 130]
_EXPR_OK = re.compile(r"^[n0-9+\-/() ]+$")
PROPS_SHIFT = os.path.join(COQ, "theories", "Props", "C06_rounding_shift.v")


# ----------------------------------------------------------------------------------------------
# reading the theorems

def _source(path=None):
    src = open(path or PROPS).read()
    return re.sub(r"\(\*.*?\*\)", " ", src, flags=re.S)


def _statement(src, name):
    m = re.search(r"Theorem\s+%s\s*:(.*?)Proof\." % re.escape(name), src, flags=re.S)
    return m.group(1) if m else ""


def _expr(text, var):
    """a Coq nat expression over `var`, numerals, +, / and parentheses -> Python source over n (// for /)"""
    e = text.replace("%nat", "").replace(var, "n").strip()
    if not _EXPR_OK.match(e):
        raise ValueError("unexpected exponent expression %r" % text)
    return e.replace("/", "//")


def k_of(expr, n):
    return int(eval(expr, {"__builtins__": {}}, {"n": n}))


def table():
    """{identifier: python expression of k(n)} as stated by C06_rounding_table"""
    st = _statement(_source(), "C06_rounding_table")
    out = {}
    for name, e in re.findall(r'rdepth_name\s+"([a-z0-9_]+)_distance"\s+n\s*=\s*Some\s+(.*?)\s*(?=/\\|$)', st, flags=re.S):
        out[name] = _expr(e.rstrip(". \n"), "n")
    return out


def instance_exponent(name):
    """the exponent written in the statement of C06_rounding_<name>: the k of `((1 + u) ^ k - 1) * sp_<name> x y`"""
    st = _statement(_source(), "C06_rounding_%s" % name)
    m = re.search(r"\(\(1 \+ u\) \^ (.*?) - 1\)\s*\*\s*sp_%s x y" % re.escape(name), st, flags=re.S)
    if not m:
        return None
    e = m.group(1).strip()
    if e.startswith("(") and e.endswith(")") and e.count("(") == e.count(")"):
        inner = e[1:-1]
        depth, ok = 0, True
        for ch in inner:
            depth += ch == "("
            depth -= ch == ")"
            ok = ok and depth >= 0
        e = inner if ok else e
    return _expr(e, "length x")


def coq_exponents(names, lengths):
    """rdepth_name evaluated by coqc: {name: {n: k or None}}; None if coqc fails"""
    d = os.path.join(BUILD, "c06_rounding")
    os.makedirs(d, exist_ok=True)
    f = os.path.join(d, "Rdepth_eval.v")
    with open(f, "w") as fh:
        fh.write("From Coq Require Import String List.\nFrom OPF Require Import Model.MetricRdepth.\nImport ListNotations.\n"
                 "Open Scope string_scope.\n")
        fh.write("Eval vm_compute in (map (fun f => map (fun n => match rdepth_name f n with Some k => S k | None => O end) [%s]) [%s]).\n"
                 % ("; ".join(str(n) for n in lengths), "; ".join('"%s_distance"' % n for n in names)))
    rc, out = sh(["coqc", "-Q", os.path.join(COQ, "theories"), "OPF", f], timeout=600)
    if rc != 0:
        return None
    m = re.search(r"=\s*(\[.*\])\s*:\s*list \(list nat\)", out, flags=re.S)
    if not m:
        return None
    rows = re.findall(r"\[([0-9;\s]*)\]", m.group(1)[1:-1])
    if len(rows) != len(names):
        return None
    res = {}
    for name, row in zip(names, rows):
        vals = [int(v) for v in row.replace("\n", " ").split(";") if v.strip()]
        if len(vals) != len(lengths):
            return None
        res[name] = {n: (v - 1 if v > 0 else None) for n, v in zip(lengths, vals)}
    return res


def _split_pair(text):
    """'(P, Q)' -> (P, Q) split at the top-level comma"""
    t = text.strip()
    assert t.startswith("(") and t.endswith(")"), text
    t = t[1:-1]
    depth = 0
    for i, ch in enumerate(t):
        depth += ch == "("
        depth -= ch == ")"
        if ch == "," and depth == 0:
            return t[:i], t[i + 1:]
    raise ValueError("no pair in %r" % text)


def table_shift():
    """{identifier: (python expr of p(n), python expr of q(n))} as stated by C06_rounding_shift_table"""
    st = _statement(_source(PROPS_SHIFT), "C06_rounding_shift_table")
    out = {}
    for name, e in re.findall(r'rdepthq_name\s+NonNeg\s+"([a-z0-9_]+)_distance"\s+n\s*=\s*Some\s+(.*?)\s*(?=/\\|$)', st, flags=re.S):
        pe, qe = _split_pair(e.rstrip(". \n"))
        out[name] = (_expr(pe, "n"), _expr(qe, "n"))
    return out


def coq_exponents_shift(names, lengths):
    """rdepthq_name NonNeg evaluated by coqc: {name: {n: (p, q) or None}}; None if coqc fails"""
    d = os.path.join(BUILD, "c06_rounding")
    os.makedirs(d, exist_ok=True)
    f = os.path.join(d, "Rdepthq_eval.v")
    with open(f, "w") as fh:
        fh.write("From Coq Require Import String List.\nFrom OPF Require Import Model.MetricRnd Model.MetricRdepthQ.\nImport ListNotations.\n"
                 "Open Scope string_scope.\n")
        fh.write("Eval vm_compute in (map (fun f => map (fun n => match rdepthq_name NonNeg f n with Some (p, q) => [S p; q] | None => [O; O] end) [%s]) [%s]).\n"
                 % ("; ".join(str(n) for n in lengths), "; ".join('"%s_distance"' % n for n in names)))
    rc, out = sh(["coqc", "-Q", os.path.join(COQ, "theories"), "OPF", f], timeout=600)
    if rc != 0:
        return None
    m = re.search(r"=\s*(\[.*\])\s*:\s*list \(list \(list nat\)\)", out, flags=re.S)
    if not m:
        return None
    nums = [int(v) for v in re.findall(r"\d+", m.group(1))]
    if len(nums) != 2 * len(names) * len(lengths):
        return None
    res, i = {}, 0
    for name in names:
        res[name] = {}
        for n in lengths:
            p1, q = nums[i], nums[i + 1]
            i += 2
            res[name][n] = (p1 - 1, q) if p1 > 0 else None
    return res


# ----------------------------------------------------------------------------------------------
# inputs: every entry is exactly 0 or 1e-100 <= |v| <= 1e100

def _mag(rng, lo, hi):
    return rng.uniform(1.0, 10.0) * 10.0 ** rng.randint(lo, hi - 1)


def gen_pair(rng, n, style):
    sgn = lambda: -1.0 if rng.random() < 0.5 else 1.0
    if style == "plain":
        x = [rng.uniform(-8, 8) for _ in range(n)]
        y = [rng.uniform(-8, 8) for _ in range(n)]
    elif style == "wide":          # 200 decades inside one vector
        x = [sgn() * _mag(rng, -100, 100) for _ in range(n)]
        y = [sgn() * _mag(rng, -100, 100) for _ in range(n)]
    elif style == "scaled":        # one scale per pair
        s = 10.0 ** rng.randint(-95, 95)
        x = [sgn() * rng.uniform(1e-3, 8) * s for _ in range(n)]
        y = [sgn() * rng.uniform(1e-3, 8) * s for _ in range(n)]
    elif style == "near":          # differences of a few ulps up to 1e-6 relative: the subtraction is exact or nearly so
        x = [sgn() * _mag(rng, -3, 3) for _ in range(n)]
        y = [a * (1.0 + rng.choice([0.0, 2.0 ** -52, 3 * 2.0 ** -52, 1e-12, 1e-6])) for a in x]
    elif style == "tenths":        # the classic accumulation case: equal inexact terms
        a, b = rng.choice([(0.1, 0.0), (0.3, 0.1), (1.1, 0.4), (0.7, -0.2)])
        x, y = [a] * n, [b] * n
    elif style == "ints":          # small integers: every operation is exact
        x = [float(rng.randint(-4, 4)) for _ in range(n)]
        y = [float(rng.randint(-4, 4)) for _ in range(n)]
    elif style == "zeros":         # many equal entries / exact zeros
        x = [rng.choice([0.0, rng.uniform(-8, 8)]) for _ in range(n)]
        y = [a if rng.random() < 0.5 else rng.choice([0.0, rng.uniform(-8, 8)]) for a in x]
    elif style == "decreasing":    # one large term first, many small ones after it (worst order for a left fold)
        x = [1.0 / (i + 1) ** 2 * rng.uniform(1.0, 1.5) for i in range(n)]
        y = [0.0] * n
    elif style == "increasing":
        x = [(i + 1) * rng.uniform(1.0, 1.5) * 1e-3 for i in range(n)]
        y = [-a * rng.uniform(0.0, 1.0) for a in x]
    else:
        raise ValueError(style)
    for v in x + y:
        assert v == 0.0 or 1e-100 <= abs(v) <= 1e100, v
    return x, y


def gen_pair_nonneg(rng, n, style):
    """non-negative vectors, entries exactly 0 or 1e-60 <= v <= 1e60"""
    if style == "plain":
        x = [rng.uniform(0.01, 8) for _ in range(n)]
        y = [rng.uniform(0.01, 8) for _ in range(n)]
    elif style == "wide":
        x = [_mag(rng, -60, 60) for _ in range(n)]
        y = [_mag(rng, -60, 60) for _ in range(n)]
    elif style == "scaled":
        s = 10.0 ** rng.randint(-55, 55)
        x = [rng.uniform(1e-3, 8) * s for _ in range(n)]
        y = [rng.uniform(1e-3, 8) * s for _ in range(n)]
    elif style == "near":
        x = [_mag(rng, -3, 3) for _ in range(n)]
        y = [a * (1.0 + rng.choice([0.0, 2.0 ** -52, 3 * 2.0 ** -52, 1e-12, 1e-6])) for a in x]
    elif style == "tenths":
        a, b = rng.choice([(0.1, 0.3), (0.3, 0.1), (1.1, 0.4), (0.7, 0.2)])
        x, y = [a] * n, [b] * n
    elif style == "ints":
        x = [float(rng.randint(0, 4)) for _ in range(n)]
        y = [float(rng.randint(0, 4)) for _ in range(n)]
    elif style == "zeros":
        x = [rng.choice([0.0, rng.uniform(0.01, 8)]) for _ in range(n)]
        y = [a if rng.random() < 0.5 else rng.choice([0.0, rng.uniform(0.01, 8)]) for a in x]
    elif style == "prob":
        x = [rng.uniform(0.05, 1.0) for _ in range(n)]
        y = [rng.uniform(0.05, 1.0) for _ in range(n)]
        sx, sy = sum(x), sum(y)
        x, y = [a / sx for a in x], [b / sy for b in y]
    elif style == "small":         # below 1e-4: the shift is visible in binary64 (x + 1e-20 != x)
        x = [rng.choice([0.0, 1e-21, 3e-20, rng.uniform(1e-19, 1e-5)]) for _ in range(n)]
        y = [rng.choice([0.0, 1e-21, 3e-20, rng.uniform(1e-19, 1e-5)]) for _ in range(n)]
    else:
        raise ValueError(style)
    for v in x + y:
        assert v == 0.0 or 1e-60 <= v <= 1e60, v
    return x, y


STYLES_NONNEG = ["plain", "wide", "scaled", "near", "tenths", "ints", "zeros", "prob", "small"]
STYLES = ["plain", "wide", "scaled", "near", "tenths", "ints", "zeros", "decreasing", "increasing"]


# ----------------------------------------------------------------------------------------------

class Exact:
    """closed forms at PREC digits; restores the caller's decimal context on exit"""

    def __enter__(self):
        import decimal
        self._saved = decimal.getcontext()
        self.ops = errnum.DecOps(PREC)
        self.u = Decimal(2) ** -53
        return self

    def __exit__(self, *a):
        import decimal
        decimal.setcontext(self._saved)

    def value(self, name, x, y):
        return Decimal(metric_ref.reference(name, self.ops, x, y))

    def value_at(self, name, xs, ys):
        """the closed form WITHOUT the EPSILON shift, at the float arguments xs, ys"""
        f = metric_ref.TABLE[name][0]
        return Decimal(f(self.ops, [self.ops.of_float(a) for a in xs], [self.ops.of_float(b) for b in ys]))

    def factor2(self, p, q):
        """(1 + u)^p / (1 - u)^q - 1"""
        return (1 + self.u) ** p / (1 - self.u) ** q - 1

    def factor(self, k):
        """(1 + u)^k - 1, to PREC digits"""
        return (1 + self.u) ** k - 1


def numpy_variant(fn):
    """the same source function run by plain numpy (np.sum = pairwise summation) instead of the njit-compiled code:
    `.py_func` of the numba dispatcher, re-wrapped by the decorator when the registered function is decorated"""
    inner = getattr(fn, "__wrapped__", None)
    if inner is not None and hasattr(inner, "py_func"):
        import opfython.utils.decorator as dec
        return dec.avoid_zero_division(inner.py_func)
    if hasattr(fn, "py_func"):
        return fn.py_func
    return None


def call_impl(fn, x, y):
    try:
        return float(fn(np.array(x, dtype=np.float64), np.array(y, dtype=np.float64))), ""
    except Exception as ex:  # noqa
        return None, "%s: %s" % (type(ex).__name__, ex)


def check_one(ex, name, fn, kexpr, x, y):
    """(ok, info dict)"""
    n = len(x)
    k = k_of(kexpr, n)
    got, note = call_impl(fn, x, y)
    exact = ex.value(name, x, y)
    if got is None or not math.isfinite(got):
        return False, dict(k=k, got=got if got is not None else note, exact=float(exact), err_in_u=None, ratio=None)
    err = abs(Decimal(got) - exact)
    bound = ex.factor(k) * exact
    ok = err <= bound
    err_u = float(err / (exact * ex.u)) if exact != 0 else (0.0 if err == 0 else float("inf"))
    ratio = float(err / bound) if bound != 0 else (0.0 if err == 0 else float("inf"))
    return ok, dict(k=k, got=got, exact=float(exact), err_in_u=err_u, ratio=ratio)


def check_one_shift(ex, name, fn, pq, x, y):
    n = len(x)
    p, q = k_of(pq[0], n), k_of(pq[1], n)
    got, note = call_impl(fn, x, y)
    xs = [float(v) for v in (np.array(x, dtype=np.float64) + 1e-20)]      # what the decorator hands to the body
    ys = [float(v) for v in (np.array(y, dtype=np.float64) + 1e-20)]
    try:
        exact = ex.value_at(name, xs, ys)
    except (ArithmeticError, ValueError) as e:
        return None, dict(p=p, q=q, got=got, exact=None, note="reference undefined: %s" % e)
    if got is None or not math.isfinite(got):
        return False, dict(p=p, q=q, got=got if got is not None else note, exact=float(exact), err_in_u=None, ratio=None)
    err = abs(Decimal(got) - exact)
    bound = ex.factor2(p, q) * exact
    ok = err <= bound
    err_u = float(err / (exact * ex.u)) if exact != 0 else (0.0 if err == 0 else float("inf"))
    ratio = float(err / bound) if bound != 0 else (0.0 if err == 0 else float("inf"))
    return ok, dict(p=p, q=q, got=got, exact=float(exact), err_in_u=err_u, ratio=ratio)


def run_shift(rep, D, tier, seed, ex, lengths):
    tab = table_shift()
    names = sorted(tab)
    rep.obligation("Props/C06_rounding_shift.v: C06_rounding_shift_table states (p, q)(n) for 19 registered decorated identifiers",
                   len(tab) == 19 and all(n in D for n in names), "read: %r" % tab)
    if vo_ok("Model/MetricRdepthQ"):
        cq = coq_exponents_shift(names, ALL_LENGTHS)
        bad = [] if cq is None else [(nm, n, cq[nm][n]) for nm in names for n in ALL_LENGTHS
                                     if cq[nm][n] != (k_of(tab[nm][0], n), k_of(tab[nm][1], n))]
        rep.obligation("coqc: rdepthq_name NonNeg f n evaluates to the table's (p, q)(n) for the 19 identifiers, n = 1..130",
                       cq is not None and not bad, "coqc failed" if cq is None else "%r" % bad[:5])
    else:
        rep.obligation("coqc: rdepthq_name NonNeg f n evaluates to the table's (p, q)(n)", False, "Model/MetricRdepthQ.vo not built")
    rng = random.Random(seed + 607)
    reps = 1 if tier == "quick" else 3
    per = {n: dict(cases=0, skipped=0, max_err_in_u=0.0, max_ratio_to_bound=0.0, pq={}) for n in names}
    bad_seen = set()
    cases = 0
    for name in names:
        fn = D[name]
        for n in lengths:
            for style in STYLES_NONNEG:
                for _ in range(reps):
                    x, y = gen_pair_nonneg(rng, n, style)
                    ok, info = check_one_shift(ex, name, fn, tab[name], x, y)
                    p = per[name]
                    fnp = numpy_variant(fn)
                    if fnp is not None and ok is not None:
                        ok2, info2 = check_one_shift(ex, name, fnp, tab[name], x, y)
                        p["numpy_cases"] = p.get("numpy_cases", 0) + 1
                        if info2.get("ratio") is not None:
                            p["numpy_max_err_in_u"] = max(p.get("numpy_max_err_in_u", 0.0), info2["err_in_u"])
                        if ok2 is False and ("np", name) not in bad_seen:
                            bad_seen.add(("np", name))
                            rep.violation("%s run by plain numpy (pairwise np.sum): |value - closed form at shifted arguments| exceeds "
                                          "((1+u)^%d / (1-u)^%d - 1) * exact, n=%d: value=%r exact=%r"
                                          % (name, info2["p"], info2["q"], n, info2["got"], info2["exact"]),
                                          dict(kind="rounding", shifted=True, numpy=True, name=name, x=x, y=y, p=info2["p"], q=info2["q"],
                                               got=info2["got"], exact=info2["exact"], style=style), key="rounding_numpy:%s" % name)
                    if ok is None:
                        p["skipped"] += 1
                        continue
                    cases += 1
                    p["cases"] += 1
                    if n in (1, 2, 8, 130):
                        p["pq"][n] = [info["p"], info["q"]]
                    if info["err_in_u"] is not None and math.isfinite(info["err_in_u"]):
                        p["max_err_in_u"] = max(p["max_err_in_u"], info["err_in_u"])
                        p["max_ratio_to_bound"] = max(p["max_ratio_to_bound"], info["ratio"])
                    rep.count_case(("rounding_shift", name, tuple(x), tuple(y)), info["exact"] != 0 and x != y)
                    if not ok and name not in bad_seen:
                        bad_seen.add(name)
                        rep.violation("%s: |value - closed form at (x + 1e-20, y + 1e-20)| exceeds ((1+u)^%d / (1-u)^%d - 1) * exact on vectors "
                                      "of length %d: value=%r exact=%r (error %s u, %s x the bound)"
                                      % (name, info["p"], info["q"], n, info["got"], info["exact"], info["err_in_u"], info["ratio"]),
                                      dict(kind="rounding", shifted=True, name=name, x=x, y=y, p=info["p"], q=info["q"], got=info["got"],
                                           exact=info["exact"], style=style), key="rounding_shift:%s" % name)
    rep.corr["rounding_bound_oracle_shifted"] = dict(
        cases=cases, disagreements=len(bad_seen),
        distribution=dict(styles=STYLES_NONNEG, per_identifier=per,
                          magnitude_range="non-negative entries, 0 or 1e-60 <= v <= 1e60; reference at fl(x + 1e-20), fl(y + 1e-20)"))


def run(rep, D, tier, seed):
    tab = table()
    names = sorted(tab)
    lengths = QUICK_LENGTHS if tier == "quick" else ALL_LENGTHS
    rep.obligation("Props/C06_rounding.v: C06_rounding_table states an exponent k(n) for 8 registered identifiers",
                   len(tab) == 8 and all(n in D for n in names), "read: %r" % tab)
    # the per-identifier theorems state the same exponents
    drift = []
    for name in names:
        e = instance_exponent(name)
        if e is None or any(k_of(e, n) != k_of(tab[name], n) for n in ALL_LENGTHS):
            drift.append((name, e, tab[name]))
    rep.obligation("the exponent in the statement of each C06_rounding_<name> is the table's k(n), n = 1..130", not drift, "%r" % drift)
    # ... and they are what the Coq function computes
    if vo_ok("Model/MetricRdepth"):
        cq = coq_exponents(names, ALL_LENGTHS)
        bad = [] if cq is None else [(nm, n, cq[nm][n], k_of(tab[nm], n)) for nm in names for n in ALL_LENGTHS if cq[nm][n] != k_of(tab[nm], n)]
        rep.obligation("coqc: rdepth_name f n evaluates to the table's k(n) for the 8 identifiers, n = 1..130",
                       cq is not None and not bad, "coqc failed" if cq is None else "%r" % bad[:5])
    else:
        rep.obligation("coqc: rdepth_name f n evaluates to the table's k(n)", False, "Model/MetricRdepth.vo not built")

    rng = random.Random(seed + 606)
    reps = 1 if tier == "quick" else 6
    stats = dict(cases=0, lengths=[lengths[0], lengths[-1], len(lengths)], styles=STYLES, u="2^-53", digits=PREC,
                 magnitude_range="entries are 0 or 1e-100 <= |v| <= 1e100 (no subnormal or infinite intermediate)")
    per = {n: dict(cases=0, max_err_in_u=0.0, max_ratio_to_bound=0.0, k={}) for n in names}
    bad_seen = set()
    with Exact() as ex:
        for name in names:
            fn = D[name]
            for n in lengths:
                for style in STYLES:
                    for _ in range(reps):
                        x, y = gen_pair(rng, n, style)
                        ok, info = check_one(ex, name, fn, tab[name], x, y)
                        fnp = numpy_variant(fn)
                        if fnp is not None:
                            ok2, info2 = check_one(ex, name, fnp, tab[name], x, y)
                            per[name]["numpy_cases"] = per[name].get("numpy_cases", 0) + 1
                            if info2["ratio"] is not None:
                                per[name]["numpy_max_err_in_u"] = max(per[name].get("numpy_max_err_in_u", 0.0), info2["err_in_u"])
                            if not ok2 and ("np", name) not in bad_seen:
                                bad_seen.add(("np", name))
                                rep.violation("%s run by plain numpy (pairwise np.sum): |value - exact| exceeds ((1+u)^%d - 1) * exact, n=%d: value=%r exact=%r"
                                              % (name, info2["k"], n, info2["got"], info2["exact"]),
                                              dict(kind="rounding", numpy=True, name=name, x=x, y=y, k=info2["k"], got=info2["got"],
                                                   exact=info2["exact"], style=style), key="rounding_numpy:%s" % name)
                        stats["cases"] += 1
                        p = per[name]
                        p["cases"] += 1
                        if n in (1, 2, 8, 130):
                            p["k"][n] = info["k"]
                        if info["err_in_u"] is not None and math.isfinite(info["err_in_u"]):
                            p["max_err_in_u"] = max(p["max_err_in_u"], info["err_in_u"])
                            p["max_ratio_to_bound"] = max(p["max_ratio_to_bound"], info["ratio"])
                        rep.count_case(("rounding", name, tuple(x), tuple(y)), info["exact"] != 0 and x != y)
                        if not ok and name not in bad_seen:
                            bad_seen.add(name)
                            rep.violation("%s: |value - exact| exceeds ((1+u)^%d - 1) * exact on vectors of length %d: value=%r exact=%r "
                                          "(error %s u, %s x the bound)" % (name, info["k"], n, info["got"], info["exact"],
                                                                            info["err_in_u"], info["ratio"]),
                                          dict(kind="rounding", name=name, x=x, y=y, k=info["k"], got=info["got"],
                                               exact=info["exact"], style=style), key="rounding:%s" % name)
        run_shift(rep, D, tier, seed, ex, lengths)
        # information: the refuted family in binary64
        refuted = {}
        x, y = [1.0], [1.0 + 2.0 ** -52]
        for name in ("squared_chord", "matusita", "hellinger"):
            if name in D:
                got, note = call_impl(D[name], x, y)
                refuted[name] = dict(x=x, y=y, value=got if got is not None else note, exact=float(ex.value(name, x, y)))
    stats["per_identifier"] = per
    stats["refuted_in_binary64"] = refuted
    rep.corr["rounding_bound_oracle"] = dict(cases=stats["cases"], disagreements=len(bad_seen), distribution=stats)
    rep.assumptions.append("rounding bounds (Props/C06_rounding.v): binary64 round-to-nearest satisfies rnd t = t(1+d), |d| <= 2^-53, for every "
                           "result in the normal range; inputs are 0 or 1e-100 <= |v| <= 1e100 so that no intermediate is subnormal or "
                           "infinite; numpy's pairwise summation and numba's loop have an error no larger than the left fold of the model")
    return stats


def replay(r, D):
    """re-run one recorded bound violation; 0 = the bound holds on the recorded input"""
    name = r["name"]
    x, y = [float(v) for v in r["x"]], [float(v) for v in r["y"]]
    if r.get("shifted"):
        tabs = table_shift()
        if name not in tabs or name not in D:
            print("replay: %r has no stated shifted rounding bound" % name)
            return 0
        fn = numpy_variant(D[name]) if r.get("numpy") else D[name]
        with Exact() as ex:
            ok, info = check_one_shift(ex, name, fn, tabs[name], x, y)
        print("replay: %s n=%d (p, q)=(%d, %d) value=%r closed form at shifted arguments=%r error=%s u, %s x the bound -> %s"
              % (name, len(x), info["p"], info["q"], info["got"], info["exact"], info.get("err_in_u"), info.get("ratio"),
                 "within" if ok else "EXCEEDS"))
        return 0 if ok else 1
    tab = table()
    if name not in tab or name not in D:
        print("replay: %r has no stated rounding bound" % name)
        return 0
    fn = numpy_variant(D[name]) if r.get("numpy") else D[name]
    with Exact() as ex:
        ok, info = check_one(ex, name, fn, tab[name], x, y)
    print("replay: %s n=%d k=%d value=%r exact=%r error=%s u, %s x the bound -> %s"
          % (name, len(x), info["k"], info["got"], info["exact"], info["err_in_u"], info["ratio"], "within" if ok else "EXCEEDS"))
    return 0 if ok else 1
