NOTES = ("Machine-checked proof in Coq 8.16.1. Each check: regenerate Gen/*.v from /repo, full incremental .vo build, "
         "Print Assumptions of every theorem in Props/<id>.v, correspondence of the hand-written executable model against "
         "the implementation on generated cases (exact, through an order-isomorphic integer encoding of floats), and an oracle "
         "evaluating the property on the implementation's own outputs to turn a broken obligation into a concrete replay. "
         "See DESIGN.md.")
NOT_APPLICABLE = {}
CHECKS = {
 "C05": dict(
   text="Theorems in Props/C05.v over the Gallina model of core/heap.py (Model/Heap.v), for every capacity, policy, cost order and valid history; "
        "the model is tied to heap.py by an exact correspondence on the full internal state after every operation.",
   design_ref="5/C05", technique="Coq proof: heap invariant by induction over histories + refinement to an abstract priority queue; model/impl correspondence",
   note="Trusted: Coq kernel+vm_compute; the hand-written model (validated, not proved, against heap.py by the correspondence); harness encoding. Costs non-NaN; indices < 2^53."),
}
