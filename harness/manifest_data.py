NOTES = ("Machine-checked proof in Coq 8.16.1. Each check: regenerate Gen/*.v from /repo, full incremental .vo build, "
         "Print Assumptions of every theorem in Props/<id>.v, correspondence of the hand-written executable model against "
         "the implementation on generated cases (exact, through an order-isomorphic integer encoding of floats), and an oracle "
         "evaluating the property on the implementation's own outputs to turn a broken obligation into a concrete replay. "
         "See DESIGN.md.")
NOT_APPLICABLE = {}

def _c(text, ref, technique, note):
    return dict(text=text, design_ref=ref, technique=technique, note=note)

_T = ("Trusted: Coq 8.16.1 kernel + vm_compute; the hand-written Gallina model, tied to the code by an exact correspondence run on every check "
      "(rank/IEEE order encoding of floats); harness/common.py. ")

CHECKS = {
 "C01": _c("Props/C01.v: for every n, label assignment, weight function (zero <= w < FLOAT_MAX) and non-empty prototype set, the modelled fit (heap-driven competition) "
           "yields costs equal to the minimum over all prototype-rooted paths of the largest arc (lower bound for every path + attainment), an acyclic predecessor forest with the "
           "link equation, root labels, and a conquest order that is a cost-sorted permutation; lifted from Z to every strict total order (Props/C01_anyorder.v) through a proved rank embedding. "
           "Props/C01_capstone.v composes it over R with the regenerated metric terms as weights (41 symmetric non-negative identifiers, hypotheses on the data only). "
           "Model tied to supervised.py by exact correspondence on cost/pred/labels/order (incl. int64/strided arrays, index maps with repeats, objects trained repeatedly, sparse rows under decorated metrics).",
           "5/C01", "Coq proof: Dijkstra-style loop invariant over the proved heap specification + path certificate lemma; model/impl correspondence",
           _T + "Weights finite, non-NaN, < FLOAT_MAX (sentinel)."),
 "C02": _c("Props/C02.v: the modelled _find_prototypes builds a spanning tree that is minimax-optimal against every path of the complete graph (order-only MST characterisation), "
           "of minimum total weight, unique under distinct weights; prototypes are exactly the class-crossing endpoints; every class gets one; order-only parts lifted to any strict total order (C02_anyorder.v). Tied by exact correspondence on keys/pred/status.",
           "5/C02", "Coq proof: Prim all-paths invariant, threshold-counting minimum-weight argument, uniqueness; model/impl correspondence", _T + "Symmetric weights < FLOAT_MAX."),
 "C03": _c("Props/C03.v: the cost-ordered scan with early exit returns the label of the first minimiser of max(cost, d) over ALL training samples, for every forest whose order is cost-sorted "
           "and every distance function; equal to the scan without early exit; lifted to any strict total order (C03_anyorder.v). Tied by exact correspondence on predictions (supervised and semi-supervised).",
           "5/C03", "Coq proof: scan loop invariant; model/impl correspondence", _T),
 "C05": _c("Props/C05.v over Model/Heap.v (statement-by-statement transcription of core/heap.py): invariant preserved by every valid op, remove returns an extremal queued element, "
           "histories refine an abstract priority queue, conservation of inserted elements, failed insert/remove leave the state unchanged, empty/full truthful; any capacity/policy/ties. "
           "Tied by exact correspondence on the full internal state after every operation (random, invalid and exhaustive-small histories).",
           "5/C05", "Coq proof: heap invariant by induction over histories + refinement to an abstract priority queue; model/impl correspondence",
           _T + "Costs non-NaN; Heap.dad's float division is proved exact for indices <= 2^53 (Props/C05_binary64.v)."),
 "C06": _c("Props/C06.v: for each of the 47 identifiers the term regenerated from distance.py evaluates over R to the published closed form (Spec/MetricSpec.v) for every vector length; "
           "registry keys = whitelist; constructor plumbing. Regenerated and re-proved on every run (translator tie).",
           "5/C06", "Coq proof over a fail-closed Python-ast -> Coq translation regenerated every run; translator validation against the real functions",
           "Trusted: Coq kernel; translator/py2coq.py (validated by eval_ir.py against the real functions on every run); real vs float: Props/C06_rounding.v and C06_rounding_shift.v bound 'up to rounding' explicitly (|fl - exact| <= ((1+u)^k(n) - 1) exact for every vector length n) for 8 plain and 19 decorated identifiers in the standard relative-error model (no underflow/overflow), refute such a bound for squared_chord/matusita/hellinger, and leave the log/exp and 1-ratio bodies unbounded; Props/C06_binary64.v proves (Flocq) that round-to-nearest-even binary64 without underflow is such a rounding with u = 2^-53 and bridges every PrimFloat operation to it; Props/C06_flt*.v: a PrimFloat evaluator of the regenerated terms (36 identifiers without log/exp) is compared bit for bit with DISTANCES on every run and proved to refine the rounded-real evaluator at binary64 rounding whenever every intermediate is finite; Props/C06_capstone_binary64.v composes the chain for the 8 undecorated identifiers: the binary64 value the library returns is within ((1+2^-53)^k(n) - 1) of the closed form (no side condition for manhattan, chebyshev, hamming; a stated no-underflow condition for the others, shown necessary)."),
 "C07": _c("Props/C07.v: the regenerated decorator program contains no in-place addition, hence (frame theorem over a store of array buffers) a decorated call leaves every caller buffer "
           "unchanged and its value depends only on argument contents; the regenerated store-site table of all code reachable from fit/predict has no caller-rooted store.",
           "5/C07", "Coq proof (frame theorem for effect programs) over regenerated decorator/store tables; dynamic byte-comparison and read-only streams as failing-input search",
           "Trusted: alias classification and mutating-method list of translator/stores.py; partial: thread/hash-seed nondeterminism not expressible."),
 "C08": _c("Props/C08.v (+C08_basic, C08_triangle): symmetry (42), asymmetry witnesses (5), non-negativity and zero self-distance (45 each) and the triangle inequality (13) of the closed forms "
           "over R on the domains of the fixed axiom table, for every vector length; tied to the code through C06's closed-form theorems; Props/C08_code.v states them on the regenerated code terms; "
           "Props/C08_float.v: for every odd rounding 41 of 42 symmetric identifiers are exactly symmetric under rounded evaluation, for every admissible rounding 31 (40 with rnd 1 = 1) have exactly zero self-distance and 31 are non-negative (sound syntactic analyses run on the regenerated terms by vm_compute).",
           "5/C08", "Coq proofs over Reals (Cauchy-Schwarz, Minkowski, log-sum, case factorisations) about closed forms linked to regenerated code terms",
           "Trusted: as C06. Float-level: Props/C08_robust.v proves, for every monotone sign-preserving rounding, that 44 of the 47 regenerated bodies never meet sqrt of a negative, log of a non-positive or a zero divisor (hassanat and mean_censored_euclidean on non-negative vectors by dedicated lemmas; jaccard not provable in that rounding model); overflow/underflow outside the model."),
 "C12": _c("Props/C12_pdf.v and Props/C12_arcs.v (k+1-slot scan = stable-sort prefix; arcs exact incl. ties, k > n-1, non-fresh subgraphs; per-rank maxima; density bound with fallback): density estimation over R: constant, pdf formula, min/max, affine order-preserving map onto [1, MAX_DENSITY], cost = density - 1, "
           "eliminate_maxima; the same Gallina terms run bit-exactly in PrimFloat against calculate_pdf; arc creation tied by exact correspondence. Props/C12_rounding.v: calculate_pdf under EVERY monotone sign-preserving rounding (min |-> exactly 1, densities >= 1, weakly order preserving, flat case exact; strictness and max |-> MAX_DENSITY shown to be limits of that model); Props/C12_binary64*.v: binary64 round-to-nearest is such a rounding (Flocq), and calculate_pdf run on primitive floats REFINES the rounded-real kernel with overflow excluded by proof, so the theorems reach the floats the library computes.",
           "5/C12", "Coq proof over one NumOps-generic definition (R theorems, PrimFloat bit-exact run); model/impl correspondence",
           _T + "exp values supplied by numpy as a table (no float exp in Coq)."),
 "C13": _c("Props/C13.v: for both clustering flavours (incl. the in-loop plateau insertion of the unsupervised routine) the predecessor map is a forest, every sample reaches exactly one root = its recorded root, "
           "cost/label/cluster-id equations, density gap, cluster ids 0..n_clusters-1 in removal order, label propagation. Tied by exact correspondence on the clustering step and by a PrimFloat "
           "end-to-end model of the final training stage compared bit-for-bit with fitted KNN-supervised/unsupervised objects; Props/C13_pipeline.v proves every clause for that whole stage over R (hypotheses on the distances only); lifted to any strict total order (C13_anyorder.v); Props/C13_rounding.v: the same stage with a rounding after every arithmetic operation, for every monotone sign-preserving rounding: same arcs as the exact run, every C13 clause verbatim, density range weakened to [1, 7994].", "5/C13", "Coq model + correspondence; forest invariant proof over the max-heap specification", _T),
 "C14": _c("Props/C14_density.v: query density formula over R with the stored constants; KNN predict model (scan + density + arg-max) run in PrimFloat against both predicts, one case per "
           "(model, query, batch position). Props/C14_pipeline.v: the rule on the fitted graph over R in terms of the data (k nearest of ALL samples by (distance, index), first arg-max of min(cost, density)); Props/C14_link.v: the term of the theorems is the term the harness runs at PrimFloat; Props/C14_rounding.v: the query density under every monotone sign-preserving rounding (weakly monotone, min |-> 1, relation to the training map).", "5/C14", "Coq proof (R) + PrimFloat correspondence; exhaustive k-nearest oracle", _T),
 "C15": _c("Props/C15.v: C01's theorems for the semi-supervised competition over labeled+unlabeled nodes, labeled nodes keep their labels, unlabeled get the root prototype's label, and "
           "semi_fit with an empty unlabeled set EQUALS sup_fit (record equality); any strict total order (C15_anyorder.v); over R with metric terms as weights (C15_capstone.v).", "5/C15", "Coq proof (shared with C01) + simulation; model/impl correspondence", _T),
 "C16": _c("k-selection folds (knn_select, cut_select) tied by correspondence to _learn/_best_minimum_cut with criterion values captured by wrapping opf_accuracy/_normalized_cut; "
           "Props/C16.v: smallest index attaining the maximum accuracy (all-zero => 1) / the minimum cut among the evaluated prefix (stop after an exact 0). "
           "Props/C16_fit.v over Model/KnnLearn.v: the COMPLETE fit() of both KNN classifiers (k-search, accuracy incl. numpy's pairwise sum, normalised cut, final stage) as one term: selection over the criteria the model itself computes, final graph = final stage at best_k; "
           "the same term runs at PrimFloat bit-for-bit against the real fit(). Every fitted object is also compared with a fresh build for best_k (found F12).", "5/C16", "Coq fold theorems + whole-fit model with bit-exact PrimFloat correspondence", _T),
 "C17": _c("Props/C17.v: learn conserves the (row,label) multiset and sizes for any draws and keeps the first best iteration; relevance flags = root paths of conquerors (= C03 winners); prune yields a sublist. "
           "Tied by correspondence with recorded random draws, per-iteration accuracies/errors and the kept snapshot; multiset oracles on the real arrays. "
           "Props/C17_full.v over Model/LearnFull.v: learn/prune as closed loops calling the models of fit, predict and opf_accuracy (only the random draws are input), refinement to Model/Learn, kept classifier = sup_fit on the snapshot = an optimum-path forest (C01), prune sublist + retained = relevant.",
           "5/C17", "Coq model + closed-loop correspondence with recorded draws only; multiset oracles", _T),

 "C04": _c("Props/C04_knn.v: KNN-supervised final clustering (forced prototypes) assigns every training sample its own label for any data and ties (cross-label offers are never accepted); "
           "Props/C04.v: tie-free supervised training gives every sample its own label and predicting a training row returns its label, derived from C01+C02+C03. "
           "Checked on the implementation for every eligible metric of the axiom table.", "5/C04", "Coq proof combining the Prim, Dijkstra and scan theorems; model/impl correspondence", _T),
 "C09": _c("Props/C09_sup.v: predict_batch = map predict_one and only the relevance flags of the model change; Props/C09_knn.v: the KNN batch with its threaded scratch array "
           "equals the pointwise map. All four predicts tied by correspondence on batches with duplicates/permutations; whole-model snapshot around every predict call; C09_pipeline.v: any strict total order and the fitted graphs over R.", "5/C09", "Coq proof (induction over the batch); model/impl correspondence on batches", _T),
 "C10": _c("Every algorithm of the model takes its weights as a function argument; Props/C10_logic.v: pointwise-equal weight functions give equal outputs and the indexed matrix read equals "
           "the direct metric call when the index arrays identify the rows; Props/C10_glue.v: nodes built from split_with_index outputs satisfy that hypothesis, min-max normalisation lands in [0,1]. End-to-end: models through a distance file written by pre_compute_distance (.txt/.csv, index arrays) compared "
           "bit-for-bit with the direct models; get_distances checked.", "5/C10", "Coq proof (weight extensionality / parametricity) + end-to-end file correspondence",
           _T + "Partial: np.savetxt/np.loadtxt round trip of float64 is validated on every matrix entry, not proved."),
 "C11": _c("Props/C11_rescale.v: a strictly increasing map of the weights leaves prototypes, predecessors, labels, order and predictions unchanged and maps costs; Props/C11_perm.v: "
           "permutation invariance on tie-free data from MST uniqueness + minimax costs + zero resubstitution error; Props/C11_family.v: the five Euclidean-family closed forms are strictly increasing "
           "transforms of the squared Euclidean one. Checked on (instance, permuted instance) pairs and on the five identifiers.", "5/C11",
           "Coq proof (parametricity free theorem / uniqueness arguments) + paired-run correspondence", _T),
 "C19": _c("Props/C19.v: with pickle as an injective encoding (Section hypothesis), load(fresh, save(m)) has exactly m's attribute map whenever fresh's attributes exist in m, save leaves m unchanged, "
           "and predict is a function of the attribute map; regenerated facts: save/load have the modelled shape, constructors create the base attributes, no attribute is ever deleted. "
           "Correspondence: state abstraction and predictions of original / original-after-save / loaded compared field by field.", "5/C19",
           "Coq proof over a dict-update model conditional on the pickle round trip; regenerated shape facts; save/load correspondence",
           "Trusted: pickle round trip (exercised every run, hypothesis of the theorems); translator/attrs.py."),

 "C18": _c("Props/C18.v: split is a partition with own label and row index (sizes h / n-h, index outputs = firstn/skipn of the permutation), merge(split) is a permutation of the input, "
           "parse accepts iff labels are sequential (labels >= 0) and returns the right columns, decode(encode) of the LibOPF word layout, the three converters hand identical rows to their writers, "
           "convert->parse round trip. End-to-end correspondence over converter, loader, parser, Subgraph(from_file) (float32 by bit pattern) and splitter (permutation re-seeded, halt in binary64).",
           "5/C18", "Coq proof (permutation/partition, pigeonhole, layout round trip) + end-to-end correspondence",
           _T + "Partial: np.random.permutation being a seed-determined permutation, struct decoding, float32 text/JSON round trip, savetxt/loadtxt are exercised exactly but outside the theorems. Domain: >= 2 samples."),
 "C20": _c("Props/C20.v over Model/Measures.v (transcription of math/general.py over exact rationals): confusion counts and total, accuracy formula / bounds / =1 iff all correct, per-label = recall, "
           "purity bounds / =1 iff groups pure; normalize over R with mean 0 and sum of squares n. Correspondence: exhaustive small vectors + random streams, counts exact, rationals within 1e-12, "
           "normalize under PrimFloat. Props/C20_rounding.v / C20_binary64.v: opf_accuracy as the float code evaluates it (numpy pairwise sum included) under any relative-error rounding: |A_fl - A| <= (1+u)^(K+4) - 1, = 1 exactly iff all predictions are correct (for 2KN+K+3 < 1/u), within [0,1] at binary64.", "5/C20", "Coq proof over Q / R + exhaustive-small and random correspondence",
           _T + "0/0 -> nansum modelled as x/0 = 0 with x/0, x > 0 proved impossible on the domain; float rounding outside the theorems."),
}
