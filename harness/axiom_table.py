"""The axiom table of C08 (fixed in /verif): which metric claims which axiom, on which domain.

domain: 'real'   all real vectors (equal length >= 1)
        'nonneg' entries >= 0
        'pos'    entries > 0 (what a non-negative user vector becomes after the decorator's +EPSILON shift)
        'prob'   entries > 0 and both vectors have the same sum (probability vectors; bhattacharyya: sum exactly 1)
Mirrored by the theorem names in coq/theories/Props/C08.v: C08_sym_<name>, C08_nonneg_<name>, C08_zero_self_<name>, C08_triangle_<name>.
"""
NOT_SYMMETRIC = {"k_divergence", "kullback_leibler", "neyman", "pearson", "statistic"}
NOT_DISSIMILARITY = {"gaussian", "statistic"}   # gaussian is a similarity (1 at identity); statistic is signed
TRIANGLE = {"euclidean", "manhattan", "chebyshev", "average_euclidean", "gower", "non_intersection", "hamming",
            "lorentzian", "log_euclidean", "hellinger", "matusita", "canberra", "soergel"}
DOMAIN = {
    "real": ["squared_euclidean", "euclidean", "average_euclidean", "manhattan", "chebyshev", "gower", "non_intersection",
             "hamming", "log_euclidean", "log_squared_euclidean", "gaussian", "lorentzian", "hassanat"],
    # mean_censored_euclidean divides by the number of coordinates with x_i + y_i != 0: on sign-mixed vectors that
    # count can be 0 (x = -y), so its domain is the non-negative vectors (after the EPSILON shift every sum is > 0)
    "nonneg": ["hellinger", "matusita", "squared_chord", "mean_censored_euclidean"],
    "prob": ["bhattacharyya", "kullback_leibler", "k_divergence"],
}
ALL = ["additive_symmetric", "average_euclidean", "bhattacharyya", "bray_curtis", "canberra", "chebyshev", "chi_squared",
       "chord", "clark", "cosine", "dice", "divergence", "euclidean", "gaussian", "gower", "hamming", "hassanat", "hellinger",
       "jaccard", "jeffreys", "jensen", "jensen_shannon", "k_divergence", "kulczynski", "kullback_leibler", "log_euclidean",
       "log_squared_euclidean", "lorentzian", "manhattan", "matusita", "max_symmetric", "mean_censored_euclidean",
       "min_symmetric", "neyman", "non_intersection", "pearson", "sangvi", "soergel", "squared", "squared_chord",
       "squared_euclidean", "statistic", "topsoe", "vicis_symmetric1", "vicis_symmetric2", "vicis_symmetric3", "vicis_wave_hedges"]


def domain(name):
    for d, ns in DOMAIN.items():
        if name in ns:
            return d
    return "pos"


def claims(name):
    c = ["finite"]
    if name not in NOT_SYMMETRIC:
        c.append("sym")
    if name not in NOT_DISSIMILARITY:
        c += ["nonneg", "zero_self"]
    if name in TRIANGLE:
        c.append("triangle")
    return c
