"""C17, closed loop: SupervisedOPF.learn / prune against Model/LearnFull.v.

The model calls its own fit / predict / opf_accuracy; the only thing recorded from the real run and handed to the
model is the stream of random draws.  Rows are ids into a universe of points whose pairwise distances (in the
argument order of the code) are rank-encoded exactly as in the supervised correspondence (supcommon)."""
import itertools
import random
import types
from fractions import Fraction

from supcommon import *  # noqa

MODEL_FILES = ["Model/LearnFull", "Model/LearnFullFloat", "Model/RunLearnFull", "Proofs/LearnFull", "Proofs/LearnFullOpf", "Proofs/LearnFullExample"]

LEARN_METRICS = ["euclidean", "squared_euclidean", "manhattan", "log_squared_euclidean", "chebyshev", "canberra",
                 "log_euclidean", "bray_curtis"]
POSITIVE = {"canberra", "bray_curtis"}


# ----------------------------------------------------------------------------------------
# cases

class Case:
    """universe of N points (feature rows U, or only a matrix), D[a][b] = d(point a, point b);
    the four caller arrays as ids / labels"""

    def __init__(self, kind, metric, U, D, Xt, Yt, Xv, Yv, n_iter, np_seed):
        self.kind, self.metric, self.U, self.D = kind, metric, U, D
        self.Xt, self.Yt, self.Xv, self.Yv = list(Xt), list(Yt), list(Xv), list(Yv)
        self.n_iter, self.np_seed = n_iter, np_seed
        self.N = len(D)
        self.draws = None
        self.strided = False

    def desc(self):
        return dict(kind=self.kind, metric=self.metric, n_iterations=self.n_iter, np_seed=self.np_seed, strided=self.strided,
                    universe_rows=self.U, D=None if self.U is not None else self.D,
                    X_train_ids=self.Xt, Y_train=self.Yt, X_val_ids=self.Xv, Y_val=self.Yv, draws=self.draws,
                    note="feature universe: row of id i is universe_rows[i]; matrix universe: the feature row of id i "
                         "is [i] and distance_fn(x, y) = D[int(x[0])][int(y[0])]")

    def key(self):
        return (self.kind, self.metric, tuple(map(tuple, self.D)), tuple(self.Xt), tuple(self.Yt), tuple(self.Xv),
                tuple(self.Yv), self.n_iter, self.np_seed)

    def arrays(self):
        if self.U is not None and self.strided:
            # the caller's matrices as column-strided views of wider buffers (rows handed to the metric are strided too)
            def rows(ids):
                wide = np.full((len(ids), 2 * len(self.U[0])), 7.5)
                wide[:, ::2] = np.array([self.U[i] for i in ids], dtype=float)
                return wide[:, ::2]
        elif self.U is not None:
            rows = lambda ids: np.array([self.U[i] for i in ids], dtype=float)
        else:
            rows = lambda ids: np.array([[float(i)] for i in ids], dtype=float)
        return rows(self.Xt), np.array(self.Yt), rows(self.Xv), np.array(self.Yv)

    def ids_of(self, A):
        if self.U is None:
            return [int(x[0]) for x in A]
        if not hasattr(self, "_idmap"):
            self._idmap = {tuple(map(float, r)): i for i, r in enumerate(self.U)}
        return [self._idmap.get(tuple(map(float, x)), -1) for x in A]

    def model(self):
        from opfython.models.supervised import SupervisedOPF
        if self.U is not None:
            return SupervisedOPF(distance=self.metric)
        opf = SupervisedOPF()
        Dm = self.D

        def lookup(x, y):
            return Dm[int(x[0])][int(y[0])]
        opf.distance_fn = lookup
        return opf


def labels_k(rng, cnt, k, base=0):
    k = min(k, cnt)
    while True:
        l = [base + rng.randrange(k) for _ in range(cnt)]
        if len(set(l)) == k:
            return l


def case_from_points(kind, metric, X, D, n, Yt, Yv, n_iter, np_seed):
    """points 0..n-1 training, n.. validation; X feature rows (identical rows share one id) or None"""
    N = len(D)
    if X is None:
        return Case(kind, None, None, [list(map(float, r)) for r in D], range(n), Yt, range(n, N), Yv, n_iter, np_seed)
    idmap, rep = {}, []
    ids = []
    for a, x in enumerate(X):
        t = tuple(map(float, x))
        if t not in idmap:
            idmap[t] = len(rep); rep.append(a)
        ids.append(idmap[t])
    U = [list(map(float, X[a])) for a in rep]
    DU = [[float(D[a][b]) for b in rep] for a in rep]
    return Case(kind, metric, U, DU, ids[:n], Yt, ids[n:], Yv, n_iter, np_seed)


def val_labels(rng, D, n, m, Yt, mode):
    """validation labels: the label of the nearest training point, flipped with some probability, so that both
    correct and wrong predictions occur"""
    flip = dict(clean=0.1, noisy=0.45)[mode]
    classes = sorted(set(Yt))
    out = []
    for v in range(n, n + m):
        near = min(range(n), key=lambda t: (D[t][v], t))
        out.append(rng.choice(classes) if rng.random() < flip else Yt[near])
    return out


def gen_case(rng, i, tier, for_prune=False):
    stream = rng.choice(["blob", "blob", "gen", "gen", "grid", "tiefree", "mat"] + (["grid"] * 5 if for_prune else []))
    big = tier != "quick"
    n_iter = rng.randint(1, 3) if for_prune else rng.randint(1, 5)
    m = rng.randint(2, 8)
    k = rng.randint(2, 3)
    base = 1 if rng.random() < 0.15 else 0        # one-based labels: class 0 is empty in every count vector
    if stream == "blob":
        metric = rng.choice(LEARN_METRICS)
        n, dim = rng.randint(4, 12 if big else 9), rng.randint(1, 3)
        Yt, Yv = labels_k(rng, n, k, base), labels_k(rng, m, k, base)
        lo = 1.0 if metric in POSITIVE else 0.0
        centers = {c: [lo + rng.random() * 10 for _ in range(dim)] for c in set(Yt) | set(Yv)}
        noise = rng.choice([0.5, 3.0, 8.0])

        def pt(y):
            return [abs(c + rng.gauss(0, noise)) + lo if metric in POSITIVE else c + rng.gauss(0, noise) for c in centers[y]]
        X = [pt(y) for y in Yt] + [pt(y) for y in Yv]
        D = metric_matrix(metric, X)
        if any(v != v for r in D for v in r):
            return None
        return case_from_points("blob", metric, X, D, n, Yt, Yv, n_iter, i)
    if stream == "grid":
        gw, gh = rng.randint(2, 4), rng.randint(2, 4)
        cells = [[float(x), float(y)] for x in range(gw) for y in range(gh) if rng.random() < 0.7]
        rng.shuffle(cells)
        cut, three = rng.uniform(0.5, gw + gh - 2.5), rng.random() < 0.4

        def side(c_):
            v = c_[0] + c_[1]
            return base + (0 if v <= cut else (1 if (not three or v <= cut + 1.5) else 2))
        Yt = [side(c_) for c_ in cells]
        if len(cells) < 4 or len(set(Yt)) < 2:
            return None
        V = [[float(rng.randint(-1, gw)), float(rng.randint(-1, gh))] for _ in range(m)]
        Yv = [side(v) if rng.random() < 0.8 else rng.choice(Yt) for v in V]
        metric = rng.choice(["euclidean", "manhattan", "squared_euclidean", "chebyshev", "log_squared_euclidean"])
        X = cells + V
        return case_from_points("grid", metric, X, metric_matrix(metric, X), len(cells), Yt, Yv, n_iter, i)
    if stream == "tiefree":
        it = gen_instance(rng, nmax=9, m=m, tie_free=True)
    elif stream == "mat":
        it = gen_instance(rng, nmax=9, m=m, kinds=("mat",))
    else:
        it = gen_instance(rng, nmax=10 if big else 9, m=m)
    n = it.n
    if n < 2:
        return None
    X, D = it.X, it.D
    if it.X is not None and it.Xarr is not None:
        D = metric_matrix(it.metric, X)          # the runs below hand plain float64 rows to the library
        if any(v != v for r in D for v in r):
            return None
    Yt = labels_k(rng, n, k, base)
    Yv = val_labels(rng, D, n, m, Yt, rng.choice(["clean", "noisy"]))
    kind = it.kind.split("/")[0] + ("/tiefree" if stream == "tiefree" else "")
    return case_from_points(kind, it.metric, X, D, n, Yt, Yv, n_iter, i)


# ----------------------------------------------------------------------------------------
# running the implementation

def run_learn_impl(case):
    """SupervisedOPF.learn on fresh arrays.  Recorded for the model: the draws.  Observed for the comparison only:
    the float accuracies (g.opf_accuracy still returns its own value) and the iteration of every deepcopy(self)."""
    import opfython.math.general as g
    import opfython.math.random as r
    import opfython.models.supervised as sup_mod
    opf = case.model()
    Xt, Yt, Xv, Yv = case.arrays()
    draws, accs, best_calls = [], [], []
    orig_acc, orig_rand, orig_copy = g.opf_accuracy, r.generate_uniform_random_number, sup_mod.copy

    def wacc(labels, preds):
        v = orig_acc(labels, preds)
        accs.append(float(v))
        return v

    def wrand(*a, **k):
        v = orig_rand(*a, **k)
        draws.append(int(v[0]))
        return v

    def wdeepcopy(x, *a, **k):
        if x is opf:
            best_calls.append(len(accs) - 1)
        return orig_copy.deepcopy(x, *a, **k)
    np.random.seed(case.np_seed)
    g.opf_accuracy, r.generate_uniform_random_number = wacc, wrand
    def wcopy(x, *a, **k):
        if x is opf:
            best_calls.append(len(accs) - 1)
        return orig_copy.copy(x, *a, **k)
    sup_mod.copy = types.SimpleNamespace(deepcopy=wdeepcopy, copy=wcopy)
    err = None
    try:
        opf.learn(Xt, Yt, Xv, Yv, n_iterations=case.n_iter)
    except Exception as ex:  # noqa
        err = ex
    finally:
        g.opf_accuracy, r.generate_uniform_random_number, sup_mod.copy = orig_acc, orig_rand, orig_copy
    case.draws = draws
    return dict(err=err, opf=opf, arrays=(Xt, Yt, Xv, Yv), accs=accs, best_calls=best_calls)


def run_prune_impl(case):
    import opfython.math.general as g
    opf = case.model()
    Xt, Yt, Xv, Yv = case.arrays()
    accs = []
    orig_acc = g.opf_accuracy

    def wacc(labels, preds):
        v = orig_acc(labels, preds)
        accs.append(float(v))
        return v
    g.opf_accuracy = wacc
    err = None
    if getattr(case, "preused", False):
        # the object has been used before, on the very training set it is now asked to prune (fit, then a prediction pass
        # over the training rows themselves, which flags every sample relevant): prune must start from its own fit
        try:
            opf.fit(Xt.copy(), Yt.copy())
            opf.predict(Xt.copy())
        except Exception:  # noqa
            pass
    try:
        opf.prune(Xt, Yt, Xv, Yv, n_iterations=case.n_iter)
    except Exception as ex:  # noqa
        err = ex
    finally:
        g.opf_accuracy = orig_acc
    return dict(err=err, opf=opf, accs=accs)


def ranker_of(case):
    return Ranker([0.0, FLOAT_MAX] + [v for r in case.D for v in r])


def wflat_of(case, rk):
    return [rk.r(case.D[a][b]) for a in range(case.N) for b in range(case.N)]


def forest_rows(case, rk, opf):
    """rows 5-13 of run_learn_full / 1-9 of run_prune_full from the object"""
    sg = opf.subgraph
    st = node_state(sg)
    try:
        cost = [rk.r(c) for c in st["cost"]]
    except KeyError as ex:      # a cost that is none of the distances / sentinels
        cost = ["cost outside the weight set", repr(ex)]
    return [case.ids_of([nd.features for nd in sg.nodes]), st["label"], cost, st["pred"], st["plabel"], st["label"],
            [1 if s == 1 else 0 for s in st["status"]], [1 if x != 0 else 0 for x in st["relevant"]], st["order"]]


def term_learn(case, rk):
    return "run_learn_full %d %d %d %s %d %s %s %s %s %s" % (
        rk.r(0.0), rk.r(FLOAT_MAX), case.N, zlist(wflat_of(case, rk)), case.n_iter,
        zlist(case.Xt), zlist(case.Yt), zlist(case.Xv), zlist(case.Yv), zlist(case.draws))


def term_prune(case, rk):
    return "run_prune_full %d %d %d %s %d %s %s %s %s" % (
        rk.r(0.0), rk.r(FLOAT_MAX), case.N, zlist(wflat_of(case, rk)), case.n_iter,
        zlist(case.Xt), zlist(case.Yt), zlist(case.Xv), zlist(case.Yv))


# ----------------------------------------------------------------------------------------
# binary64 versus exact accuracies

def float_decisions(accs):
    """the decisions learn takes on the binary64 accuracies: (update-best flags, stop flags)"""
    upd, small, mx, prev = [], [], 0, 0
    for t, a in enumerate(accs):
        u = (t == 0) or (a > mx)
        if u:
            mx = a
        upd.append(u)
        small.append(bool(np.fabs(a - prev) < 0.0001))
        prev = a
    return upd, small


def exact_decisions(qs):
    upd, small, mx, prev = [], [], Fraction(0), Fraction(0)
    thr = Fraction(0.0001)        # the binary64 literal, exactly
    for t, a in enumerate(qs):
        u = (t == 0) or (a > mx)
        if u:
            mx = a
        upd.append(u)
        small.append(abs(a - prev) < thr)
        prev = a
    return upd, small


def scope_float_vs_exact(kmax=3, nmax=8):
    """Every confusion matrix with at most nmax validation rows and labels in 0..kmax-1 (top class present): the real
    opf_accuracy in binary64 against the exact rational.  Returns dict(inputs=[(labels, preds, double)], values=number of
    distinct rationals, split=[rationals computed as several doubles], problems=[...]) where a problem is: rational order
    not preserved by the doubles, a double further than 1e-15 from its rational, or two accuracies of one validation size whose gap is within 1e-12 of the stop threshold 0.0001."""
    import opfython.math.general as g
    by_q, by_n = {}, {}
    inputs = []
    for K in range(1, kmax + 1):
        cells = [(a, b) for a in range(K) for b in range(K)]
        for N in range(1, nmax + 1):
            for comp in itertools.combinations(range(N + len(cells) - 1), len(cells) - 1):
                parts, prev = [], -1
                for c_ in comp + (N + len(cells) - 1,):
                    parts.append(c_ - prev - 1); prev = c_
                if sum(parts[(K - 1) * K:]) == 0:
                    continue        # the top class must occur among the labels (K = max + 1)
                labels, preds = [], []
                for (a, b), cnt in zip(cells, parts):
                    labels += [a] * cnt; preds += [b] * cnt
                f = float(g.opf_accuracy(np.array(labels), preds))
                q = exact_accuracy(labels, preds)
                by_q.setdefault(q, set()).add(f)
                by_n.setdefault(N, set()).add(q)
                inputs.append((labels, preds, f))
    problems, split = [], []
    qs = sorted(by_q)
    for q in qs:
        if len(by_q[q]) > 1:
            split.append("%s as %r" % (q, sorted(by_q[q])))
        for f in by_q[q]:
            if abs(Fraction(f) - q) > Fraction(1, 10 ** 15):
                problems.append("double %r is not within 1e-15 of the rational %s" % (f, q))
    for a, b in zip(qs, qs[1:]):
        if not max(by_q[a]) < min(by_q[b]):
            problems.append("rationals %s < %s but doubles %r, %r" % (a, b, sorted(by_q[a]), sorted(by_q[b])))
    # the stop test |acc - prev| < 0.0001 compares two outcomes of the SAME validation set size: it is decided alike in
    # binary64 and exactly unless the exact gap is within 1e-12 of the threshold
    thr = Fraction(0.0001)
    min_gap = None
    for N in sorted(by_n):
        vals = sorted(by_n[N])
        for i_, a in enumerate(vals):
            for b in vals[i_ + 1:]:
                gap = b - a
                if min_gap is None or gap < min_gap[0]:
                    min_gap = (gap, N, a, b)
                if abs(gap - thr) < Fraction(1, 10 ** 12):
                    problems.append("%d validation rows: accuracies %s and %s differ by %s, within 1e-12 of the stop threshold" % (N, a, b, gap))
    return dict(inputs=inputs, values=len(qs), split=split, problems=problems,
                min_gap=None if min_gap is None else dict(gap=str(min_gap[0]), gap_float=float(min_gap[0]), rows=min_gap[1],
                                                           between=[str(min_gap[2]), str(min_gap[3])]))


def random_label_vectors(rng, count):
    """label / prediction vectors with many classes (numpy's np.sum switches to 8 running sums from 8 classes on and to a
    recursive split above 128), some classes empty"""
    out = []
    for i in range(count):
        K = rng.choice([2, 3, 5, 7, 8, 9, 12, 16, 17, 24, 40]) if i % 10 else rng.choice([127, 128, 129, 150, 260])
        n = rng.randint(K, 3 * K)
        labels = [rng.randrange(K) for _ in range(n - 1)] + [K - 1]
        preds = [l if rng.random() < 0.5 else rng.randrange(K) for l in labels]
        out.append((labels, preds))
    return out


def exact_accuracy(labels, preds):
    """opf_accuracy over the rationals (nansum convention: a 0/0 term counts 0)"""
    K = max(labels) + 1
    e0, e1, counts = [0] * K, [0] * K, [0] * K
    for l in labels:
        counts[l] += 1
    for l, p in zip(labels, preds):
        if l != p:
            e0[p] += 1; e1[l] += 1
    N = len(labels)
    s = Fraction(0)
    for c_ in range(K):
        if counts[c_]:
            s += Fraction(e1[c_], counts[c_])
        if N - counts[c_]:
            s += Fraction(e0[c_], N - counts[c_])
    return 1 - s / (2 * K)


# ----------------------------------------------------------------------------------------
# the check

FINDING_FLOAT_TIE = os.path.join(VERIF, "findings", "C17_learnfull_float_tie.json")


def case_from_desc(d):
    c = _case_from_desc(d)
    if d.get("strided"):
        make_strided(c)
    return c


def make_strided(case):
    """hand the library column-strided views; the distances are recomputed on exactly such row views"""
    if case.U is None:
        return case
    wide = np.full((len(case.U), 2 * len(case.U[0])), 7.5)
    wide[:, ::2] = np.array(case.U, dtype=float)
    D = metric_matrix(case.metric, case.U, wide[:, ::2])
    if any(v != v for r in D for v in r):
        return case
    case.D, case.strided = D, True
    case.kind += "/strided"
    return case


def _case_from_desc(d):
    return Case(d["kind"], d["metric"], d["universe_rows"], d["D"] if d["universe_rows"] is None else
                metric_matrix(d["metric"], d["universe_rows"]), d["X_train_ids"], d["Y_train"], d["X_val_ids"], d["Y_val"],
                d["n_iterations"], d["np_seed"])


def gen_tie_case(rng, i):
    """noisy blobs, many iterations: the stream in which equal exact accuracies one ulp apart in binary64 were found"""
    k = rng.choice([2, 3, 3]); m = rng.randint(5, 8); n = rng.randint(5, 10); dim = rng.randint(1, 2)
    metric = rng.choice(["euclidean", "manhattan"])
    Yt, Yv = labels_k(rng, n, k), labels_k(rng, m, k)
    centers = {c: [rng.random() * 10 for _ in range(dim)] for c in range(k)}
    noise = rng.choice([3.0, 8.0, 20.0])
    X = [[c + rng.gauss(0, noise) for c in centers[y]] for y in Yt + Yv]
    return case_from_points("blob/noisy", metric, X, metric_matrix(metric, X), n, Yt, Yv, rng.randint(4, 10), i)


def check(rep, tier, seed):
    """returns the number of violations reported"""
    rng = random.Random(seed + 1717)
    nviol = 0
    requires = ("Model.Run", "Model.RunSup", "Model.RunLearnFull")

    def viol(what, case, key):
        nonlocal nviol
        nviol += 1
        if nviol <= 6:
            rep.violation(what, case.desc() if case is not None else None, key=key)

    # ---------------- learn ----------------
    NL = 170 if tier == "quick" else 5000
    cases, runs, qterms, fterms = [], [], [], []
    stats = dict(runs=0, iterations=0, draws=0, runs_with_exchange=0, raised_index_error=0, kinds={}, metrics={},
                 tied_universe=0, classes={}, best_not_first=0, stopped_by_delta=0)

    def add_case(case):
        out = run_learn_impl(case)
        if out["err"] is not None and not isinstance(out["err"], IndexError):
            viol("SupervisedOPF.learn raised %r" % (out["err"],), case, "learnfull:raises:" + type(out["err"]).__name__)
            return
        rk = ranker_of(case)
        cases.append(case); runs.append(out)
        qterms.append(term_learn(case, rk)); fterms.append(term_learn(case, rk).replace("run_learn_full ", "run_learn_full_f ", 1))
        stats["kinds"][case.kind] = stats["kinds"].get(case.kind, 0) + 1
        stats["metrics"][str(case.metric)] = stats["metrics"].get(str(case.metric), 0) + 1
        offd = [case.D[a][b] for a in range(case.N) for b in range(a + 1, case.N)]
        stats["tied_universe"] += 1 if len(set(offd)) < len(offd) else 0
        kk = len(set(case.Yt)); stats["classes"][kk] = stats["classes"].get(kk, 0) + 1
        rep.count_case(("learnfull",) + case.key(), True)

    # the recorded input on which binary64 and exact accuracies decide differently (always replayed)
    try:
        add_case(case_from_desc(json.load(open(FINDING_FLOAT_TIE))["desc"]))
    except Exception as ex:  # noqa
        rep.obligation("replay of findings/C17_learnfull_float_tie.json", False, repr(ex))
    i = 0
    while len(cases) < NL and i < 20 * NL:
        i += 1
        case = gen_tie_case(rng, i) if i % 4 == 0 else gen_case(rng, i, tier)
        if case is not None:
            if i % 3 == 2:
                make_strided(case)
            add_case(case)
    nameq = ("correspondence Model/LearnFull.learn_full at QAcc (fit, predict, EXACT accuracy computed inside; only the random "
             "draws recorded) vs SupervisedOPF.learn, on every run whose binary64 comparisons decide like the exact ones: "
             "iterations, best iteration, four arrays, kept training set and its forest")
    namef = ("correspondence Model/LearnFull.learn_full at FAcc (accuracy and its comparisons in binary64, Model/LearnFullFloat.v) "
             "vs SupervisedOPF.learn on EVERY run: as above plus every accuracy bit for bit")
    fdis = dict(compared_accuracies=0, runs_deciding_differently=0, runs_with_equal_rationals_as_different_doubles=0,
                accuracy_far_from_rational=0, examples=[])
    badq, badf = [], []
    lcases, lruns = cases, runs
    # ---------------- prune ----------------
    NP = 210 if tier == "quick" else 5000
    cases, runs, terms = [], [], []   # prune cases
    pstats = dict(runs=0, raised=0, pruned_something=0, rows_before=0, rows_after=0, kinds={}, mislabelled_kept=0)
    i = 0
    while len(cases) < NP and i < 20 * NP:
        i += 1
        case = gen_case(rng, i, tier, for_prune=True)
        if case is not None:
            case.preused = (i % 3 == 1)
        if case is None:
            continue
        if i % 5 == 2:
            make_strided(case)
        out = run_prune_impl(case)
        if out["err"] is not None and not isinstance(out["err"], IndexError):
            viol("SupervisedOPF.prune raised %r" % (out["err"],), case, "prunefull:raises:" + type(out["err"]).__name__)
            continue
        cases.append(case); runs.append(out); terms.append(term_prune(case, ranker_of(case)))
        pstats["kinds"][case.kind] = pstats["kinds"].get(case.kind, 0) + 1
        rep.count_case(("prunefull",) + case.key(), True)
    # one batch of coqc runs for the three model entry points
    try:
        allgot = run_cases("C17learnfull", qterms + fterms + terms, requires=requires, typ="list (list Z)", chunk=48)
        gotq, gotf, got = allgot[:len(qterms)], allgot[len(qterms):len(qterms) + len(fterms)], allgot[len(qterms) + len(fterms):]
    except RuntimeError as ex:
        rep.obligation(nameq, False, str(ex))
        gotq = gotf = got = None
    pcases, pruns = cases, runs
    if gotq is not None:
        for ci, (case, out, gq, gf) in enumerate(zip(lcases, lruns, gotq, gotf)):
            rk = ranker_of(case)
            if out["err"] is not None:
                stats["raised_index_error"] += 1
                # the real run raised IndexError: the model must say why (no prototype / prediction above max(Y_val))
                t_ = len(out["accs"])
                for g_, bad, nm in ((gq, badq, "QAcc"), (gf, badf, "FAcc")):
                    agree = (len(g_[17]) > t_ and all(g_[17][:t_]) and all(g_[18][:t_]) and not (g_[17][t_] and g_[18][t_]))
                    if not agree:
                        bad.append(ci)
                        viol("SupervisedOPF.learn raised %r in iteration %d; the model's (%s) domain flags are fit_ok=%r acc_ok=%r"
                             % (out["err"], t_, nm, g_[17], g_[18]), case, "learnfull:raise_flags")
                continue
            Xt2, Yt2, Xv2, Yv2 = out["arrays"]
            best_t = out["best_calls"][-1] if out["best_calls"] else -1
            expect = ([[best_t, len(out["accs"]), 0], case.ids_of(Xt2), [int(y) for y in Yt2], case.ids_of(Xv2),
                       [int(y) for y in Yv2]] + forest_rows(case, rk, out["opf"]))
            stats["runs"] += 1; stats["iterations"] += len(out["accs"]); stats["draws"] += len(case.draws)
            stats["runs_with_exchange"] += 1 if (case.ids_of(Xt2) != case.Xt or [int(y) for y in Yt2] != case.Yt) else 0
            stats["best_not_first"] += 1 if best_t > 0 else 0
            stats["stopped_by_delta"] += 1 if len(out["accs"]) < case.n_iter else 0
            fa = out["accs"]
            # (1) the binary64 model: everything, and the accuracies bit for bit
            facc = [Fraction(a, b) if b else None for a, b in zip(gf[14], gf[15])]
            if gf[:14] != expect or not (all(gf[17]) and all(gf[18])) or facc != [Fraction(a) for a in fa]:
                badf.append(ci)
                diff = [j for j in range(min(len(expect), 14)) if gf[j] != expect[j]]
                viol("SupervisedOPF.learn deviates from Model/LearnFull.learn_full (binary64 accuracies) run on the same draws: output "
                     "rows %r differ (0 = best/iterations/draws left, 1-4 arrays, 5-6 kept training set, 7-13 its forest); accuracies "
                     "model %r impl %r\n model=%r\n impl =%r" % (diff, [float(x) if x is not None else None for x in facc], fa, gf[:14], expect),
                     case, "learnfull:learn_float")
            # (2) exact accuracies of the real run: recomputed from the binary64 model's trace is not possible here, so take
            #     those of the rational model while it still follows the real run, i.e. compare decisions on the doubles
            #     with decisions on the exact values of the SAME outcomes (rows 14/15 of the rational model agree with the
            #     real run up to the first differing decision)
            qs = [Fraction(a, b) for a, b in zip(gq[14], gq[15])]
            n_ = min(len(qs), len(fa))
            fdis["compared_accuracies"] += n_
            same_decisions = (len(qs) == len(fa) and float_decisions(fa) == exact_decisions(qs))
            fu, fs = float_decisions(fa)
            qu, qsm = exact_decisions(qs)
            first_diff = next((t for t in range(n_) if (fu[t], fs[t]) != (qu[t], qsm[t])), None)
            upto = n_ if first_diff is None else first_diff + 1
            if any(abs(Fraction(fa[t]) - qs[t]) > Fraction(1, 10 ** 12) for t in range(upto)):
                fdis["accuracy_far_from_rational"] += 1
                viol("opf_accuracy returned %r, the exact values on the model's predictions are %r" % (fa, [str(q) for q in qs]),
                     case, "learnfull:accuracy_value")
            if any((fa[a] == fa[b]) != (qs[a] == qs[b]) for a in range(upto) for b in range(upto)):
                fdis["runs_with_equal_rationals_as_different_doubles"] += 1
            if [1 if x else 0 for x in qsm] != gq[16]:
                viol("stop flags of the model %r differ from the rational recomputation" % (gq[16],), case, "learnfull:stopflags")
            if not same_decisions:
                fdis["runs_deciding_differently"] += 1
                if len(fdis["examples"]) < 3:
                    fdis["examples"].append(dict(case=case.desc(), doubles=fa, exact=[str(q) for q in qs[:upto]],
                                                 best_iteration_real=best_t, best_iteration_exact=gq[0][0]))
                continue
            if gq[:14] != expect or not (all(gq[17]) and all(gq[18])):
                badq.append(ci)
                diff = [j for j in range(min(len(expect), 14)) if gq[j] != expect[j]]
                viol("SupervisedOPF.learn deviates from Model/LearnFull.learn_full run on the same draws: output rows %r differ "
                     "(0 = best/iterations/draws left, 1-4 arrays, 5-6 kept training set, 7-13 its forest)\n model=%r\n impl =%r"
                     % (diff, gq[:14], expect), case, "learnfull:learn")
        rep.obligation(nameq, not badq, "%d disagreements" % len(badq) if badq else "")
        rep.obligation(namef, not badf, "%d disagreements" % len(badf) if badf else "")
    rep.corr["learn_full"] = dict(cases=len(lcases), disagreements_binary64_model=None if gotq is None else len(badf),
                                  disagreements_exact_model_on_runs_deciding_alike=None if gotq is None else len(badq),
                                  distribution=stats, binary64_vs_exact=fdis)

    # ---------------- prune: comparison ----------------
    name = ("correspondence Model/LearnFull.prune_full (fit / predict with relevance marks computed inside) vs "
            "SupervisedOPF.prune: final training set and final forest")
    bad = []
    if got is not None:
        for ci, (case, out, g_) in enumerate(zip(pcases, pruns, got)):
            rk = ranker_of(case)
            # round r >= 1 calls opf_accuracy; every round's predict needs a prototype
            fit_flags, acc_flags = g_[11], g_[12]
            model_raises = (not all(fit_flags)) or (not all(acc_flags[1:]))
            if out["err"] is not None:
                pstats["raised"] += 1
                if not model_raises:
                    bad.append(ci)
                    viol("SupervisedOPF.prune raised %r; the model sees a prototype in every round and predictions within "
                         "max(Y_val): fit_ok=%r acc_ok=%r" % (out["err"], fit_flags, acc_flags), case, "prunefull:raise_flags")
                continue
            opf = out["opf"]
            fr = forest_rows(case, rk, opf)
            expect = [[len(opf.subgraph.nodes), case.n_iter + 1]] + fr
            pstats["runs"] += 1; pstats["rows_before"] += len(case.Xt); pstats["rows_after"] += len(opf.subgraph.nodes)
            pstats["pruned_something"] += 1 if len(opf.subgraph.nodes) < len(case.Xt) else 0
            pstats["mislabelled_kept"] += 1 if fr[4] != fr[5] else 0
            if g_[:10] != expect or model_raises:
                bad.append(ci)
                diff = [j for j in range(min(len(expect), 10)) if g_[j] != expect[j]]
                viol("SupervisedOPF.prune deviates from Model/LearnFull.prune_full: output rows %r differ (0 = rows left / rounds, "
                     "1-2 final training set, 3-9 final forest)\n model=%r\n impl =%r" % (diff, g_[:10], expect), case, "prunefull:prune")
        rep.obligation(name, not bad, "%d disagreements" % len(bad) if bad else "")
    rep.corr["prune_full"] = dict(cases=len(pcases), disagreements=None if got is None else len(bad), distribution=pstats)

    # ---------------- opf_accuracy in binary64: the model's evaluation order against numpy, and binary64 vs exact ----------------
    nmax = 6 if tier == "quick" else 8
    sc = scope_float_vs_exact(3, nmax)
    vecs = [(l, p, None) for l, p in random_label_vectors(rng, 60 if tier == "quick" else 600)]
    import opfython.math.general as g
    allin = sc["inputs"] + [(l, p, float(g.opf_accuracy(np.array(l), p))) for l, p, _ in vecs]
    name = ("correspondence Model/LearnFullFloat.opf_accuracy_ops at binary64 vs g.opf_accuracy, bit for bit: every confusion matrix "
            "with <= %d rows and labels 0..2, and label vectors with up to 260 classes (numpy's blocked / recursive summation)" % nmax)
    try:
        gota = run_cases("C17accf", ["run_acc_f %s %s" % (zlist(l), zlist(p)) for l, p, _ in allin], requires=requires, chunk=300)
        bada = [k for k, ((l, p, f), (a, b)) in enumerate(zip(allin, gota)) if not b or Fraction(a, b) != Fraction(f)]
        rep.obligation(name, not bada, "" if not bada else "%d differ; first: labels=%r preds=%r numpy=%r model=%r" % (
            len(bada), allin[bada[0]][0], allin[bada[0]][1], allin[bada[0]][2], gota[bada[0]]))
        if bada:
            viol("g.opf_accuracy(%r, %r) = %r; the binary64 model gives %r" % (allin[bada[0]][0], allin[bada[0]][1], allin[bada[0]][2],
                                                                              gota[bada[0]]), None, "learnfull:accuracy_float")
        rep.corr["opf_accuracy_binary64"] = dict(cases=len(allin), disagreements=len(bada))
    except RuntimeError as ex:
        rep.obligation(name, False, str(ex))
    rep.obligation("binary64 opf_accuracy orders any two validation outcomes with DIFFERENT exact accuracies like the rationals, stays "
                   "within 1e-15 of them, and no two accuracies of one validation size differ by 0.0001 +- 1e-12 (so the stop test is decided alike): all %d confusion "
                   "matrices with <= %d rows and labels 0..2, %d distinct values" % (len(sc["inputs"]), nmax, sc["values"]),
                   not sc["problems"], "; ".join(sc["problems"][:5]))
    rep.extra["learnfull_binary64_scope"] = dict(
        matrices=len(sc["inputs"]), distinct_accuracies=sc["values"], problems=sc["problems"][:20],
        smallest_gap_between_distinct_accuracies_of_one_validation_size=sc["min_gap"],
        equal_rationals_computed_as_different_doubles=len(sc["split"]), examples=sc["split"][:8],
        note="an exact accuracy that numpy computes as several doubles lets `acc > max_acc` fire between two iterations of equal "
             "exact accuracy: SupervisedOPF.learn then keeps the later one (findings/C17_learnfull_float_tie.json)")
    return nviol
