"""Checks C12, C13, C14, C16 (k-NN graph, density, clustering, KNN prediction, k selection)."""
import random

from knncommon import *  # noqa
import c12_rounding

KNN_FILES = ["Model/Heap", "Model/Knn", "Model/Pdf", "Model/KnnFit", "Model/RunKnn"]
REQ = ("Model.Run", "Model.RunSup", "Model.RunKnn")

ASSUME = ["all distances finite, non-NaN and strictly below FLOAT_MAX",
          "order-only parts run on a dense rank encoding of the occurring floats (exact); arithmetic parts run in PrimFloat binary64 "
          "with numpy's exp values supplied as a table (Coq has no float exp)",
          "numpy float64 scalar arithmetic is IEEE-754 round-to-nearest-even"]


def corr_generic(rep, name, tag, terms, expect, descs, typ="list Z", cmp=None):
    try:
        got = run_cases(tag, terms, requires=REQ, typ=typ)
    except RuntimeError as ex:
        rep.obligation(name, False, str(ex))
        return None, None
    cmp = cmp or (lambda g, e: g == e)
    bad = [i for i, (g, e) in enumerate(zip(got, expect)) if not cmp(g, e)]
    det = ""
    if bad:
        i = bad[0]
        det = "%d disagreements; first: %s\n model=%r\n impl =%r" % (len(bad), json.dumps(descs[i])[:1200], got[i], expect[i])
    rep.obligation(name, not bad, det)
    return bad, got


def feq(a, b):
    return a == b or (a != a and b != b)


def flists_eq(g, e):
    return len(g) == len(e) and all(feq(float(x), float(y)) for x, y in zip(g, e))


# ---------------------------------------------------------------------------------------- C12

def main_c12(tier, seed):
    setup_impl_env()
    rep = Report("C12", tier, seed)
    standard_proof_phase(rep, "C12", KNN_FILES + ["Props/C12"])
    rng = random.Random(seed + 12)
    N = 300 if tier == "quick" else 30000
    insts = [gen_kinst(rng, nmin=1 if i % 17 == 0 else 2, nmax=10 if tier == "quick" else 16) for i in range(N)]
    terms, expect, descs, recs = [], [], [], []
    pterms, pexpect, pdescs = [], [], []
    eterms, eexpect = [], []
    nviol = 0
    kdist = {}
    for idx, it in enumerate(insts):
        n = it.n
        k = rng.choice([1, 1, 2, 3, n - 1 if n > 1 else 1, n, n + 2])
        k = max(1, k)
        kdist[min(k, 12)] = kdist.get(min(k, 12), 0) + 1
        rk = Ranker([0.0, FLOAT_MAX, 0.00001, 1.0] + [v for r in it.D for v in r])
        sg = new_subgraph(it, labels=False)
        args = arcs_args(it)
        twice = (idx % 5 == 3)
        destroy = 0
        try:
            if twice:
                # an earlier arc creation on the same subgraph, with or without destroy_arcs in between, any k1
                k1 = rng.randint(1, max(1, n + 1))
                destroy = rng.randint(0, 1)
                sg.create_arcs(k1, *args)
                if destroy:
                    sg.destroy_arcs()
            maxd = [float(v) for v in sg.create_arcs(k, *args)]
            adj = adj_of(sg)
            radius = [float(x.radius) for x in sg.nodes]
            gd = float(sg.density)
            exp = flat_adj(adj) + [rk.r(v) for v in radius] + [rk.r(gd)] + [rk.r(v) for v in maxd]
            err = None
        except Exception as ex:
            exp, err = ["error", repr(ex)], repr(ex)
        wfl = [rk.r(it.D[a][b]) for a in range(n) for b in range(n)]
        if twice:
            terms.append("run_create_arcs_twice %d %d %d %d %d %d %d %d %s" % (rk.r(0.0), rk.r(FLOAT_MAX), rk.r(0.00001), rk.r(1.0), destroy, n, k1, k, zlist(wfl)))
        else:
            terms.append("run_create_arcs %d %d %d %d %d %d %s" % (rk.r(0.0), rk.r(FLOAT_MAX), rk.r(0.00001), rk.r(1.0), n, k, zlist(wfl)))
        expect.append(exp); d = it.desc(); d["k"] = k; d["twice"] = twice; d["destroy_between"] = destroy; descs.append(d)
        rep.count_case((it.key(), k, twice), n >= 3)
        if err:
            nviol += 1
            if nviol <= 3:
                rep.violation("create_arcs raised " + err, d, key="create_arcs")
            continue
        if not twice or destroy:
            # after destroy_arcs the second creation must look like one on a fresh subgraph, except that the density
            # bound can only grow (it survives destroy_arcs)
            msg = oracle_arcs(it.D, n, k, adj, radius, None if twice else gd, maxd)
            if msg:
                nviol += 1
                if nviol <= 3:
                    rep.violation("create_arcs: " + msg, d, key="create_arcs")
        # density estimation needs k <= n-1
        if twice or k > n - 1:
            continue
        const = 2 * sg.density / 9
        e = [[float(np.exp(-np.float64(it.D[i][adj[i][l]]) / const)) for l in range(k)] for i in range(n)]
        sg.calculate_pdf(k, *args)
        dens = [float(x.density) for x in sg.nodes]
        cost = [float(x.cost) for x in sg.nodes]
        pterms.append("run_pdf %d %d %s %s" % (n, k, flit(gd), flist([v for r in e for v in r])))
        pexpect.append([float(sg.constant), float(sg.min_density), float(sg.max_density)] + dens + cost)
        pdescs.append(d)
        msg = oracle_pdf(it, adj, k, gd, sg, dens, cost)
        if msg:
            nviol += 1
            if nviol <= 3:
                rep.violation("calculate_pdf: " + msg, d, key="calculate_pdf")
        msg = c12_rounding.check(it.D, adj, k, sg, dens, cost)     # float-level facts of Props/C12_rounding.v, exact
        if msg:
            nviol += 1
            if nviol <= 3:
                rep.violation("calculate_pdf (float level): " + msg, d, key="calculate_pdf_rounding")
        h = rng.choice([-1.0, 0.0, 0.5, 3.0, 500.0, 2000.0])
        sg.eliminate_maxima_height(h)
        cost2 = [float(x.cost) for x in sg.nodes]
        eterms.append("run_eliminate %s %s %s" % (flit(h), flist(dens), flist(cost)))
        eexpect.append(cost2)
        want = [max(dv - h, 0) for dv in dens] if h > 0 else cost
        if cost2 != want:
            nviol += 1
            if nviol <= 3:
                d2 = dict(d); d2["height"] = h
                rep.violation("eliminate_maxima_height(%r): costs %r, expected %r" % (h, cost2, want), d2, key="eliminate")
    bad, _ = corr_generic(rep, "correspondence Model/Knn.create_arcs vs KNNSubgraph.create_arcs (adjacency, radius, density bound, per-rank maxima)", "C12arcs", terms, expect, descs)
    bad2, _ = corr_generic(rep, "correspondence Model/Pdf.calculate_pdf (PrimFloat, bit-exact) vs KNNSubgraph.calculate_pdf", "C12pdf", pterms, pexpect, pdescs, typ="list float", cmp=flists_eq)
    bad3, _ = corr_generic(rep, "correspondence Model/Pdf.eliminate_maxima (PrimFloat) vs KNNSubgraph.eliminate_maxima_height", "C12elim", eterms, eexpect, pdescs, typ="list float", cmp=flists_eq)
    rep.corr["create_arcs"] = dict(cases=len(terms), disagreements=None if bad is None else len(bad), k_distribution=kdist,
                                   kinds={k: sum(1 for it in insts if it.kind == k) for k in ("feat", "lattice", "dup", "mat", "jitter")})
    rep.corr["calculate_pdf"] = dict(cases=len(pterms), disagreements=None if bad2 is None else len(bad2))
    rep.corr["eliminate_maxima_height"] = dict(cases=len(eterms), disagreements=None if bad3 is None else len(bad3))
    import large_knn
    nviol += large_knn.c12_large(rep, rng, tier)
    rep.extra["oracle_violations"] = nviol
    nviol += c12_rounding.directed(rep, seed, tier)
    rep.extra["oracle_violations"] = nviol
    rep.extra["float_level"] = c12_rounding.summary()
    hyp = c12_rounding.binary64_hypotheses()
    rep.obligation("binary64 satisfies the hypotheses on the rounding function of Props/C12_rounding.v (rnd 1 = 1, integers 0..7993, t - 1 < t)", hyp is None, hyp or "")
    rep.samples = descs[:2]
    rep.rule = ("sample sets: random features under 19 metrics, integer lattices, duplicated rows, pre-computed matrices over 1-3 weights; "
                "k in {1,2,3,n-1,n,n+2}; every 7th case calls create_arcs twice without destroy_arcs (non-fresh form); heights in "
                "{-1,0,0.5,3,500,2000}; non-trivial = n >= 3")
    rep.assumptions = ASSUME
    return rep.finish()


def oracle_pdf(it, adj, k, gd, sg, dens, cost):
    n = it.n
    const = 2 * gd / 9
    if float(sg.constant) != const:
        return "constant %r, expected 2/9 of the density bound = %r" % (sg.constant, const)
    pdf = []
    for i in range(n):
        s = 0.0
        for l in range(k):
            s += float(np.exp(-np.float64(it.D[i][adj[i][l]]) / const))
        pdf.append(s / (k + 1))
    mn, mx = min(pdf), max(pdf)
    if float(sg.min_density) != mn or float(sg.max_density) != mx:
        return "recorded min/max %r/%r, true %r/%r" % (sg.min_density, sg.max_density, mn, mx)
    for i in range(n):
        if mn == mx:
            want = float(MAXD)
        else:
            want = ((MAXD - 1) * (pdf[i] - mn) / (mx - mn)) + 1
        if abs(dens[i] - want) > 1e-9 * max(1, abs(want)):
            return "density of %d is %r, expected %r" % (i, dens[i], want)
        if not (1 - 1e-9 <= dens[i] <= MAXD + 1e-9):
            return "density of %d = %r outside [1, MAX_DENSITY]" % (i, dens[i])
        if cost[i] != dens[i] - 1:
            return "cost of %d is %r, density - 1 = %r" % (i, cost[i], dens[i] - 1)
    for i in range(n):
        for j in range(n):
            if pdf[i] < pdf[j] and not dens[i] <= dens[j]:
                return "density order not preserved between %d and %d" % (i, j)
    if mn < mx:
        if dens[pdf.index(mn)] != 1 or abs(dens[pdf.index(mx)] - MAXD) > 1e-9 * MAXD:
            return "minimum/maximum not mapped to 1 / MAX_DENSITY"
    return None


# ---------------------------------------------------------------------------------------- C13

def main_c13(tier, seed):
    setup_impl_env()
    from opfython.models.knn_supervised import KNNSupervisedOPF
    from opfython.models.unsupervised import UnsupervisedOPF
    rep = Report("C13", tier, seed)
    standard_proof_phase(rep, "C13", KNN_FILES + ["Props/C13"])
    rng = random.Random(seed + 13)
    N = 400 if tier == "quick" else 24000
    terms, expect, descs = [], [], []
    nviol = 0
    flavours = dict(sup=0, sup_force=0, unsup=0, unsup_packed=0)
    for idx in range(N):
        flavour = ("sup", "sup_force", "unsup", "unsup_packed")[idx % 4]
        packed = flavour == "unsup_packed"
        flavours[flavour] += 1
        if packed:
            # larger sets, small k, all densities within 1 of each other (see below): every start cost density-1 lies below
            # every density, so late roots sit next to finished samples whose cost is a fraction below the root's density
            flavour = "unsup"
            it = gen_kinst(rng, nmin=8, nmax=16, labelled=True)
            n = it.n
            k = rng.randint(1, 2)
        else:
            it = gen_kinst(rng, nmin=3, nmax=10 if tier == "quick" else 15, labelled=True)
            n = it.n
            k = rng.randint(1, min(4, n - 1))
        d = it.desc(); d["k"] = k; d["flavour"] = flavour
        args = arcs_args(it)
        try:
            if flavour == "unsup":
                opf, _, _ = make_knn_model(it, UnsupervisedOPF)
                opf.subgraph = new_subgraph(it)
                kmax = rng.randint(k, n - 1)
                d["kmax"] = kmax
                opf.subgraph.create_arcs(kmax, *args)
                opf.subgraph.calculate_pdf(k, *args)
            else:
                opf, _, _ = make_knn_model(it, KNNSupervisedOPF)
                opf.subgraph = new_subgraph(it)
                opf.subgraph.create_arcs(k, *args)
                opf.subgraph.calculate_pdf(k, *args)
            sg = opf.subgraph
            before = knn_state(sg)
            if any(v != v for v in before["dens"]):
                continue
            bad_c0 = [j for j in range(n) if before["cost"][j] != before["dens"][j] - 1]
            if bad_c0 and nviol < 3:
                j = bad_c0[0]
                nviol += 1
                rep.violation("after calculate_pdf the initial cost of sample %d is %r, its density minus 1 is %r: the competition's bound "
                              "'cost strictly above density - 1' is then a different bound" % (j, before["cost"][j], before["dens"][j] - 1), d, key="clustering:initial_cost")
            if packed or idx % 8 < 2:
                # densities packed (almost) within 1 of each other - what a distant outlier does to the [1, 1000] normalisation
                base = rng.uniform(1.0, 990.0)
                step, lev = (0.009, 100) if packed else (rng.choice([0.1, 0.25, 0.4]), rng.randint(2, 5))
                for nd in sg.nodes:
                    nd.density = base + step * rng.randrange(lev)
                    nd.cost = nd.density - 1           # as calculate_pdf leaves it
                before = knn_state(sg)
                d["densities_overridden"] = before["dens"]
            if flavour == "unsup":
                opf._clustering(k)
                after = knn_state(sg)
                opf.propagate_labels()
                prop = [int(x.predicted_label) for x in sg.nodes]
            else:
                opf._clustering(force_prototype=(flavour == "sup_force"))
                after = knn_state(sg)
            err = None
        except Exception as ex:
            err = repr(ex)
        if err:
            nviol += 1
            if nviol <= 3:
                rep.violation("_clustering raised " + err, d, key="clustering:" + flavour)
            continue
        rk = Ranker([0.0, FLOAT_MAX, -FLOAT_MAX] + before["dens"] + before["cost"])
        common_args = "%s %s" % (zlist(it.labels), zlist(flat_adj(before["adj"])))
        if flavour == "unsup":
            terms.append("run_cluster_unsup %d %d %d %d %s %s %s %s" % (rk.r(0.0), rk.r(FLOAT_MAX), rk.r(-FLOAT_MAX), k, common_args,
                         zlist(before["nplat"]), zlist([rk.r(v) for v in before["dens"]]), zlist([rk.r(v) for v in before["cost"]])))
        else:
            terms.append("run_cluster_sup %d %d %d %d %s %s %s" % (rk.r(0.0), rk.r(FLOAT_MAX), rk.r(-FLOAT_MAX), 1 if flavour == "sup_force" else 0,
                         common_args, zlist([rk.r(v) for v in before["dens"]]), zlist([rk.r(v) for v in before["cost"]])))
        try:
            exp = (flat_adj(after["adj"]) + after["nplat"] + [rk.r(v) for v in after["cost"]] + after["pred"] + after["root"]
                   + after["plabel"] + after["clabel"] + after["order"][-n:] + [after["nclusters"]])
            if flavour == "unsup":
                exp += prop
        except KeyError as ex:
            exp = ["value outside the density/cost set", repr(ex)]
        expect.append(exp); descs.append(d)
        rep.count_case((it.key(), k, flavour), True)
        msg = oracle_cluster(after, after["adj"] if flavour != "unsup" else [a[:after["nplat"][i] + k] for i, a in enumerate(after["adj"])],
                             before["dens"], before["cost"], it.labels, flavour == "unsup", after["nclusters"])
        if not msg and flavour == "unsup":
            for q in range(n):
                if prop[q] != it.labels[after["root"][q]]:
                    msg = "label propagation: sample %d got %d, root %d has true label %d" % (q, prop[q], after["root"][q], it.labels[after["root"][q]]); break
        if not msg and flavour == "sup_force":
            for q in range(n):
                if after["plabel"][q] != it.labels[q]:
                    msg = "KNN-supervised final clustering: sample %d assigned %d, true label %d" % (q, after["plabel"][q], it.labels[q]); break
        if msg:
            nviol += 1
            if nviol <= 3:
                rep.violation("clustering (%s): %s" % (flavour, msg), d, key="clustering:" + flavour)
    # end-to-end fits: the objects users get. (a) oracle; (b) correspondence with the model of the final stage
    #   destroy_arcs; create_arcs(best_k); calculate_pdf(best_k); _clustering(...)   run entirely in PrimFloat
    from opfython.subgraphs import KNNSubgraph
    nfit = 60 if tier == "quick" else 6000
    fit_ok = 0
    fterms, fexpect, fdescs = [], [], []
    orig_create = KNNSubgraph.create_arcs
    for idx in range(nfit):
        which = "unsup" if idx % 2 == 0 else "knn"
        it = gen_kinst(rng, nmin=4, nmax=10, labelled=True, **(dict(kinds=("asym",)) if idx % 8 == 2 else {})) if which == "unsup" else gen_split_inst(rng, nmax=11)
        n = it.n
        d = it.desc(); d["flavour"] = which + "_fit"
        calls = []

        def rec_create(self, k, *a, **kw):
            calls.append((int(k), float(self.density)))
            return orig_create(self, k, *a, **kw)
        KNNSubgraph.create_arcs = rec_create
        try:
            if which == "unsup":
                opf, X, I = make_knn_model(it, UnsupervisedOPF, min_k=1, max_k=rng.randint(1, min(4, n - 1)))
                opf.fit(X[:n].copy(), np.array(it.labels), None if I is None else I[:n])
                tr = list(range(n))
            else:
                opf, tr = fit_knn_models(rng, it, "knn")
            err = None
        except Exception as ex:
            err = repr(ex)
        finally:
            KNNSubgraph.create_arcs = orig_create
        if err:
            nviol += 1
            if nviol <= 3:
                rep.violation("%s fit raised %s" % (which, err), d, key="clustering:%s_fit" % which)
            continue
        sg = opf.subgraph
        st = knn_state(sg)
        if any(v != v for v in st["dens"] + st["cost"]):
            continue
        k = int(sg.best_k)
        nt = len(tr)
        Dt = [[it.D[tr[a]][tr[b]] for b in range(nt)] for a in range(nt)]
        labels_t = [it.labels[a] for a in tr]
        d["best_k"] = k
        fit_ok += 1
        rep.count_case((it.key(), "fit", which), True)
        # (a) oracle
        nk = lambda p: [j for (_, j) in sorted((Dt[p][j], j) for j in range(nt) if j != p)[:k]]
        nbr = [nk(p) for p in range(nt)]
        msg = None
        if which == "unsup":
            adjv = [a[:st["nplat"][i] + k] for i, a in enumerate(st["adj"])]
            msg = oracle_cluster(st, adjv, st["dens"], [v - 1 for v in st["dens"]], labels_t, True, st["nclusters"])
        else:
            allowed = [set(nbr[p]) | {q for q in range(nt) if st["dens"][q] == st["dens"][p] and p in nbr[q]} for p in range(nt)]
            msg = oracle_cluster(st, allowed, st["dens"], [v - 1 for v in st["dens"]], labels_t, False, None)
            if not msg and st["plabel"] != labels_t:
                msg = "KNN-supervised fit: some training sample does not carry its own label"
        if not msg and calls and calls[-1][0] != k:
            msg = "the final arcs were created with k=%d but best_k=%d" % (calls[-1][0], k)
        if not msg and which == "unsup":
            # label propagation on the fitted object (after the whole k search): every sample gets the TRUE label of its root
            try:
                opf.propagate_labels()
                for q_ in range(nt):
                    r_ = q_
                    for _ in range(nt + 1):
                        if st["pred"][r_] == -1:
                            break
                        r_ = st["pred"][r_]
                    got_ = int(sg.nodes[q_].predicted_label)
                    if got_ != labels_t[r_]:
                        msg = "propagate_labels after fit (k searched over %d..%d) gives sample %d the label %d, its root %d has true label %d" % (
                            1, int(opf.max_k), q_, got_, r_, labels_t[r_]); break
            except Exception as ex:   # noqa
                msg = "propagate_labels raised %r" % (ex,)
        if not msg and which == "unsup":
            # the graph the forest lives on: every sample's k arcs (behind its plateau insertions) go to its k nearest samples
            # by the distance FROM that sample (directed dissimilarities included)
            for p_ in range(nt):
                arcs = st["adj"][p_][st["nplat"][p_]: st["nplat"][p_] + k]
                ds = sorted(Dt[p_][int(j)] for j in arcs)
                want = sorted(Dt[p_][j] for j in range(nt) if j != p_)[:min(k, nt - 1)]
                if ds != want:
                    msg = "the %d arcs of sample %d have distances %r, its %d nearest samples are at %r" % (k, p_, ds, k, want); break
        if msg:
            nviol += 1
            if nviol <= 3:
                rep.violation("%s.fit: %s" % (which, msg), d, key="clustering:%s_fit" % which)
        # (b) model of the final stage
        const = float(sg.constant)
        if const == 0.0 or not calls:
            continue
        E = [float(np.exp(-np.float64(Dt[a][b]) / const)) for a in range(nt) for b in range(nt)]
        fterms.append("run_knn_fit_final %d %d %d %s %s %s %s" % (0 if which == "unsup" else 1, nt, k, flit(calls[-1][1]), zlist(labels_t),
                                                                flist([v for r in Dt for v in r]), flist(E)))
        fexpect.append([const, float(sg.min_density), float(sg.max_density), float(st["nclusters"])] + st["radius"] + st["dens"] + st["cost"]
                       + [float(v) for v in st["pred"]] + [float(v) for v in st["root"]] + [float(v) for v in st["plabel"]] + [float(v) for v in st["clabel"]])
        fdescs.append(d)
    badf, _ = corr_generic(rep, "correspondence: model of the final training stage (create_arcs(best_k) -> calculate_pdf -> _clustering, PrimFloat end to end) vs the fitted KNNSupervisedOPF / UnsupervisedOPF objects",
                           "C13fit", fterms, fexpect, fdescs, typ="list float", cmp=flists_eq)
    rep.corr["fit_final"] = dict(cases=len(fterms), disagreements=None if badf is None else len(badf))
    bad, _ = corr_generic(rep, "correspondence Model/Knn.clustering_sup / clustering_unsup vs the two _clustering routines (adjacency after plateau step, n_plateaus, cost, pred, root, labels, cluster ids, removal order, n_clusters, propagate_labels)", "C13", terms, expect, descs)
    rep.corr["clustering"] = dict(cases=len(terms), disagreements=None if bad is None else len(bad), flavours=flavours, end_to_end_fits=fit_ok)
    import large_knn
    nviol += large_knn.c13_large(rep, rng, tier)
    import drive_streams
    nviol += drive_streams.file_models(rep, rng, tier, kinds=("unsup",), key="cluster:distance_file")
    rep.extra["oracle_violations"] = nviol
    rep.samples = descs[:2]
    rep.rule = "sample sets as in C12 with labels (2-3 classes), k in 1..4; four flavours in rotation (KNN-supervised with/without forced prototypes, unsupervised with arcs built for kmax >= k, unsupervised on 8-16 samples with densities packed within 1); all cases non-trivial (n >= 3)"
    rep.assumptions = ASSUME + ["the model receives the implementation's own densities/costs/adjacency (rank-encoded) as input: C13 is about the clustering step"]
    return rep.finish()


# ---------------------------------------------------------------------------------------- C14 (+ C09 for KNN models)

def fit_knn_models(rng, it, which):
    from opfython.models.knn_supervised import KNNSupervisedOPF
    from opfython.models.unsupervised import UnsupervisedOPF
    n = it.n
    if which == "knn":
        ntr = it.ntr
        opf, X, I = make_knn_model(it, KNNSupervisedOPF, max_k=rng.randint(1, min(5, ntr - 1)))
        tr = list(range(ntr)); va = list(range(ntr, n))
        # training = first part, validation = last part of the labeled points
        if I is None:
            opf.fit(X[tr].copy(), np.array([it.labels[i] for i in tr]), X[va].copy(), np.array([it.labels[i] for i in va]))
        else:
            opf.fit(X[tr].copy(), np.array([it.labels[i] for i in tr]), X[va].copy(), np.array([it.labels[i] for i in va]), I[tr], I[va])
        return opf, tr
    if rng.random() < 0.5 and n >= 5:
        kk = rng.randint(3, min(5, n - 1))          # force a larger neighbourhood: best_k = kk
        opf, X, I = make_knn_model(it, UnsupervisedOPF, min_k=kk, max_k=kk)
    else:
        opf, X, I = make_knn_model(it, UnsupervisedOPF, min_k=1, max_k=rng.randint(1, min(3, n - 1)))
    opf.fit(X[:n].copy(), np.array(it.labels), None if I is None else I[:n])
    opf.propagate_labels()
    return opf, list(range(n))


def knn_predict_rows(opf, it, rows, which):
    if it.X is not None:
        Xq = np.array([it.X[r] for r in rows], dtype=float)
        out = opf.predict(Xq)
    else:
        _, idx = embed_matrix(it.D)
        out = opf.predict(np.zeros((len(rows), 1)), idx[np.array(rows, dtype=int)])
    if which == "knn":
        return [int(v) for v in out], None
    return [int(v) for v in out[0]], [int(v) for v in out[1]]


def main_c14(tier, seed, pid="C14"):
    setup_impl_env()
    rep = Report(pid, tier, seed)
    standard_proof_phase(rep, pid, KNN_FILES + ["Props/" + pid])
    rng = random.Random(seed + 14)
    N = 200 if tier == "quick" else 15000
    terms, expect, descs = [], [], []
    nviol = 0
    stats = dict(knn=0, unsup=0, queries=0, batch_sizes={})
    for idx in range(N):
        which = "knn" if idx % 2 == 0 else "unsup"
        m = rng.randint(1, 7)
        if which == "knn":
            it = gen_split_inst(rng, nmax=11 if tier == "quick" else 15, m=m)
        else:
            it = gen_kinst(rng, nmin=6, nmax=11 if tier == "quick" else 15, m=m, labelled=True)
        d = it.desc(); d["model"] = which
        try:
            opf, tr = fit_knn_models(rng, it, which)
        except Exception as ex:
            continue   # training failures (e.g. F6: all accuracies zero) are C16's business
        sg = opf.subgraph
        st = knn_state(sg)
        if any(v != v for v in st["dens"] + st["cost"]) or float(sg.constant) == 0.0:
            continue
        k = int(sg.best_k)
        const, mn, mx = float(sg.constant), float(sg.min_density), float(sg.max_density)
        nt = len(tr)
        rows = list(range(it.n, it.n + m))
        if rng.random() < 0.4:
            rows = rows + [rng.choice(rows) for _ in range(rng.randint(1, 3))]   # duplicates in the batch
        if rng.random() < 0.3 or it.X is None:
            # training samples as queries (in pre-computed mode always: their row index equals a training node's)
            rows = [tr[rng.randrange(nt)] for _ in range(1 if it.X is not None else 3)] + rows
        try:
            preds, clus = knn_predict_rows(opf, it, rows, which)
        except Exception as ex:
            nviol += 1
            if nviol <= 3:
                rep.violation("predict raised " + repr(ex), d, key="knn_predict:" + which)
            continue
        stats[which] += 1; stats["queries"] += len(rows)
        stats["batch_sizes"][len(rows)] = stats["batch_sizes"].get(len(rows), 0) + 1
        qlits = []
        for pos, r in enumerate(rows):
            dq = [it.D[r][tr[j]] for j in range(nt)]
            e = [float(np.exp(-np.float64(v) / const)) for v in dq]
            qlits.append("(%s, %s)" % (flist(dq), flist(e)))
            rep.count_case((it.key(), which, r, pos), True)
        terms.append("run_knn_predict_batch %d %d %s %s %s %s [%s]" % (k, nt, flit(1e-20), flit(mn), flit(mx), flist(st["cost"]), "; ".join(qlits)))
        descs.append(dict(d, batch=rows, k=k))
        expect.append((preds, clus, st["plabel"], st["clabel"]))
        # oracle 1 (C09): position independence on the implementation
        for pos, r in enumerate(rows):
            alone, calone = knn_predict_rows(opf, it, [r], which)
            if alone[0] != preds[pos] or (clus is not None and calone[0] != clus[pos]):
                nviol += 1
                if nviol <= 3:
                    rep.violation("%s predict: point %d gets %r at batch position %d of %r but %r when predicted alone" % (which, r, preds[pos], pos, rows, alone[0]),
                                  dict(d, batch=rows, position=pos), key="predict_position:" + which)
                break
        # oracle 2 (C14): exhaustive k-nearest max-min rule
        Dq = it.D
        for pos, r in enumerate(rows):
            Dsub = {r: [it.D[r][tr[j]] for j in range(nt)]}
            msg = oracle_knn_predict(Dsub, nt, r, k, st["cost"], st["plabel"], const, mn, mx, preds[pos])
            if msg:
                nviol += 1
                if nviol <= 3:
                    rep.violation("%s predict: %s" % (which, msg), dict(d, batch=rows, position=pos, k=k), key="knn_rule:" + which)
                break

    def cmp(g, e):
        preds_, clus_, plabels, clabels = e
        if len(g) != len(preds_):
            return False
        for pos, nb in enumerate(g):
            wantp = plabels[nb] if nb >= 0 else 0
            wantc = clabels[nb] if nb >= 0 else 0
            if preds_[pos] != wantp or (clus_ is not None and clus_[pos] != wantc):
                return False
        return True
    bad, _ = corr_generic(rep, "correspondence Model (knn_scan + query_density + knn_pick at PrimFloat) vs KNNSupervisedOPF.predict / UnsupervisedOPF.predict", pid, terms, expect, descs, cmp=cmp)
    rep.corr["knn_predict"] = dict(cases=stats["queries"], batches=len(terms), disagreements=None if bad is None else len(bad), distribution=stats)
    import large_knn
    nviol += large_knn.c14_large(rep, rng, tier, pid)
    import drive_streams
    nviol += drive_streams.knn_call_sequences(rep, rng, tier)
    rep.extra["oracle_violations"] = nviol
    rep.samples = descs[:2]
    rep.rule = ("fitted KNN-supervised (train/validation split of the labeled points) and unsupervised models on the C12 sample families; batches of 1-10 queries "
                "with duplicates and training copies; each (model, query, batch position) is one case")
    rep.assumptions = ASSUME
    return rep.finish()


# ---------------------------------------------------------------------------------------- C16

def rebuilt_final_state(it, cls, Xtr, Ytr, Itr, k, which, **kw):
    """The final model as the property describes it: a fresh subgraph over the training rows with arcs, densities and
    clustering for k - built with the library's own steps on a fresh object, nothing left over from a k-search."""
    from opfython.subgraphs import KNNSubgraph
    m2, _, _ = make_knn_model(it, cls, **kw)
    m2.subgraph = KNNSubgraph(Xtr, Ytr, Itr)
    m2.subgraph.best_k = k
    a = (m2.distance_fn, m2.pre_computed_distance, m2.pre_distances)
    m2.subgraph.create_arcs(k, *a)
    m2.subgraph.calculate_pdf(k, *a)
    if which == "knn":
        m2._clustering(force_prototype=True)
        m2.subgraph.destroy_arcs()
    else:
        m2._clustering(k)
    return final_state(m2.subgraph, which)


def final_state(sg, which):
    st = knn_state(sg)
    st.pop("order", None)
    if which == "knn":
        st.pop("nclusters", None); st.pop("clabel", None)
    for a_ in ("constant", "min_density", "max_density", "best_k"):
        st[a_] = float(getattr(sg, a_))
    return st


def compare_final(opf, it, cls, Xtr, Ytr, Itr, which, **kw):
    k = int(opf.subgraph.best_k)
    got = final_state(opf.subgraph, which)
    if any(v != v for v in got["dens"] + got["cost"]):
        return None
    want = rebuilt_final_state(it, cls, Xtr, Ytr, Itr, k, which, **kw)
    for f in want:
        if repr(want[f]) != repr(got[f]):
            return "the fitted model is not the model built with best_k=%d: %s is %r, a fresh build with that k gives %r" % (k, f, got[f], want[f])
    return None


def main_c16(tier, seed):
    setup_impl_env()
    import opfython.math.general as g
    from opfython.models.knn_supervised import KNNSupervisedOPF
    from opfython.models.unsupervised import UnsupervisedOPF
    rep = Report("C16", tier, seed)
    standard_proof_phase(rep, "C16", KNN_FILES + ["Props/C16"])
    rng = random.Random(seed + 16)
    N = 120 if tier == "quick" else 10000
    terms, expect, descs = [], [], []
    nviol = 0
    stats = dict(knn=0, unsup=0, zero_cut_stops=0, all_zero_acc=0)
    orig_acc = g.opf_accuracy
    for idx in range(N):
        which = "knn" if idx % 2 == 0 else "unsup"
        it = gen_split_inst(rng, nmax=12 if tier == "quick" else 16) if which == "knn" else \
            gen_kinst(rng, nmin=6, nmax=12 if tier == "quick" else 16, labelled=True, **(dict(kinds=("micro",)) if idx % 10 == 5 else {}))
        n = it.n
        d = it.desc(); d["model"] = which
        if which == "knn":
            tr = list(range(it.ntr)); va = list(range(it.ntr, n))
            if idx % 10 == 0:
                # adversarial validation labels: two classes, validation labels opposite to the geometry (F6 territory)
                it.labels = [min(l, 1) for l in it.labels]
                if len(set(it.labels[:it.ntr])) == 2 and len(set(it.labels[it.ntr:])) == 2:
                    pass
            max_k = rng.randint(1, min(5, len(tr) - 1))
            opf, X, I = make_knn_model(it, KNNSupervisedOPF, reuse=(idx % 4 == 2), max_k=max_k)
            accs = []
            def wrapped(labels, preds, _o=orig_acc):
                v = _o(labels, preds); accs.append(float(v)); return v
            g.opf_accuracy = wrapped
            calls = []
            try:
                ytr = np.array([it.labels[i] for i in tr]); yva = np.array([it.labels[i] for i in va])
                if I is None:
                    opf.fit(X[tr].copy(), ytr, X[va].copy(), yva)
                else:
                    opf.fit(X[tr].copy(), ytr, X[va].copy(), yva, I[tr], I[va])
                err = None
            except Exception as ex:
                err = repr(ex)
            finally:
                g.opf_accuracy = orig_acc
            d["max_k"] = max_k; d["accuracies"] = accs
            rk = Ranker([0.0] + accs)
            terms.append("run_knn_select %d %s" % (rk.r(0.0), zlist([rk.r(a) for a in accs])))
            expect.append([-1] if err else [int(opf.subgraph.best_k)]); descs.append(d)
            stats["knn"] += 1
            rep.count_case((it.key(), which, max_k), len(set(accs)) > 1)
            if len(accs) != max_k:
                err = err or "evaluated %d candidates, expected %d" % (len(accs), max_k)
            if all(a <= 0 for a in accs):
                stats["all_zero_acc"] += 1
            if err and all(a <= 0 for a in accs) and "UnboundLocalError" in err:
                rep.violation("KNNSupervisedOPF.fit raises UnboundLocalError when every candidate k has validation accuracy 0 (best_k never bound) instead of keeping k=1",
                              d, key="knn_learn:all_accuracies_zero")
                continue
            if err:
                nviol += 1
                if nviol <= 3:
                    rep.violation("KNNSupervisedOPF.fit: " + err, d, key="knn_learn")
                continue
            want = 1 + max(range(len(accs)), key=lambda i: (accs[i], -i))
            msg = None
            if int(opf.subgraph.best_k) != want:
                msg = "best_k = %d, accuracies %r: smallest k with the highest accuracy is %d" % (opf.subgraph.best_k, accs, want)
            else:
                msg = compare_final(opf, it, KNNSupervisedOPF, X[tr].copy(), ytr, None if I is None else I[tr], "knn", max_k=max_k)
            if msg:
                nviol += 1
                if nviol <= 3:
                    rep.violation(msg, d, key="knn_learn")
        else:
            min_k = rng.randint(1, 2)
            max_k = rng.randint(min_k, min(5, n - 1))
            if it.kind == "micro":
                min_k, max_k = 1, min(5, n - 1)       # the whole range: cuts that are positive but below 1e-20 occur on the way
            opf, X, I = make_knn_model(it, UnsupervisedOPF, reuse=(idx % 4 == 3), min_k=min_k, max_k=max_k)
            cuts = []
            orig_cut = opf._normalized_cut
            def wcut(k, _o=orig_cut):
                v = _o(k); cuts.append(float(v)); return v
            opf._normalized_cut = wcut
            clus_k = []
            orig_cl = opf._clustering
            def wcl(k, _o=orig_cl):
                clus_k.append(int(k)); return _o(k)
            opf._clustering = wcl
            try:
                opf.fit(X[:n].copy(), np.array(it.labels), None if I is None else I[:n])
                err = None
            except Exception as ex:
                err = repr(ex)
            opf.__dict__.pop("_normalized_cut", None); opf.__dict__.pop("_clustering", None)
            d["min_k"], d["max_k"], d["cuts"] = min_k, max_k, cuts
            if any(c != c for c in cuts):
                continue
            rk = Ranker([0.0, FLOAT_MAX] + cuts)
            # the model sees the cuts the code evaluated, padded to the full candidate range with copies of the last value
            padded = cuts + [cuts[-1]] * (max_k - min_k + 1 - len(cuts)) if cuts else []
            terms.append("run_cut_select %d %d %d %s" % (rk.r(0.0), rk.r(FLOAT_MAX), min_k, zlist([rk.r(c) for c in padded])))
            expect.append(["error"] if err else [int(opf.subgraph.best_k), len(cuts)]); descs.append(d)
            stats["unsup"] += 1
            if len(cuts) < max_k - min_k + 1:
                stats["zero_cut_stops"] += 1
            rep.count_case((it.key(), which, min_k, max_k), len(set(cuts)) > 1)
            if err:
                nviol += 1
                if nviol <= 3:
                    rep.violation("UnsupervisedOPF.fit: " + err, d, key="unsup_cut")
                continue
            want = min_k + min(range(len(cuts)), key=lambda i: (cuts[i], i))
            stop_ok = all(c != 0.0 for c in cuts[:-1])
            msg = None
            if int(opf.subgraph.best_k) != want:
                msg = "best_k = %d, cuts %r from k=%d: smallest k with the lowest cut is %d" % (opf.subgraph.best_k, cuts, min_k, want)
            elif not stop_ok:
                msg = "a candidate was evaluated after a cut of exactly 0: %r" % cuts
            elif len(cuts) < max_k - min_k + 1 and cuts[-1] != 0.0:
                msg = "evaluation stopped early without a zero cut: %r" % cuts
            elif clus_k[-1] != want or len(opf.subgraph.nodes[0].adjacency) < want:
                msg = "final clustering used k=%r, best_k=%d" % (clus_k[-1], want)
            else:
                msg = compare_final(opf, it, UnsupervisedOPF, X[:n].copy(), np.array(it.labels), None if I is None else I[:n], "unsup", min_k=min_k, max_k=max_k)
            if msg:
                nviol += 1
                if nviol <= 3:
                    rep.violation("unsupervised k selection: " + msg, d, key="unsup_cut")
    bad, _ = corr_generic(rep, "correspondence Model/Knn.knn_select / cut_select vs KNNSupervisedOPF._learn / UnsupervisedOPF._best_minimum_cut (criterion values captured by wrapping opf_accuracy / _normalized_cut)", "C16", terms, expect, descs)
    rep.corr["k_selection"] = dict(cases=len(terms), disagreements=None if bad is None else len(bad), distribution=stats)
    import large_c16        # large-size streams: big validation sets with near-tied accuracies, long candidate ranges, max_k > 64
    nviol += large_c16.run(rep, tier, seed)
    rep.extra["oracle_violations"] = nviol
    rep.samples = [dict((k, v) for k, v in d.items() if k not in ("X", "D")) for d in descs[:3]]
    rep.rule = "labeled sample sets as in C12; KNN-supervised with max_k 1..5 on a train/validation split, unsupervised with min_k 1..2 <= max_k <= 5; non-trivial = the criterion takes at least two different values over the candidates"
    rep.assumptions = ASSUME
    import knnfull          # correspondence stream "whole fit": the complete fit() of both models against Model/KnnLearn.v
    knnfull.whole_fit_stream(rep, tier, seed)
    return rep.finish()
