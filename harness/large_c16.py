"""C16, large-size streams (k selection on inputs far above the sizes of the bulk stream).

(a) KNN-supervised fits with LARGE validation sets (hundreds to > 100 000 rows, few training rows) built so that the
    validation accuracies of the candidates are distinct but very close (relative differences from about 1e-4 down to a
    few 1e-10), in both directions (the better candidate first / the better candidate last), and exactly tied.
    Construction: a small class-structured training set; a *probe* fit on ~60 query points gives, for every candidate k, the
    label that candidate assigns to each point (captured from the arguments of opf_accuracy). The validation set is a
    multiset of those points: "filler" rows every candidate of interest gets right (they set the class sizes), x rows that
    only candidate a gets wrong and y rows that only candidate b gets wrong. With the class sizes n_A ~ t*y, n_B ~ t*x and
    x*n_A - y*n_B = +-1 the two accuracies differ by about 1/(K*n_A*n_B) (exact rational arithmetic picks the sizes for
    the requested gap and sign). Variants: 2..12 classes, 0-/1-based and sparse label values (absent classes enlarge
    the K = max label + 1 of opf_accuracy), 1..130 features, max_k above 64, rows wrong for every candidate.
    Judged by the rule of the bulk stream: best_k = smallest arg-max of the accuracies the library itself computed; the
    fitted model = a fresh build with that k. Two more oracles on the same runs: every candidate's predictions for the rows
    of the large validation set equal its predictions for the same points in the small probe fit (batch versus small
    batch), and the library's accuracy equals the exact rational value of the formula on its own predictions.
(b) unsupervised fits on 100..400 samples with max_k up to 30..130: equal-sized well separated groups (exact zero cuts, early
    stop), groups plus background points (no zero: the whole candidate range is evaluated, many close cuts), groups plus one or
    two isolated points (the cut is the same whole number over a range of k: exactly tied candidates AT the minimum), patches of
    an integer grid and exact replicas of one group (tied distances, plateaus). Judged by the rule of the bulk stream (smallest k
    with the lowest cut among those evaluated, stop after an exact 0, final clustering = fresh build with that k).
(c) max_k above 64 (thorough: above 128) once for each model.
The selections of all these fits also go through Model/Knn.knn_select / cut_select (Coq), and whole_fit_cases() hands a few designed
cases with 150..350 validation rows to the whole-fit correspondence of knnfull (accuracies computed by the model in PrimFloat).

A case is a pure function of (spec, case_seed) and the library. The cases with long candidate ranges (seconds each: the library's
neighbour search is quadratic in Python) run in two more interpreters next to this one; results are merged in job order.

Every case is rebuilt exactly by build_knn_case(spec, case_seed) / build_unsup_case(spec, case_seed); the replay of a
violation holds spec and case_seed, and for (a) also the training set and the validation set in closed form (distinct rows
with label and multiplicity, seed of the row permutation)."""
import hashlib
import json
import math
import os
import random
import sys
from fractions import Fraction

from knncommon import *  # noqa

KNN_METRICS = ["log_squared_euclidean", "euclidean", "squared_euclidean", "manhattan", "chebyshev", "lorentzian", "log_euclidean",
               "average_euclidean", "canberra", "bray_curtis"]
UNSUP_METRICS = ["log_squared_euclidean", "euclidean", "squared_euclidean", "manhattan", "chebyshev"]
XY = [(1, 1), (1, 1), (1, 1), (1, 2), (2, 1), (2, 3), (3, 2), (1, 3), (3, 1)]


# ------------------------------------------------------------------------------------------ (a) KNN-supervised

def _capture_fit(Xtr, ytr, Xva, yva, metric, max_k):
    """KNNSupervisedOPF.fit with opf_accuracy wrapped: returns (model, accuracies, predictions per candidate, error)"""
    import opfython.math.general as g
    from opfython.models.knn_supervised import KNNSupervisedOPF
    orig = g.opf_accuracy
    accs, preds = [], []

    def wrapped(labels, p, _o=orig):
        v = _o(labels, p)
        accs.append(float(v)); preds.append(np.asarray(p).astype(np.int64))
        return v
    opf = KNNSupervisedOPF(max_k=max_k, distance=metric)
    g.opf_accuracy = wrapped
    err = None
    try:
        opf.fit(Xtr.copy(), ytr.copy(), Xva.copy(), yva.copy())
    except Exception as ex:      # noqa
        err = repr(ex)
    finally:
        g.opf_accuracy = orig
    return opf, accs, preds, err


def exact_accuracies(groups, pat, max_k, K):
    """opf_accuracy in exact rational arithmetic for every candidate; groups = [(point, label, multiplicity)],
    pat[point][k] = label candidate k+1 gives to the point"""
    n, N = {}, 0
    for (_, L, m) in groups:
        n[L] = n.get(L, 0) + m; N += m
    out = []
    for k in range(max_k):
        FP, FN = {}, {}
        for (j, L, m) in groups:
            p = pat[j][k]
            if p != L:
                FP[p] = FP.get(p, 0) + m; FN[L] = FN.get(L, 0) + m
        s = Fraction(0)
        for c_, v in FP.items():
            s += Fraction(v, N - n.get(c_, 0))
        for c_, v in FN.items():
            s += Fraction(v, n[c_])
        out.append(1 - s / (2 * K))
    return out


def exact_accuracy_of(yva, p, K):
    """the formula of opf_accuracy, exactly, on a label vector and a prediction vector"""
    mism = yva != p
    N = len(yva)
    cnt = np.bincount(yva, minlength=K)
    FP = np.bincount(p[mism], minlength=K)
    FN = np.bincount(yva[mism], minlength=K)
    s = Fraction(0)
    for c_ in range(K):
        if FP[c_]:
            s += Fraction(int(FP[c_]), int(N - cnt[c_]))
        if FN[c_]:
            s += Fraction(int(FN[c_]), int(cnt[c_]))
    return 1 - s / (2 * K)


def expand_groups(points, groups, perm_seed):
    """the validation arrays: group g contributes `multiplicity` copies of its point; rows permuted by perm_seed"""
    gi = np.repeat(np.arange(len(groups)), [m for (_, _, m) in groups])
    gi = gi[np.random.RandomState(perm_seed).permutation(len(gi))]
    pj = np.array([j for (j, _, _) in groups], dtype=np.int64)[gi]
    yva = np.array([L for (_, L, _) in groups], dtype=np.int64)[gi]
    return np.asarray(points, dtype=float)[pj], yva, pj


def build_knn_case(spec, case_seed):
    """-> dict describing one fit (or None when no candidate pair can be told apart on 40 training sets in a row)"""
    rng = random.Random(case_seed)
    ncls, base, stride = spec["ncls"], spec["base"], spec["stride"]
    ntr, dim, max_k, metric = spec["ntr"], spec["dim"], spec["max_k"], spec["metric"]
    lab_of = [base + stride * c_ for c_ in range(ncls)]
    K = lab_of[-1] + 1
    if spec.get("plain"):
        # no designed near-tie (a probe fit would double the cost of a long candidate range): a small blob-structured validation set,
        # few rows -> few distinct accuracy values -> many exactly tied candidates
        cen = [[rng.uniform(3.0, 7.0) for _ in range(dim)] for _ in range(ncls)]
        cl = list(range(ncls)) + [rng.randrange(ncls) for _ in range(ntr - ncls)]
        rng.shuffle(cl)
        sd = rng.choice([0.8, 1.2, 1.8])
        Xtr = [[abs(cen[c_][t] + rng.gauss(0, sd)) + 0.05 for t in range(dim)] for c_ in cl]
        m = spec["plain_rows"]
        P = [[abs(cen[i % ncls][t] + rng.gauss(0, 1.3 * sd)) + 0.05 for t in range(dim)] for i in range(m)]
        groups = [(i, lab_of[i % ncls] if rng.random() > 0.1 else rng.choice(lab_of), 1) for i in range(m)]
        for c_ in range(ncls):
            groups[c_] = (c_, lab_of[c_], 1)
        return dict(Xtr=Xtr, ytr=[lab_of[c_] for c_ in cl], metric=metric, max_k=max_k, K=K, P=P, pat=None, a=None, b=None, groups=groups, exact=[],
                    perm_seed=rng.getrandbits(31))
    for attempt in range(40):
        # class blobs that overlap (the candidates must disagree somewhere); all coordinates positive (any metric applies)
        cen = [[rng.uniform(3.0, 7.0) for _ in range(dim)] for _ in range(ncls)]
        cl = list(range(ncls)) + [rng.randrange(ncls) for _ in range(ntr - ncls)]
        rng.shuffle(cl)
        sd = rng.choice([0.8, 1.2, 1.8])
        Xtr = [[abs(cen[c_][t] + rng.gauss(0, sd)) + 0.05 for t in range(dim)] for c_ in cl]
        ytr = [lab_of[c_] for c_ in cl]
        # probe points: around the training rows, between rows of different classes, around the class centres
        P = []
        for r in Xtr:
            P.append([v + rng.gauss(0, 0.02) for v in r])
        for _ in range(spec.get("probes", 40)):
            u = rng.random()
            if u < 0.5:
                a_, b_ = rng.sample(range(ntr), 2)
                w = rng.uniform(0.3, 0.7)
                P.append([w * p + (1 - w) * q + rng.gauss(0, 0.05) for p, q in zip(Xtr[a_], Xtr[b_])])
            else:
                c_ = rng.randrange(ncls)
                P.append([cen[c_][t] + rng.gauss(0, 1.5 * sd) for t in range(dim)])
        P = [[abs(v) + 0.05 for v in r] for r in P]
        yP = [lab_of[i % ncls] for i in range(len(P))]
        _, paccs, ppreds, err = _capture_fit(np.array(Xtr), np.array(ytr), np.array(P), np.array(yP), metric, max_k)
        if err or len(ppreds) != max_k:
            continue
        pat = [tuple(int(ppreds[k][j]) for k in range(max_k)) for j in range(len(P))]
        if any(v not in lab_of for t in pat for v in t):
            continue
        disc = [(j, a, b) for j in range(len(P)) for a in range(max_k) for b in range(a + 1, max_k) if pat[j][a] != pat[j][b]]
        rng.shuffle(disc)
        for (qd, a, b) in disc[:40]:
            A, B = pat[qd][a], pat[qd][b]
            const = lambda L: [j for j in range(len(P)) if all(v == L for v in pat[j])]
            both = lambda L: [j for j in range(len(P)) if pat[j][a] == L and pat[j][b] == L]
            fA, fB = const(A) or both(A), const(B) or both(B)
            if not fA or not fB:
                continue
            fA, fB = rng.choice(fA), rng.choice(fB)
            others = []
            for L in lab_of:
                if L in (A, B):
                    continue
                cand = const(L) or both(L) or [j for j in range(len(P)) if pat[j][a] == pat[j][b]]
                others.append((rng.choice(cand), L, rng.randint(3, 40) if spec.get("others", "small") == "small" else None))
            c = _size_knn_case(spec, rng, dict(Xtr=Xtr, ytr=ytr, metric=metric, max_k=max_k, K=K, P=P, pat=pat, qd=qd, a=a, b=b, A=A, B=B,
                                               fA=fA, fB=fB, others=others, attempt=attempt))
            if c is not None:
                return c
    return None


def _size_knn_case(spec, rng, c):
    pat, a, b, A, B, K, max_k = c["pat"], c["a"], c["b"], c["A"], c["B"], c["K"], c["max_k"]
    direction, delta = spec["direction"], spec.get("gap")
    if direction == "tie":
        x = y = rng.randint(1, 3)
        zAB = zBA = rng.randint(0, 3)
    else:
        x, y = rng.choice(XY)
        zAB, zBA = rng.randint(0, 4), rng.randint(0, 4)
    if spec.get("noise", True) is False:
        zAB = zBA = 0
    cap = spec["cap_rows"]

    def groups_for(nA, nB, nO):
        g_ = [(c["qd"], A, y), (c["qd"], B, x), (c["fA"], A, nA - y - zBA), (c["fB"], B, nB - x - zAB)]
        if zAB:
            g_.append((c["fA"], B, zAB))        # rows every candidate gets wrong (a copy of an A-point labeled B) ...
        if zBA:
            g_.append((c["fB"], A, zBA))        # ... and the other way round
        for (j, L, m) in c["others"]:
            g_.append((j, L, m if m is not None else nO))
        return [t for t in g_ if t[2] > 0]

    if direction == "tie":
        n = max(spec["tie_n"], x + zAB + 2)
        groups = groups_for(n, n, n)
    else:
        # two classes: acc_b - acc_a = (x*n_A - y*n_B) / (K*n_A*n_B); with n_A ~ t*y, n_B ~ t*x and numerator +-1 that is
        # 1/(K*x*y*t^2). More classes shift the balance point: for each n_B near t*x the n_A where the sign changes is found by
        # bisection on the exact value (acc_b - acc_a grows with n_A), and the sizes next to it are the candidates.
        t = max(3, int(round(1.0 / math.sqrt(delta * K * x * y))))
        nother = len(c["others"])
        per_t = (x + y) + (nother * max(x, y) if spec.get("others") == "balanced" else 0)
        t = max(3, min(t, cap // per_t))

        def gap_of(nA, nB):
            g_ = groups_for(nA, nB, t * max(x, y))
            ex_ = exact_accuracies(g_, pat, max_k, K)
            return ex_[b] - ex_[a], g_
        best = None
        for dB in range(-3, 4):
            nB = t * x + dB
            if nB - x - zAB < 1:
                continue
            lo, hi = y + zBA + 1, 4 * t * y + 400          # gap(lo) <= 0 < gap(hi) expected
            if gap_of(hi, nB)[0] <= 0 or gap_of(lo, nB)[0] > 0:
                continue
            while hi - lo > 1:
                mid = (lo + hi) // 2
                if gap_of(mid, nB)[0] > 0:
                    hi = mid
                else:
                    lo = mid
            for nA in range(max(y + zBA + 1, lo - 2), hi + 3):
                gap, g_ = gap_of(nA, nB)
                if gap == 0 or (gap > 0) != (direction == "last"):
                    continue
                ex_ = exact_accuracies(g_, pat, max_k, K)
                rel = abs(float(gap)) / float(max(ex_[a], ex_[b]))          # the requested gap is relative to the better accuracy
                score = abs(math.log(rel / delta)) + (50.0 if rel > spec.get("gap_max", 1.0) else 0.0)
                if best is None or score < best[0]:
                    best = (score, g_)
        if best is None:
            return None
        groups = best[1]
    ex = exact_accuracies(groups, pat, max_k, K)
    c.update(groups=groups, x=x, y=y, exact=ex, perm_seed=rng.getrandbits(31))
    return c


def knn_specs(rng, tier, first_rep=True):
    """the schedule: gap decades x direction, ties, dense and sparse label values, many classes, many features, max_k > 64"""
    def s(name, direction, gap=None, **kw):
        d = dict(name=name, direction=direction, gap=gap, ncls=rng.choice([2, 2, 3]), base=rng.choice([0, 1]), stride=1,
                 ntr=rng.randint(4, 7), dim=rng.randint(1, 3), max_k=rng.choice([2, 3]), metric=rng.choice(KNN_METRICS),
                 cap_rows=70000 if tier == "quick" else 170000, others="small")
        d.update(kw)
        d["max_k"] = min(d["max_k"], d["ntr"] - 1)
        return d
    out = []
    q = tier == "quick"
    flip = rng.randrange(2)
    for e_ in (4, 5, 6, 7, 8):
        # quick: one direction per decade (alternating, random phase); thorough: both
        for direction in (("last", "first")[(e_ + flip) % 2],) if q else ("last", "first"):
            out.append(s("ladder 1e-%d" % e_, direction, gap=rng.uniform(1.0, 3.0) * 10.0 ** -e_, **(dict(max_k=2, ntr=rng.randint(4, 5)) if q and e_ >= 8 else {})))
    # below 1e-9 (relative): dense labels (two classes + at most a small third one, 20 000+ rows per class), few training rows; both directions
    for direction in ("last", "first"):
        out.append(s("dense below 1e-9", direction, gap=rng.uniform(4e-10, 6e-10), gap_max=8e-10, ncls=rng.choice([2, 2, 3]), ntr=rng.randint(4, 5),
                     max_k=2 if q else rng.choice([2, 3]), dim=rng.randint(1, 2), base=1 if q else rng.choice([0, 1])))
    # sparse label values (classes absent from the data count in K = max label + 1): the same gaps with fewer rows
    for direction in (rng.choice(["last", "first"]),) if q else ("last", "first"):
        out.append(s("sparse labels 1e-10", direction, gap=rng.uniform(2e-10, 4e-10) if q else rng.uniform(1e-10, 3e-10), gap_max=8e-10, ncls=rng.choice([2, 3]),
                     stride=rng.choice([40, 101]) if q else rng.choice([17, 40, 101]), ntr=rng.randint(4, 6)))
    out.append(s("tie 1k", "tie", tie_n=rng.randint(400, 1300)))
    out.append(s("tie 5k", "tie", tie_n=rng.randint(2500, 6000), ncls=2, noise=rng.random() < 0.5))
    out.append(s("many classes", rng.choice(["last", "first"]), gap=rng.uniform(1.0, 9.0) * 1e-8, ncls=rng.randint(9, 14), ntr=rng.randint(26, 34), max_k=rng.randint(3, 4),
                 dim=rng.randint(2, 3), others=rng.choice(["small", "balanced"]), cap_rows=6000))
    out.append(s("many features", rng.choice(["last", "first"]), gap=rng.uniform(1.0, 9.0) * 1e-7, dim=rng.choice([65, 70, 129, 130]), ntr=rng.randint(5, 8),
                 metric=rng.choice(["euclidean", "manhattan", "log_squared_euclidean", "canberra", "bray_curtis"])))
    out.append(s("max_k above 64", "plain", plain=True, plain_rows=rng.randint(8, 12), ntr=rng.randint(66, 68), max_k=65, ncls=rng.choice([2, 3]), dim=2,
                 metric=rng.choice(["euclidean", "manhattan", "log_squared_euclidean"])))
    if tier != "quick":
        for direction in ("last", "first"):
            out.append(s("dense 1e-10", direction, gap=rng.uniform(1.0e-10, 2.5e-10), ncls=2, ntr=4, max_k=2, dim=1))
            out.append(s("balanced three classes below 1e-9", direction, gap=rng.uniform(4e-10, 6e-10), gap_max=8e-10, ncls=3, others="balanced", ntr=rng.randint(5, 7)))
        out.append(s("tie 40k", "tie", tie_n=rng.randint(30000, 45000), ncls=2, ntr=4, max_k=3))
        if first_rep:
            out.append(s("max_k above 128", "plain", plain=True, plain_rows=rng.randint(10, 16), ntr=rng.randint(131, 133), max_k=rng.randint(129, 130), ncls=2, dim=2, metric="euclidean"))
    return out


def eval_knn_case(spec, case_seed):
    """one case of stream (a): build, fit, judge. Pure function of (spec, case_seed) and the library; JSON-able result"""
    from knncheck import compare_final
    from opfython.models.knn_supervised import KNNSupervisedOPF
    res = dict(kind="knn", name=spec["name"], case_seed=case_seed, violations=[], counted=None, term=None, expect=None, desc=None, info={})
    info = res["info"]

    def viol(msg, d, key):
        res["violations"].append([msg, d, key])
    c = build_knn_case(spec, case_seed)
    if c is None:
        info["unbuildable"] = 1
        return res
    Xtr, ytr = np.array(c["Xtr"], dtype=float), np.array(c["ytr"], dtype=np.int64)
    Xva, yva, pj = expand_groups(c["P"], c["groups"], c["perm_seed"])
    max_k, K, pat = c["max_k"], c["K"], c["pat"]
    d = dict(kind="large_c16_knn", rebuild="large_c16.build_knn_case(spec, case_seed); validation arrays = large_c16.expand_groups(points, groups, perm_seed)",
             spec=spec, case_seed=case_seed, metric=c["metric"], max_k=max_k, X_train=c["Xtr"], Y_train=c["ytr"],
             validation_rows=len(yva), validation_groups=[dict(point=c["P"][j], label=L, multiplicity=m) for (j, L, m) in c["groups"]],
             perm_seed=c["perm_seed"], designed_pair=None if c["a"] is None else [c["a"] + 1, c["b"] + 1], exact_accuracies_designed=[str(v) for v in c["exact"]])
    opf, accs, preds, err = _capture_fit(Xtr, ytr, Xva, yva, c["metric"], max_k)
    d["accuracies"] = accs
    info.update(fit=1, rows=len(yva), max_k=max_k, features=spec["dim"], classes=spec["ncls"])
    res["counted"] = len(set(accs)) > 1
    if err:
        viol("KNNSupervisedOPF.fit on %d training and %d validation rows: %s" % (len(ytr), len(yva), err), d, "large:knn_learn")
        return res
    if len(accs) != max_k:
        viol("KNNSupervisedOPF.fit evaluated %d candidates, expected %d (%d validation rows)" % (len(accs), max_k, len(yva)), d, "large:knn_learn")
        return res
    if any(a_ != a_ for a_ in accs):
        info["skipped_error"] = 1
        return res
    got = int(opf.subgraph.best_k)
    rk = Ranker([0.0] + accs)
    res["term"] = "run_knn_select %d %s" % (rk.r(0.0), zlist([rk.r(a_) for a_ in accs]))
    res["expect"] = [got]
    res["desc"] = dict((k_, v) for k_, v in d.items() if k_ not in ("validation_groups",))
    srt = sorted(set(accs), reverse=True)
    if len(srt) > 1 and srt[0] > 0:
        info["relative_gap"] = (srt[0] - srt[1]) / srt[0]
    top = [i for i in range(max_k) if accs[i] == srt[0]]
    info["exact_tie"] = int(len(top) > 1)
    if len(srt) > 1:
        info["better_last" if top[0] > min(i for i in range(max_k) if accs[i] == srt[1]) else "better_first"] = 1
    # oracle 1 (the rule of the bulk stream): smallest arg-max of the library's own accuracies, fresh build with that k
    want = 1 + max(range(max_k), key=lambda i: (accs[i], -i))
    if got != want:
        second = max(a_ for a_ in accs if a_ < accs[want - 1]) if len(srt) > 1 else accs[want - 1]
        viol("%d validation rows, %d training rows, max_k=%d: best_k = %d with accuracy %r, but k = %d has accuracy %r (accuracies %r; smallest k with the "
             "highest accuracy is %d; it leads the next value by %.3g)" % (len(yva), len(ytr), max_k, got, accs[got - 1] if 1 <= got <= max_k else None, want, accs[want - 1],
                                                                          accs if max_k <= 8 else accs[:8] + ["..."], want, accs[want - 1] - second), d, "large:knn_learn")
        return res
    lite = KInst("large", c["Xtr"], None, len(ytr), 0, c["metric"], list(c["ytr"]))
    msg = compare_final(opf, lite, KNNSupervisedOPF, Xtr.copy(), ytr.copy(), None, "knn", max_k=max_k)
    if msg:
        viol("%d validation rows: %s" % (len(yva), msg), d, "large:knn_learn")
        return res
    # oracle 2: a candidate's label for a row of the large validation set = its label for the same point in the probe fit
    patarr = np.array(pat if pat is not None else [], dtype=np.int64)
    for k in range(max_k if pat is not None else 0):
        bad = np.nonzero(preds[k] != patarr[pj, k])[0]
        if len(bad):
            r = int(bad[0])
            viol("candidate k=%d: validation row %d of %d (a copy of probe point %d) is predicted %d inside the large fit, but %d when the same training set "
                 "is fitted with the %d probe points as validation set (%d rows differ)" % (k + 1, r, len(yva), int(pj[r]), int(preds[k][r]), int(patarr[pj[r], k]),
                                                                                            len(pat), len(bad)),
                 dict(d, row=r, point=c["P"][int(pj[r])]), "large:knn_candidate_predictions")
            break
    # oracle 3: the accuracy the selection used = exact value of the formula on the library's own predictions
    for k in (range(max_k) if max_k <= 8 else sorted({0, 1, want - 1, max_k - 2, max_k - 1})):
        exv = exact_accuracy_of(yva, preds[k], K)
        if abs(Fraction(accs[k]) - exv) > Fraction(1, 10 ** 12):
            viol("candidate k=%d on %d validation rows: opf_accuracy returned %r, the exact value of 1 - sum_c(FP_c/(N-N_c) + FN_c/N_c)/(2K) on the same "
                 "predictions is %.17g" % (k + 1, len(yva), accs[k], float(exv)), d, "large:knn_accuracy_value")
            break
    return res


# ------------------------------------------------------------------------------------------ (b) unsupervised

def build_unsup_case(spec, case_seed):
    """-> (X as list of rows, metric, min_k, max_k)"""
    rng = random.Random(case_seed)
    fam, G, s_, dim = spec["family"], spec["groups"], spec["group_size"], spec["dim"]
    X = []
    if fam in ("blobs", "blobs_noise", "bigk", "outliers"):
        sep = 14.0
        cells = rng.sample([(u, v) for u in range(6) for v in range(6)], G)
        for (u, v) in cells:
            cen = [sep * u, sep * v] + [sep * rng.randint(0, 3) for _ in range(dim - 2)]
            X += [[cen[t] + rng.gauss(0, 1.0) for t in range(dim)] for _ in range(s_)]
        if fam == "outliers":
            # one or two isolated far points on opposite sides of the groups (each nearer to every group than to the other one): each stays
            # a cluster of its own whose arcs all leave it - its term of the cut is exactly 1 - so once the groups are one cluster each
            # the cut is the same whole number for a range of k: exactly tied candidates at the minimum, and no zero cut
            for i in range(spec["outliers"]):
                X.append([35.0 + (-1) ** (i + 1) * rng.uniform(120.0, 200.0), 35.0 + rng.uniform(-5, 5)] + [rng.uniform(0, sep) for _ in range(dim - 2)])
        elif fam != "blobs":
            for _ in range(max(2, int(spec["noise"] * G * s_))):
                X.append([rng.uniform(-3.0, sep * 5 + 3.0) for _ in range(2)] + [sep * rng.uniform(0, 3) for _ in range(dim - 2)])
    elif fam == "grid":
        # G identical rectangular patches of an integer grid (a few cells left out), far apart: tied distances everywhere
        w = spec["width"]
        cells = [(u, v) for u in range(w) for v in range((s_ + w - 1) // w + 1)]
        keep = sorted(rng.sample(cells, s_))
        for g_ in range(G):
            X += [[float(u + 64 * g_), float(v + 64 * (g_ % 2))] for (u, v) in keep]
        if spec.get("far_point", True):
            X.append([-300.0, 3.0])        # its term of the cut is exactly 1: no zero cut, the whole candidate range is evaluated on the tied distances
    elif fam == "replica":
        # one random group (coordinates multiples of 1/64), copied G times by exact translations
        pts = set()
        while len(pts) < s_:
            pts.add(tuple(rng.randrange(0, 512) / 64.0 for _ in range(dim)))
        pts = sorted(pts); rng.shuffle(pts)
        for g_ in range(G):
            X += [[p[0] + 256.0 * g_] + list(p[1:]) for p in pts]
    if spec.get("shuffle", True):
        rng.shuffle(X)
    return X, spec["metric"], spec["min_k"], spec["max_k"]


def unsup_specs(rng, tier):
    q = tier == "quick"
    m = lambda: rng.choice(UNSUP_METRICS)
    G1 = rng.randint(4, 6)
    out = [
        dict(name="equal groups", family="blobs", groups=G1, group_size=(150 if q else 300) // G1 + rng.randint(0, 6), dim=rng.randint(2, 3), metric=m(), min_k=rng.randint(1, 3), max_k=rng.randint(30, 44)),
        dict(name="groups + background", family="blobs_noise", groups=3, group_size=rng.randint(44, 52) if q else rng.randint(90, 110), noise=rng.choice([0.06, 0.1]), dim=2, metric=m(), min_k=rng.randint(1, 4),
             max_k=rng.randint(30, 40) if q else rng.randint(40, 60)),
        dict(name="groups + isolated points", family="outliers", groups=3, group_size=rng.randint(36, 46) if q else rng.randint(60, 90), outliers=rng.randint(1, 2), dim=rng.randint(2, 3), metric=m(),
             min_k=rng.randint(1, 3), max_k=rng.randint(30, 40) if q else rng.randint(50, 100)),
        dict(name="integer grid patches", family="grid", groups=rng.randint(2, 3) if q else rng.randint(3, 5), group_size=rng.randint(36, 48) if q else rng.randint(40, 52), width=rng.randint(5, 8), dim=2, metric=rng.choice(["manhattan", "euclidean", "squared_euclidean", "chebyshev"]),
             min_k=rng.randint(1, 4), max_k=rng.randint(30, 40), shuffle=rng.random() < 0.5, far_point=rng.random() < 0.8),
        dict(name="max_k above 64", family="bigk", groups=2, group_size=rng.randint(45, 52), noise=0.1, dim=2, metric=m(), min_k=rng.randint(1, 3), max_k=rng.randint(65, 72)),
    ]
    if not q:
        out += [
            dict(name="exact replicas", family="replica", groups=rng.randint(3, 4), group_size=rng.randint(45, 56), dim=2, metric=m(), min_k=rng.randint(1, 3), max_k=rng.randint(30, 40), shuffle=rng.random() < 0.5),
            dict(name="400 samples", family="blobs_noise", groups=8, group_size=rng.randint(46, 49), noise=0.04, dim=2, metric=m(), min_k=1, max_k=rng.randint(50, 60)),
            dict(name="max_k above 128", family="bigk", groups=2, group_size=rng.randint(80, 90), noise=0.08, dim=2, metric=m(), min_k=rng.randint(1, 3), max_k=rng.randint(129, 135)),
            dict(name="unequal groups", family="blobs_noise", groups=5, group_size=rng.randint(40, 60), noise=0.3, dim=3, metric=m(), min_k=2, max_k=rng.randint(40, 60)),
        ]
    return out


def eval_unsup_case(spec, case_seed):
    """one case of stream (b): build, fit, judge. Pure function of (spec, case_seed) and the library; JSON-able result"""
    from knncheck import compare_final
    from opfython.models.unsupervised import UnsupervisedOPF
    res = dict(kind="unsup", name=spec["name"], case_seed=case_seed, violations=[], counted=None, term=None, expect=None, desc=None, info={})
    info = res["info"]

    def viol(msg, d, key):
        res["violations"].append([msg, d, key])
    Xl, metric, min_k, max_k = build_unsup_case(spec, case_seed)
    X = np.array(Xl, dtype=float)
    n = len(Xl)
    d = dict(kind="large_c16_unsup", rebuild="X, metric, min_k, max_k = large_c16.build_unsup_case(spec, case_seed)", spec=spec, case_seed=case_seed,
             n=n, X_sha1=hashlib.sha1(X.tobytes()).hexdigest(), X_first_rows=Xl[:3])
    if n <= 100:
        d["X"] = Xl
    opf = UnsupervisedOPF(min_k=min_k, max_k=max_k, distance=metric)
    cuts, clus_k = [], []
    orig_cut, orig_cl = opf._normalized_cut, opf._clustering

    def wcut(k, _o=orig_cut):
        v = _o(k); cuts.append(float(v)); return v

    def wcl(k, _o=orig_cl):
        clus_k.append(int(k)); return _o(k)
    opf._normalized_cut, opf._clustering = wcut, wcl
    Y = np.zeros(n, dtype=np.int64)
    try:
        with np.errstate(all="ignore"):
            opf.fit(X.copy(), Y.copy())
        err = None
    except Exception as ex:      # noqa
        err = repr(ex)
    opf.__dict__.pop("_normalized_cut", None); opf.__dict__.pop("_clustering", None)
    d["cuts"] = cuts
    if any(c_ != c_ for c_ in cuts) or (not err and any(float(nd.density) != float(nd.density) for nd in opf.subgraph.nodes)):
        info["skipped_nan"] = 1
        return res
    info.update(fit=1, samples=n, max_k=max_k, evaluated=len(cuts))
    res["counted"] = len(set(cuts)) > 1
    if err:
        viol("UnsupervisedOPF.fit on %d samples, k in %d..%d: %s" % (n, min_k, max_k, err), d, "large:unsup_cut")
        return res
    if not cuts:
        viol("UnsupervisedOPF.fit on %d samples evaluated no candidate" % n, d, "large:unsup_cut")
        return res
    got = int(opf.subgraph.best_k)
    rk = Ranker([0.0, FLOAT_MAX] + cuts)
    padded = cuts + [cuts[-1]] * (max_k - min_k + 1 - len(cuts))
    res["term"] = "run_cut_select %d %d %d %s" % (rk.r(0.0), rk.r(FLOAT_MAX), min_k, zlist([rk.r(c_) for c_ in padded]))
    res["expect"] = [got, len(cuts)]
    res["desc"] = d
    info["zero_cut_stop"] = int(len(cuts) < max_k - min_k + 1)
    info["equal_cuts"] = len(cuts) - len(set(cuts))
    srt = sorted(set(cuts))
    rels = [(v - u) / v for u, v in zip(srt, srt[1:])]
    if rels:
        info["relative_gap"] = min(rels)
    want = min_k + min(range(len(cuts)), key=lambda i: (cuts[i], i))
    info["best_k"] = got
    d["best_k"], d["smallest_k_with_lowest_cut"] = got, want
    head = "%d samples (%s), k in %d..%d, %d candidates evaluated: " % (n, spec["name"], min_k, max_k, len(cuts))
    show = lambda i: "cuts around it: %r" % dict((min_k + t, cuts[t]) for t in range(max(0, i - 2), min(len(cuts), i + 3)))
    msg = None
    if got != want:
        msg = "best_k = %d%s, the smallest k with the lowest cut is %d (cut %r); %s" % (
            got, " (cut %r)" % cuts[got - min_k] if 0 <= got - min_k < len(cuts) else "", want, cuts[want - min_k], show(want - min_k))
    elif not all(c_ != 0.0 for c_ in cuts[:-1]):
        msg = "a candidate was evaluated after a cut of exactly 0 (at k=%d)" % (min_k + cuts.index(0.0))
    elif len(cuts) < max_k - min_k + 1 and cuts[-1] != 0.0:
        msg = "evaluation stopped after k=%d without a zero cut (last cut %r)" % (min_k + len(cuts) - 1, cuts[-1])
    elif clus_k[-1] != want or len(opf.subgraph.nodes[0].adjacency) < want:
        msg = "final clustering used k=%r, best_k=%d" % (clus_k[-1], want)
    else:
        lite = KInst("large", Xl, None, n, 0, metric, [0] * n)
        msg = compare_final(opf, lite, UnsupervisedOPF, X.copy(), Y.copy(), None, "unsup", min_k=min_k, max_k=max_k)
    if msg:
        viol("unsupervised k selection, " + head + msg, d, "large:unsup_cut")
    return res


# ------------------------------------------------------------------------------------------ whole-fit correspondence (knnfull)

def whole_fit_cases(rng, tier):
    """a few designed KNN-supervised cases with 150..350 validation rows for the whole-fit stream of knnfull: Model/KnnLearn.knn_sup_fit computes
    the near-tied accuracies itself in PrimFloat (errors counted over all the rows) and selects; compared bit for bit"""
    import opfython.math.distance as dmod
    from opfython.models.knn_supervised import KNNSupervisedOPF

    class Case:
        pass
    out = []
    for i in range(2 if tier == "quick" else 8):
        direction = ("last", "first", "tie")[i % 3] if tier != "quick" else ("last", "first")[i]
        spec = dict(name="whole fit, near-tied accuracies", direction=direction, gap=rng.uniform(2.0, 6.0) * 1e-5, tie_n=rng.randint(100, 160), ncls=rng.choice([2, 3]), base=rng.choice([0, 1]),
                    stride=1, ntr=rng.randint(4, 6), dim=rng.randint(1, 3), max_k=rng.choice([2, 3]), metric=rng.choice(KNN_METRICS), cap_rows=350, others="small")
        case_seed = rng.getrandbits(48)
        c = build_knn_case(spec, case_seed)
        if c is None:
            continue
        Xtr, ytr = np.array(c["Xtr"], dtype=float), np.array(c["ytr"], dtype=np.int64)
        Xva, yva, _ = expand_groups(c["P"], c["groups"], c["perm_seed"])
        fn = dmod.DISTANCES[c["metric"]]
        k = Case()
        k.labels, k.vlabels, k.max_k = [int(v) for v in ytr], [int(v) for v in yva], c["max_k"]
        k.D = [[float(fn(Xtr[a_], Xtr[b_])) for b_ in range(len(ytr))] for a_ in range(len(ytr))]
        rows = {}
        for (j, _, _) in c["groups"]:
            rows[j] = [float(fn(np.array(c["P"][j], dtype=float), Xtr[b_])) for b_ in range(len(ytr))]
        _, _, pj = expand_groups(c["P"], c["groups"], c["perm_seed"])
        k.Dq = [rows[int(j)] for j in pj]
        k.desc = dict(kind="large_c16_knn", rebuild="large_c16.build_knn_case(spec, case_seed); validation arrays = large_c16.expand_groups(points, groups, perm_seed)",
                      spec=spec, case_seed=case_seed, metric=c["metric"], max_k=c["max_k"], X_train=c["Xtr"], Y_train=c["ytr"], validation_rows=len(yva),
                      validation_groups=[dict(point=c["P"][j], label=L, multiplicity=m) for (j, L, m) in c["groups"]], perm_seed=c["perm_seed"])

        def run(c=c, Xtr=Xtr, ytr=ytr, Xva=Xva, yva=yva):
            opf = KNNSupervisedOPF(max_k=c["max_k"], distance=c["metric"])
            opf.fit(Xtr.copy(), ytr.copy(), Xva.copy(), yva.copy())
            return opf
        k.run = run
        out.append(k)
    return out


# ------------------------------------------------------------------------------------------ driver

def eval_job(job):
    kind, spec, case_seed = job
    return eval_knn_case(spec, case_seed) if kind == "knn" else eval_unsup_case(spec, case_seed)


def _jsonable(o):
    if hasattr(o, "item"):
        return o.item()
    if hasattr(o, "tolist"):
        return o.tolist()
    return str(o)


def _start_worker(jobs, tag):
    """the slow cases (long candidate ranges) run in a second interpreter next to this one; cases are pure functions of (spec, seed)"""
    import subprocess
    d = os.path.join(BUILD, "large_c16")
    os.makedirs(d, exist_ok=True)
    fin, fout = os.path.join(d, "jobs_%s.json" % tag), os.path.join(d, "results_%s.json" % tag)
    if os.path.exists(fout):
        os.unlink(fout)
    json.dump(jobs, open(fin, "w"))
    p = subprocess.Popen([sys.executable, os.path.abspath(__file__), "worker", fin, fout], stdout=subprocess.DEVNULL, stderr=subprocess.DEVNULL)
    return p, fout


def _collect(worker, jobs):
    p, fout = worker
    try:
        p.wait(timeout=3000)
        res = json.load(open(fout))
        assert len(res) == len(jobs)
        return res, True
    except Exception:      # noqa
        try:
            p.kill()
        except Exception:      # noqa
            pass
        return [eval_job(j) for j in jobs], False       # no second interpreter: the same cases, here


def run(rep, tier, seed):
    """hook of knncheck.main_c16; returns the number of violations of the large-size streams"""
    from knncheck import corr_generic
    rng = random.Random(seed * 1000003 + 1616)
    reps = 1 if tier == "quick" else 3
    jobs = []
    for r_ in range(reps):
        jobs += [["knn", spec, rng.getrandbits(48)] for spec in knn_specs(rng, tier, r_ == 0)]
        jobs += [["unsup", spec, rng.getrandbits(48)] for spec in unsup_specs(rng, tier)]
    # three shares: the gap ladder and the dense cases of the KNN-supervised model here; its long candidate range and the smaller designed
    # cases in a second interpreter, the unsupervised cases in a third (results are merged in job order, so the outcome does not depend on the scheduling)
    light = ("many classes", "tie ")
    share = lambda j: 2 if j[0] == "unsup" else 1 if (j[1].get("plain") or j[1]["name"].startswith(light)) else 0
    parts = [[j for j in jobs if share(j) == t] for t in range(3)]
    workers = [_start_worker(parts[t], str(t)) if parts[t] else None for t in (1, 2)]
    results = {0: [eval_job(j) for j in parts[0]]}
    separate = []
    for t in (1, 2):
        results[t], ok = _collect(workers[t - 1], parts[t]) if workers[t - 1] else ([], True)
        separate.append(ok)
    pos = [0, 0, 0]
    ordered = []
    for j in jobs:
        t = share(j)
        ordered.append(results[t][pos[t]]); pos[t] += 1
    ks = dict(fits=0, rows=0, max_rows=0, unbuildable=0, skipped_error=0, exact_ties=0, better_last=0, better_first=0, closest_relative_gap=None,
              relative_gaps=[], max_k_max=0, features_max=0, classes_max=0)
    us = dict(fits=0, samples_max=0, max_k_max=0, candidates_evaluated=0, zero_cut_stops=0, full_range=0, skipped_nan=0, fits_with_equal_cuts=0,
              closest_relative_gap=None, best_k=[])
    terms, expect, descs = [], [], []
    shown, nviol = {}, 0
    for r in ordered:
        i = r["info"]
        if r["counted"] is not None:
            rep.count_case(("large", r["kind"], r["case_seed"], r["name"]), r["counted"])
        for (msg, d, key) in r["violations"]:
            nviol += 1
            shown[key] = shown.get(key, 0) + 1
            if shown[key] <= 3:
                rep.violation(msg, d, key=key)
        if r["term"]:
            terms.append(r["term"]); expect.append(r["expect"]); descs.append(r["desc"])
        st = ks if r["kind"] == "knn" else us
        g_ = i.get("relative_gap")
        if g_ is not None and (st["closest_relative_gap"] is None or g_ < st["closest_relative_gap"]):
            st["closest_relative_gap"] = g_
        st["fits"] += i.get("fit", 0)
        st["max_k_max"] = max(st["max_k_max"], i.get("max_k", 0))
        if r["kind"] == "knn":
            ks["rows"] += i.get("rows", 0); ks["max_rows"] = max(ks["max_rows"], i.get("rows", 0))
            ks["features_max"] = max(ks["features_max"], i.get("features", 0)); ks["classes_max"] = max(ks["classes_max"], i.get("classes", 0))
            for f_, t_ in (("unbuildable", "unbuildable"), ("skipped_error", "skipped_error"), ("exact_tie", "exact_ties"), ("better_last", "better_last"), ("better_first", "better_first")):
                ks[t_] += i.get(f_, 0)
            if g_ is not None:
                ks["relative_gaps"].append(float("%.3g" % g_))
        else:
            us["samples_max"] = max(us["samples_max"], i.get("samples", 0)); us["candidates_evaluated"] += i.get("evaluated", 0)
            us["skipped_nan"] += i.get("skipped_nan", 0)
            if "zero_cut_stop" in i:
                us["zero_cut_stops"] += i["zero_cut_stop"]; us["full_range"] += 1 - i["zero_cut_stop"]
                us["fits_with_equal_cuts"] += i["equal_cuts"] > 0; us["best_k"].append(i["best_k"])
    ks["relative_gaps"].sort()
    bad, _ = corr_generic(rep, "correspondence Model/Knn.knn_select / cut_select vs the selections of the large-size streams (validation sets up to %d rows with "
                          "near-tied accuracies; up to %d samples with up to %d candidates)" % (ks["max_rows"], us["samples_max"], us["max_k_max"]),
                          "C16large", terms, expect, descs)
    rep.corr["k_selection_large"] = dict(cases=len(terms), disagreements=None if bad is None else len(bad), knn_supervised=ks, unsupervised=us,
                                         second_interpreters_used=separate)
    return nviol


if __name__ == "__main__" and len(sys.argv) == 4 and sys.argv[1] == "worker":
    setup_impl_env()
    out = [eval_job(j) for j in json.load(open(sys.argv[2]))]
    json.dump(out, open(sys.argv[3] + ".tmp", "w"), default=_jsonable)
    os.replace(sys.argv[3] + ".tmp", sys.argv[3])
