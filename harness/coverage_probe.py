"""Which lines of the library do the correspondence streams execute?  (informational; DESIGN.md section 4.3)

usage: bin/coverage_probe [tier]   -> build/coverage.json + a table on stdout
Runs the main() of every property check under sys.settrace restricted to files of the opfython package and reports,
per source file, the executable lines no check reached.  numba-compiled bodies (math/distance.py, decorated with @njit)
execute outside the interpreter: for them a line counts as reached when the function was called at all."""
import ast
import importlib
import json
import os
import sys
import threading

REPO = os.environ.get("VERIF_REPO", "/repo")
PKG = os.path.join(REPO, "opfython") + os.sep
hits = {}


def tracer(frame, event, arg):
    fn = frame.f_code.co_filename
    if not fn.startswith(PKG):
        return None
    if event in ("call", "line"):
        hits.setdefault(fn, set()).add(frame.f_lineno)
    return tracer


def executable_lines(path):
    """line numbers of statements (docstrings excluded), and for each njit function its (def line, body lines)"""
    src = open(path).read()
    tree = ast.parse(src)
    lines, njit = set(), []
    for node in ast.walk(tree):
        if isinstance(node, ast.stmt):
            if isinstance(node, ast.Expr) and isinstance(node.value, ast.Constant) and isinstance(node.value.value, str):
                continue
            lines.add(node.lineno)
        if isinstance(node, ast.FunctionDef):
            if any("njit" in ast.unparse(d) for d in node.decorator_list):
                body = {n.lineno for s in node.body for n in ast.walk(s) if isinstance(n, ast.stmt)
                        and not (isinstance(n, ast.Expr) and isinstance(n.value, ast.Constant))}
                njit.append((node.name, node.lineno, body))
    return lines, njit


def main():
    tier = sys.argv[1] if len(sys.argv) > 1 else "quick"
    os.environ.setdefault("VERIF_EVIDENCE_DIR", os.path.join(os.path.dirname(__file__), "..", "build", "evidence_scratch"))
    seed = int(os.environ.get("VERIF_SEED", "20260930"))
    called_njit = set()
    import opfython.math.distance as dist
    # wrap the registry entries to learn which compiled metrics were called
    for k, f in list(dist.DISTANCES.items()):
        pass
    sys.settrace(tracer); threading.settrace(tracer)
    rcs = {}
    for i in range(1, 21):
        pid = "c%02d" % i
        mod = importlib.import_module(pid)
        try:
            rcs[pid] = mod.main(tier, seed)
        except SystemExit as ex:
            rcs[pid] = ex.code
    sys.settrace(None)
    out, total, reached = {}, 0, 0
    for root, _, files in os.walk(PKG):
        for f in sorted(files):
            if not f.endswith(".py"):
                continue
            p = os.path.join(root, f)
            lines, njit = executable_lines(p)
            h = hits.get(p, set())
            # numba: compiled functions expose call counts through their signatures
            mod_name = p[len(REPO) + 1:-3].replace(os.sep, ".")
            for name, defline, body in njit:
                try:
                    fn = getattr(importlib.import_module(mod_name), name)
                    inner = getattr(fn, "__wrapped__", fn)
                    sigs = getattr(inner, "signatures", None) or getattr(fn, "signatures", None)
                    if sigs:
                        h |= body | {defline}
                except Exception:
                    pass
            miss = sorted(lines - h)
            total += len(lines); reached += len(lines) - len(miss)
            out[p[len(REPO) + 1:]] = dict(executable=len(lines), missed=miss)
    json.dump(dict(tier=tier, exit_codes=rcs, files=out, total=total, reached=reached), open(os.path.join(os.path.dirname(__file__), "..", "build", "coverage.json"), "w"), indent=1)
    print("library statements reached by the checks: %d / %d" % (reached, total))
    for k, v in sorted(out.items()):
        if v["missed"]:
            print("  %-40s %3d/%3d missed lines %s" % (k, len(v["missed"]), v["executable"], v["missed"][:40]))
    return 0


if __name__ == "__main__":
    sys.exit(main())
