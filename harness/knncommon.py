"""Shared generators, implementation runners and oracles for the KNN family (C12, C13, C14, C16, C09-knn, C04-knn)."""
import random
import sys

import numpy as np

from common import *  # noqa
from supcommon import PLAIN_METRICS, POS_METRICS, metric_matrix, gen_matrix, gen_labels, embed_matrix

FLOAT_MAX = sys.float_info.max
MAXD = 1000


class KInst:
    """N points; the first n are training samples, then m queries. D[a][b] = d(point a, point b)."""

    def __init__(self, kind, X, D, n, m=0, metric=None, labels=None):
        self.kind, self.X, self.D, self.n, self.m, self.metric = kind, X, D, n, m, metric
        self.labels = labels if labels is not None else [0] * n

    def key(self):
        return (self.kind, self.metric, self.n, self.m, tuple(self.labels), tuple(map(tuple, self.D)))

    def desc(self):
        return dict(kind=self.kind, metric=self.metric, n=self.n, m=self.m, labels=self.labels,
                    X=None if self.X is None else [list(map(float, r)) for r in self.X],
                    D=None if self.X is not None else [list(map(float, r)) for r in self.D])


def gen_kinst(rng, nmin=2, nmax=10, m=0, labelled=False, kinds=("feat", "lattice", "dup", "mat", "jitter", "outlier", "micro", "mat", "asym", "flat")):
    kind = rng.choice(kinds)
    n = rng.randint(nmin, nmax)
    N = n + m
    labels = gen_labels(rng, n, 3) if labelled and n >= 2 else None
    if kind == "flat" and n >= 3:
        # every sample has the same neighbourhood geometry (regular polygon, or one distance for all pairs): all unmapped
        # densities are equal, the stored density range is exactly 0
        if rng.random() < 0.5:
            import math as _m
            X = [[_m.cos(2 * _m.pi * j / n), _m.sin(2 * _m.pi * j / n)] for j in range(n)] + [[rng.uniform(-1.5, 1.5), rng.uniform(-1.5, 1.5)] for _ in range(m)]
            D = metric_matrix("euclidean", X)
            D = [[(D[a][b] if (a >= n or b >= n) else round(D[a][b], 9)) for b in range(N)] for a in range(N)]
            return KInst("flat", None, D, n, m, None, labels)
        w_ = float(rng.randint(1, 5))
        D = [[0.0 if a == b else (w_ if (a < n and b < n) else float(rng.randint(1, 7))) for b in range(N)] for a in range(N)]
        for a in range(N):
            for b in range(a):
                D[a][b] = D[b][a]
        return KInst("flat", None, D, n, m, None, labels)
    if kind == "asym":
        # directed dissimilarities shipped by the library: d(a, b) != d(b, a); every arc of the k-NN graph is weighed FROM its owner
        metric = rng.choice(["neyman", "pearson", "kullback_leibler", "k_divergence"])
        dim = rng.randint(2, 4)
        X = [[rng.uniform(0.05, 5) for _ in range(dim)] for _ in range(N)]
        if metric in ("kullback_leibler", "k_divergence"):
            X = [[v / sum(r) for v in r] for r in X]
        D = metric_matrix(metric, X)
        if all(v == v for r in D for v in r):
            return KInst("asym", X, D, n, m, metric, labels)
        kind = "feat"
    if kind == "micro" and n >= 4:
        # a few samples 1e-22 .. 1e-30 apart (close, not duplicates) next to ordinary samples about 1 apart: arc weights, cuts
        # and density terms that are positive but far below EPSILON = 1e-20
        metric = rng.choice(["euclidean", "manhattan", "chebyshev"])
        dim = rng.randint(1, 2)
        sc = 10.0 ** rng.choice([-22, -25, -30])
        nm = rng.randint(2, min(3, n - 2))
        X = [[sc * rng.choice([0, 1, 3, 7]) if t == 0 else 0.0 for t in range(dim)] for _ in range(nm)]
        if len({tuple(r) for r in X}) < nm:
            X = [[sc * j if t == 0 else 0.0 for t in range(dim)] for j in range(nm)]
        if rng.random() < 0.6:
            # the ordinary samples form one tight group about 1 away (their nearest neighbours are each other)
            X += [[1.0 + rng.uniform(0, 0.08) if t == 0 else rng.uniform(0, 0.08) for t in range(dim)] for j in range(n - nm)]
        else:
            X += [[1.0 + 0.9 * j + rng.uniform(0, 0.05) if t == 0 else rng.uniform(0, 0.05) for t in range(dim)] for j in range(n - nm)]
        order = list(range(n)); rng.shuffle(order)
        X = [X[j] for j in order] + [[rng.choice([0.0, sc, 1.0, 2.5]) if t == 0 else 0.0 for t in range(dim)] for _ in range(m)]
        D = metric_matrix(metric, X)
        if all(v == v for r in D for v in r):
            return KInst("micro", X, D, n, m, metric, labels)
    if kind == "mat":
        k = rng.choice([1, 2, 3, 0])
        alphabet = [float(v) for v in rng.sample(range(1, 9), k)] if k else None
        if alphabet and rng.random() < 0.3:
            alphabet.append(0.0)
        if alphabet and rng.random() < 0.25:
            # all distances tiny: around the 1e-5 density-bound threshold and far below it
            alphabet = [v * 10.0 ** rng.choice([-4, -5, -6, -8, -12]) for v in alphabet]
        return KInst("mat", None, gen_matrix(rng, N, alphabet), n, m, None, labels)
    metric = rng.choice(PLAIN_METRICS + (POS_METRICS if (kind == "feat" or (kind == "lattice" and rng.random() < 0.4)) else []))
    if kind == "outlier":
        metric = rng.choice(["euclidean", "manhattan", "squared_euclidean", "chebyshev"])
    pos = metric in POS_METRICS
    dim = rng.randint(1, 3)
    for _ in range(50):
        if kind == "lattice":
            lo_ = 0 if pos else -2      # integer-coded features may be negative (-1 / -2 codes)
            X = [[float(rng.randint(lo_, 3)) for _ in range(dim)] for _ in range(N)]
        elif kind == "jitter":
            # near-duplicates: every distance is tiny but not zero
            sc = 10.0 ** rng.choice([-5, -6, -7, -9])
            base = [rng.random() * 10 for _ in range(dim)]
            X = [[b + sc * rng.uniform(-1, 1) for b in base] for _ in range(N)]
        elif kind == "dup":
            base = [[rng.random() * 10 for _ in range(dim)] for _ in range(max(1, N // 2))]
            X = [list(rng.choice(base)) for _ in range(N)]
        elif kind == "outlier":
            # ordinary points plus one very distant training sample: it stretches the density normalisation
            X = [[float(rng.randint(0, 9)) for _ in range(dim)] for _ in range(N)]
            X[rng.randrange(n)] = [10.0 ** rng.choice([3, 4, 5]) for _ in range(dim)]
        else:
            X = [[(rng.random() * 9 + 0.5) if pos else (rng.random() * 20 - 10) for _ in range(dim)] for _ in range(N)]
            if pos and dim >= 2 and rng.random() < 0.5:
                X = [[0.0 if rng.random() < 0.3 else v for v in r] for r in X]      # sparse non-negative rows
            for i in range(n, N):
                r_ = rng.random()
                if r_ < 0.35:
                    X[i] = list(X[rng.randrange(n)])
                elif r_ < 0.5:
                    # a query far away from every training sample (all exp(-d/constant) terms tiny or underflowing), at
                    # several distances: the k nearest are still determined by the distances
                    far = 10.0 ** rng.choice([1.5, 2, 3, 4, 6])
                    X[i] = [abs(v) * far + far if pos else v * far + rng.choice([-1, 1]) * far for v in X[i]]
        D = metric_matrix(metric, X)
        if all(v == v for r in D for v in r):
            return KInst(kind, X, D, n, m, metric, labels)
    return gen_kinst(rng, nmin, nmax, m, labelled, kinds=("mat",))


_KREUSE = {}
import drive as _kdrive
_KDRV = random.Random(20261002)


def make_knn_model(inst, cls, reuse=False, **kw):
    """reuse=True: the same model object is trained again (re-configured through its public attributes), as a caller
    running several experiments with one classifier object would do"""
    if inst.X is not None:
        if reuse and cls in _KREUSE and not _KREUSE[cls].pre_computed_distance:
            import opfython.math.distance as dmod
            opf = _KREUSE[cls]
            opf.distance = inst.metric
            opf.distance_fn = dmod.DISTANCES[inst.metric]
            for a, v in kw.items():
                if a == "max_k" and hasattr(opf, "min_k") and "min_k" in kw:
                    continue
                setattr(opf, a, v)
            if "min_k" in kw:           # keep min_k <= max_k valid at every step
                opf._min_k = kw["min_k"]; opf.max_k = kw["max_k"]
        else:
            opf = cls(distance=inst.metric, **kw)
            if reuse:
                _KREUSE[cls] = opf
        X = np.array(inst.X, dtype=float)
        _kdrive.poke_report(opf, _KDRV, 0.3, dict(inst.desc(), constructor_arguments=kw))
        return opf, X, None
    big, idx = embed_matrix(inst.D)
    if _KDRV.random() < 0.35:
        # the matrix through a file whose name recurs with other content (harness/drive.py)
        opf = cls(pre_computed_distance=_kdrive.matrix_file(big, _KDRV), **kw)
    else:
        opf = cls(**kw)
        opf.pre_computed_distance = True
        opf.pre_distances = big
    _kdrive.poke_report(opf, _KDRV, 0.3, dict(inst.desc(), constructor_arguments=kw))
    N = len(inst.D)
    return opf, np.zeros((N, 1)), idx


def new_subgraph(inst, labels=True):
    from opfython.subgraphs import KNNSubgraph
    n = inst.n
    if inst.X is not None:
        X = np.array(inst.X[:n], dtype=float)
        return KNNSubgraph(X, np.array(inst.labels) if labels else None)
    _, idx = embed_matrix(inst.D)
    return KNNSubgraph(np.zeros((n, 1)), np.array(inst.labels) if labels else None, idx[:n])


def arcs_args(inst):
    import opfython.math.distance as d
    if inst.X is not None:
        return (d.DISTANCES[inst.metric], False, None)
    return (d.DISTANCES["euclidean"], True, embed_matrix(inst.D)[0])


def adj_of(sg):
    return [[int(j) for j in nd.adjacency] for nd in sg.nodes]


def flat_adj(adj):
    out = []
    for l in adj:
        out.append(len(l)); out += l
    return out


# ----------------------------------------------------------------------------------------
# oracles

def oracle_arcs(D, n, k, adj, radius, gdens, maxd):
    """C12, arc creation on a fresh subgraph."""
    kk = min(k, n - 1)
    for i in range(n):
        a = adj[i]
        if len(a) != kk:
            return "sample %d has %d neighbours, expected min(k, n-1) = %d" % (i, len(a), kk)
        if len(set(a)) != len(a) or i in a or any(not (0 <= j < n) for j in a):
            return "neighbour list of %d is %r (duplicates / self / out of range)" % (i, a)
        ds = [D[i][j] for j in a]
        if any(ds[t] > ds[t + 1] for t in range(len(ds) - 1)):
            return "neighbour distances of %d are not ascending: %r" % (i, ds)
        others = sorted(D[i][j] for j in range(n) if j != i)
        if ds != others[:kk]:
            return "neighbour distances of %d are %r, the %d smallest are %r" % (i, ds, kk, others[:kk])
        r = ds[-1] if ds else 0.0
        if radius[i] != r and not (ds and r <= 0 and radius[i] == 0):
            return "radius of %d is %r, largest neighbour distance is %r" % (i, radius[i], r)
    for l in range(k):
        col = [D[i][adj[i][l]] for i in range(n) if l < len(adj[i])]
        want = max(col) if col else 0.0
        if maxd[l] != max(want, 0.0):
            return "per-rank maximum %d is %r, true maximum %r" % (l, maxd[l], want)
    if gdens is not None:
        true = max([r for r in radius] + [0.0])
        want = 1 if true < 0.00001 else true
        if gdens != want:
            return "density bound %r, expected %r" % (gdens, want)
    return None


def oracle_cluster(st, adj_after, dens, cost0, labels, unsup, nclusters=None):
    """C13: well-formed forest over the plateau-extended adjacency; st has pred/root/cost/plabel/clabel."""
    n = len(dens)
    pred, root, cost = st["pred"], st["root"], st["cost"]
    roots = [q for q in range(n) if pred[q] == -1]
    for q in range(n):
        seen, r = set(), q
        while pred[r] != -1:
            if r in seen:
                return "predecessor links cycle through %d" % r
            seen.add(r); r = pred[r]
        if root[q] != r:
            return "sample %d records root %d but reaches %d" % (q, root[q], r)
        if unsup:
            if st["clabel"][q] != st["clabel"][r]:
                return "sample %d has cluster id %d, its root %d has %d" % (q, st["clabel"][q], r, st["clabel"][r])
        else:
            if st["plabel"][q] != st["plabel"][r]:
                return "sample %d has label %d, its root %d has %d" % (q, st["plabel"][q], r, st["plabel"][r])
    for q in range(n):
        if pred[q] == -1:
            if cost[q] != dens[q]:
                return "root %d has cost %r, density %r" % (q, cost[q], dens[q])
        else:
            p = pred[q]
            if q not in adj_after[p]:
                return "sample %d is not a graph neighbour of its predecessor %d" % (q, p)
            if cost[q] != min(cost[p], dens[q]):
                return "cost of %d is %r, min(cost(pred), density) = %r" % (q, cost[q], min(cost[p], dens[q]))
            if not cost[q] > cost0[q]:
                return "cost of %d (%r) is not above its initial cost %r" % (q, cost[q], cost0[q])
        if not dens[q] < dens[root[q]] + 1:
            return "density of %d (%r) exceeds its root's (%r) by 1 or more" % (q, dens[q], dens[root[q]])
    if unsup:
        if nclusters != len(roots):
            return "n_clusters = %r but there are %d roots" % (nclusters, len(roots))
        if sorted(st["clabel"][r] for r in roots) != list(range(len(roots))):
            return "root identifiers are %r" % sorted(st["clabel"][r] for r in roots)
    return None


def knn_state(sg):
    return dict(adj=adj_of(sg), nplat=[int(x.n_plateaus) for x in sg.nodes], cost=[float(x.cost) for x in sg.nodes],
                dens=[float(x.density) for x in sg.nodes], pred=[int(x.pred) for x in sg.nodes],
                root=[int(x.root) for x in sg.nodes], plabel=[int(x.predicted_label) for x in sg.nodes],
                clabel=[int(x.cluster_label) for x in sg.nodes], label=[int(x.label) for x in sg.nodes],
                order=[int(i) for i in sg.idx_nodes], nclusters=int(sg.n_clusters), radius=[float(x.radius) for x in sg.nodes])


def oracle_knn_predict(D, n, row, k, cost, labels_by_node, constant, mn, mx, got, eps=1e-20):
    """C14: exhaustive k-nearest max-min rule for the query `row` (point index into D)."""
    ds = sorted((D[row][j], j) for j in range(n))
    kth = ds[:k]
    if len(kth) == 0:
        return None
    # all admissible k-nearest sets (ties at the boundary): accept the label if SOME admissible choice yields it
    dens = 0.0
    for (dv, _) in kth:
        dens += float(np.exp(-np.float64(dv) / constant))
    dens /= k
    dens = ((MAXD - 1) * (dens - mn) / (mx - mn + eps)) + 1
    bound = kth[-1][0]
    cands = [j for (dv, j) in ds if dv <= bound]
    vals = {j: min(cost[j], dens) for j in cands}
    best = max(vals.values())
    ok = {labels_by_node[j] for j in cands if vals[j] == best}
    # with ties at the k-th distance a different admissible neighbour set may exclude the global best;
    # accept any label whose value equals the best among SOME k-subset: conservative = any candidate reaching
    # the maximum over the strictly-inside neighbours
    inside = [j for (dv, j) in ds if dv < bound]
    tie = [j for (dv, j) in ds if dv == bound]
    need = k - len(inside)
    if need < len(tie):
        base = max([vals[j] for j in inside], default=float("-inf"))
        ok = {labels_by_node[j] for j in inside if vals[j] == max(base, max(vals[t] for t in tie))}
        for t in tie:
            if vals[t] >= base:
                ok.add(labels_by_node[t])
        ok |= {labels_by_node[j] for j in inside if vals[j] == base}
    if got not in ok:
        return "predicted %r; k=%d nearest max-min rule allows %r (query density %r)" % (got, k, sorted(ok), dens)
    return None


def gen_split_inst(rng, nmax=11, m=0):
    """Labeled instance for KNN-supervised training: points 0..ntr-1 train, ntr..n-1 validation, both containing every class.
    Feature-based only (KNNSupervisedOPF._learn demands a train-sized pre-computed matrix, so validation cannot use one)."""
    while True:
        ntr = rng.randint(3, max(3, nmax - 3))
        nva = rng.randint(2, 4)
        k = rng.randint(2, min(3, ntr, nva))
        def lab(cnt):
            while True:
                l = [rng.randrange(k) for _ in range(cnt)]
                if len(set(l)) == k:
                    return l
        it = gen_kinst(rng, nmin=ntr + nva, nmax=ntr + nva, m=m, labelled=False, kinds=("feat", "lattice", "dup"))
        if it.X is None:
            continue
        it.labels = lab(ntr) + lab(nva)
        it.ntr = ntr
        return it
