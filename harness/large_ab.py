"""Large-size streams of C07 and C09.

The bulk streams of these checks use at most ~20 samples, 1-6 features and batches of 2-9 queries. Fast paths, blocked
loops, fixed-capacity scratch buffers, subsampling "for speed" and caches only show above a size threshold (64 / 128 /
256 / 1024 elements, rows, queries, evaluations ...). The streams below exercise every size-dependent dimension of the two
properties above those block sizes, on class-structured data (Gaussian blobs of different tightness, an overlapping pair
of classes, exact zeros, copies of training rows), and judge the implementation's own output with the properties
themselves:

  C07  (i)  distances on vectors of 65 .. 1030 (thorough: 4100) coordinates, re-evaluated after 70 .. 1100 (thorough: 5000)
            other evaluations, byte comparison of the caller's arrays;
       (ii) the four models and `prune` on large arguments (training / unlabeled / validation sets above 128 and 256 rows,
            more than 64 features, up to 70 classes, query batches above 256 and 1024 rows): byte comparison of every caller
            array (one of the runs on read-only arrays), and a fresh model fitted again and again on equal data while numpy's
            global generator and python's `random` are perturbed between the fits - and once re-seeded to the very state of
            the first fit: forests, selected k and predictions must be identical either way. When a fit is seen to draw from
            a global generator, more perturbed fits follow.
  C09  for all four kinds one batch of more than 256 and one of more than 1024 queries (segments of queries near different
       clusters of different tightness, an interleaved part, copies of training rows, midpoints, outliers, and duplicates
       of one row 64 / 128 / 256 / 512 / 1024 positions apart), predicted as a whole, one by one, in chunks of other sizes,
       reversed, rotated and a second time; every answer must equal the one the row gets alone.

Every case is rebuilt exactly from its parameter dict (all data derive from `numpy.random.RandomState(seed)` instances owned
by the harness; the global generators are only *set*, never relied upon, and are restored afterwards), so a replay file
holds the parameters plus the few rows / fits that fail."""
import hashlib
import random
import time

import numpy as np

from common import *  # noqa
import axiom_table as T

BLOCKS = (64, 128, 256, 512, 1024)
SDS = (0.04, 1.0, 0.8, 0.3)          # class 0 tight, class 1 loose, class 2 overlaps class 1, class 3 medium


def _above(rng, b, spread=0.3):
    """a size a little above the block size b"""
    return b + rng.randint(1, max(2, int(b * spread)))


# ----------------------------------------------------------------------------------------
# data: class-structured blobs, rebuilt from (seed, dim, classes, style, sparse)

class World:
    def __init__(self, seed, dim, classes, style="mixed", sparse=0.0):
        rs = np.random.RandomState(seed)
        self.dim, self.classes, self.sparse = dim, classes, sparse
        self.cen = np.zeros((classes, dim))
        self.sd = np.zeros(classes)
        for c in range(classes):
            self.sd[c] = SDS[c % 4] * (1.0 if c < 4 else rs.uniform(0.5, 1.5))
            u = rs.normal(size=dim)
            u /= (np.linalg.norm(u) or 1.0)
            if style == "overlap" and c >= 1:
                # a chain of mutually overlapping classes of equal spread: neighbouring k values score alike
                self.sd[c] = self.sd[0] = 1.0
                self.cen[c] = self.cen[c - 1] + 1.4 * u
            elif c % 4 == 2:
                self.cen[c] = self.cen[c - 1] + 1.5 * self.sd[c - 1] * u       # overlaps the loose class before it
            else:
                self.cen[c] = rs.uniform(4.0, 22.0, size=dim)
        self.cols = rs.uniform(size=dim) < 0.34                                   # the columns that may hold exact zeros

    def rows(self, rs, cls, widen=1.0):
        cls = np.asarray(cls, dtype=int)
        X = self.cen[cls] + rs.normal(size=(len(cls), self.dim)) * (self.sd[cls] * widen)[:, None]
        X = np.abs(X) + 0.01
        if self.sparse > 0:
            X[(rs.uniform(size=X.shape) < self.sparse) & self.cols[None, :]] = 0.0
        return np.ascontiguousarray(X, dtype=float)

    def labelled(self, rs, n, base=1, noise=0.03):
        cls = np.arange(n) % self.classes
        rs.shuffle(cls)
        X = self.rows(rs, cls)
        Y = cls.copy()
        flip = rs.uniform(size=n) < noise
        Y[flip] = rs.randint(0, self.classes, size=int(flip.sum()))
        for c in range(self.classes):                    # every class keeps a correctly labelled sample
            Y[int(np.argmax(cls == c))] = c
        return X, (Y + base).astype(int), cls


def _sha(a):
    return hashlib.sha1(np.ascontiguousarray(a).tobytes()).hexdigest()[:12]


# ----------------------------------------------------------------------------------------
# fitted-model observables

def model_state(m):
    sg = m.subgraph
    nodes = [(float(nd.cost), int(nd.pred), int(nd.predicted_label), int(nd.cluster_label), int(nd.root), float(nd.density),
              int(nd.status), int(nd.label)) for nd in sg.nodes]
    st = dict(n_nodes=int(sg.n_nodes), idx_nodes=[int(i) for i in sg.idx_nodes], nodes=nodes,
              features=_sha(np.array([np.asarray(nd.features, dtype=float) for nd in sg.nodes])))
    for a in ("best_k", "n_clusters", "constant", "density", "min_density", "max_density"):
        v = getattr(sg, a, None)
        st[a] = None if v is None else float(v)
    return st


def first_diff(a, b):
    """short description of the first difference between two (state, predictions) results"""
    sa, pa = a
    sb, pb = b
    for f in ("best_k", "n_nodes", "n_clusters", "constant", "min_density", "max_density", "density", "features", "idx_nodes"):
        if repr(sa.get(f)) != repr(sb.get(f)):
            va, vb = sa.get(f), sb.get(f)
            if f == "idx_nodes":
                j = [t for t in range(min(len(va), len(vb))) if va[t] != vb[t]]
                return "the conquest order differs (from position %s on)" % (j[0] if j else min(len(va), len(vb)))
            return "%s is %r in one fit and %r in the other" % (f, va, vb)
    names = ("cost", "pred", "predicted_label", "cluster_label", "root", "density", "status", "label")
    for q, (x, y) in enumerate(zip(sa["nodes"], sb["nodes"])):
        if repr(x) != repr(y):
            t = [i for i in range(len(x)) if repr(x[i]) != repr(y[i])][0]
            return "training sample %d has %s %r in one fit and %r in the other" % (q, names[t], x[t], y[t])
    if repr(pa) != repr(pb):
        fa = pa if not (pa and isinstance(pa[0], list)) else list(zip(*pa))
        fb = pb if not (pb and isinstance(pb[0], list)) else list(zip(*pb))
        j = [t for t in range(min(len(fa), len(fb))) if fa[t] != fb[t]]
        if j:
            return "query %d of the batch is predicted %r by one fit and %r by the other (%d queries differ)" % (j[0], fa[j[0]], fb[j[0]], len(j))
        return "the prediction lists differ in length"
    return None


# ----------------------------------------------------------------------------------------
# C07 (ii): models on large arguments

C07_PLAIN = ["log_squared_euclidean", "euclidean", "manhattan", "squared_euclidean"]
C07_METRICS = ["chi_squared", "canberra", "squared", "bray_curtis", "log_squared_euclidean", "euclidean", "jaccard", "soergel",
               "manhattan", "squared_euclidean"]


def c07_build(p):
    """the caller's arrays of a C07 large case, rebuilt exactly from its parameters"""
    w = World(p["seed"], p["dim"], p["classes"], p["style"], p["sparse"])
    rs = np.random.RandomState(p["seed"] + 1)
    X, Y, _ = w.labelled(rs, p["n_train"], p["base"], noise=p["noise"])
    arrays = dict(X=X, Y=Y)
    if p["n_val"]:
        arrays["Xv"], arrays["Yv"], _ = w.labelled(rs, p["n_val"], p["base"], noise=p["noise"])
    if p["n_unl"]:
        arrays["Xu"] = w.rows(rs, rs.randint(0, p["classes"], size=p["n_unl"]))
    arrays["Xq"] = w.rows(rs, rs.randint(0, p["classes"], size=p["n_query"]), widen=1.3)
    return arrays


def c07_config(p):
    mt = p["metric"]
    if p["kind"] == "knn":
        return dict(distance=mt, pre=False, max_k=p["max_k"], min_k=None)
    if p["kind"] == "unsup":
        return dict(distance=mt, pre=False, max_k=p["max_k"], min_k=p["min_k"])
    return dict(distance=mt, pre=False, max_k=None, min_k=None)


class ConfigChanged(Exception):
    pass


def c07_run(p, A):
    """a FRESH model of the case's kind fitted on the caller's arrays, then one predict call on the query batch"""
    from opfython.models.supervised import SupervisedOPF
    from opfython.models.semi_supervised import SemiSupervisedOPF
    from opfython.models.knn_supervised import KNNSupervisedOPF
    from opfython.models.unsupervised import UnsupervisedOPF
    kind, mt = p["kind"], p["metric"]
    if kind == "sup":
        m = SupervisedOPF(distance=mt); m.fit(A["X"], A["Y"])
    elif kind == "semi":
        m = SemiSupervisedOPF(distance=mt); m.fit(A["X"], A["Y"], A["Xu"])
    elif kind == "knn":
        m = KNNSupervisedOPF(max_k=p["max_k"], distance=mt); m.fit(A["X"], A["Y"], A["Xv"], A["Yv"])
    elif kind == "prune":
        m = SupervisedOPF(distance=mt); m.prune(A["X"], A["Y"], A["Xv"], A["Yv"], n_iterations=p["n_iter"])
    else:
        m = UnsupervisedOPF(min_k=p["min_k"], max_k=p["max_k"], distance=mt); m.fit(A["X"], A["Y"]); m.propagate_labels()
    out = m.predict(A["Xq"])
    preds = [list(map(int, q)) for q in out] if isinstance(out, tuple) else list(map(int, out))
    cfg_now = dict(distance=m.distance, pre=m.pre_computed_distance, max_k=getattr(m, "max_k", None), min_k=getattr(m, "min_k", None))
    if cfg_now != c07_config(p):
        raise ConfigChanged("configuration after fit/predict is %r, constructed with %r" % (cfg_now, c07_config(p)))
    return model_state(m), preds


def _gstate():
    s = np.random.get_state()
    return (s[0], s[1].tobytes(), s[2], s[3], s[4]), random.getstate()


def _set_global(seed, extra=0):
    """put both global generators into a state determined by (seed, extra)"""
    np.random.seed(seed % (2 ** 32))
    random.seed(seed)
    if extra:
        np.random.uniform(size=extra)
        for _ in range(extra):
            random.random()


def _poison(sizes):
    """allocate, fill with huge values and release buffers of the sizes the library uses (numpy / malloc recycle them)"""
    for sz in sizes:
        for v in (1e300, -1e300, 7e250):
            junk = np.full(int(sz), v); del junk


def c07_plan(rng, tier):
    """parameter dicts of the large model cases; every size-dependent dimension goes above every block size where the
    quick tier can afford it, the rest in the thorough tier"""
    plans = []
    big = tier != "quick"

    def case(kind, **kw):
        p = dict(kind=kind, seed=rng.randrange(2 ** 31), metric=rng.choice(C07_METRICS), dim=rng.randint(2, 4), classes=rng.choice([2, 3, 4]),
                 style=rng.choice(["mixed", "overlap"]), sparse=0.0, base=rng.randint(0, 1), noise=0.03,
                 n_train=40, n_val=0, n_unl=0, n_query=40, max_k=None, min_k=None, n_iter=None)
        p.update(kw)
        # quick tier: a case that needs more than ~120 000 distance evaluations per fit+predict runs under one of the compiled,
        # undecorated metrics (1 us per evaluation; the decorated ones take 8 us, jaccard - not compiled - 15 us)
        n, q, v, k = p["n_train"] + p["n_unl"], p["n_query"], p["n_val"], p["max_k"] or 1
        est = dict(sup=n * n + n * q, semi=n * n + n * q, knn=(k + 1) * n * n + k * n * v + n * q, unsup=2 * n * n + n * q,
                   prune=3 * (n * n + n * v) + n * q)[kind]
        if not big and est > 120000:
            p["metric"] = rng.choice(C07_PLAIN)
        if p["metric"] == "jaccard" and est > 50000:
            p["metric"] = "soergel"
        if p["dim"] > 8 and rng.random() < 0.7:
            p["sparse"] = 0.15                       # exact zeros in a third of the columns (histogram-like rows)
        plans.append(p)

    reps = 1 if not big else 2
    for r_ in range(reps):
        wide = _above(rng, 64, 0.2)
        # supervised: many queries on a small forest / many samples, features and classes
        case("sup", n_train=rng.randint(30, 45), n_query=_above(rng, 1024, 0.1))
        case("sup", n_train=_above(rng, 256, 0.1), dim=wide, classes=rng.choice([5, 70]), n_query=_above(rng, 128, 0.3))
        # semi-supervised: the unlabeled set is a size of its own
        case("semi", n_train=rng.randint(20, 30), n_unl=rng.randint(30, 40), n_query=_above(rng, 1024, 0.1))
        case("semi", n_train=_above(rng, 128, 0.1), n_unl=_above(rng, 256, 0.1) if big else _above(rng, 128, 0.2), dim=wide, classes=rng.choice([3, 9]),
             n_query=_above(rng, 128, 0.3))
        # KNN-supervised: validation set, k range, training set, features
        case("knn", n_train=rng.randint(40, 64), n_val=_above(rng, 256, 0.3), max_k=rng.randint(6, 9), style="overlap", classes=2,
             noise=0.0, n_query=_above(rng, 1024, 0.1))
        case("knn", n_train=_above(rng, 128, 0.1), n_val=_above(rng, 128, 0.4), max_k=rng.randint(4, 5), dim=wide, style="overlap",
             classes=rng.choice([2, 3]), n_query=_above(rng, 256, 0.2))
        case("knn", n_train=_above(rng, 256, 0.05), n_val=rng.randint(30, 60), max_k=2, n_query=rng.randint(30, 60))
        # unsupervised: samples, k range, features
        case("unsup", n_train=rng.randint(50, 64), min_k=1, max_k=rng.randint(5, 8), n_query=_above(rng, 1024, 0.1))
        case("unsup", n_train=_above(rng, 256, 0.1), min_k=rng.randint(1, 2), max_k=3, dim=wide, classes=rng.choice([3, 5]), n_query=_above(rng, 128, 0.3))
        # prune: training and validation rows
        case("prune", n_train=_above(rng, 128, 0.1), n_val=_above(rng, 128, 0.2), n_iter=2, style="mixed", n_query=rng.randint(40, 80))
        if big:
            case("sup", n_train=_above(rng, 512, 0.1), dim=_above(rng, 256, 0.1), n_query=_above(rng, 1024, 0.5))
            case("semi", n_train=_above(rng, 256, 0.1), n_unl=_above(rng, 512, 0.1), n_query=_above(rng, 1024, 0.5))
            case("knn", n_train=_above(rng, 128, 0.2), n_val=_above(rng, 1024, 0.2), max_k=rng.randint(6, 10), style="overlap", classes=2,
                 noise=0.0, n_query=_above(rng, 1024, 0.5))
            case("knn", n_train=_above(rng, 256, 0.2), n_val=_above(rng, 512, 0.2), max_k=5, dim=_above(rng, 128, 0.1), style="overlap",
                 classes=3, n_query=_above(rng, 256, 0.5))
            case("unsup", n_train=_above(rng, 512, 0.1), min_k=1, max_k=rng.randint(4, 9), n_query=_above(rng, 1024, 0.5))
            case("prune", n_train=_above(rng, 256, 0.1), n_val=_above(rng, 256, 0.2), n_iter=3, n_query=_above(rng, 256, 0.2))
    return plans


def c07_models(rep, rng, tier, stats, viol):
    extra_fits = 6 if tier == "quick" else 16
    for p in c07_plan(rng, tier):
        A = c07_build(p)
        kind = p["kind"]
        before = {k: v.tobytes() for k, v in A.items()}
        s0, s1 = rng.randrange(2 ** 31), rng.randrange(2 ** 31)
        sizes = {k: list(v.shape) for k, v in A.items()}
        desc = dict(generator="large_ab.c07_build", params=p, array_shapes=sizes, global_seed_first_fit=s0)
        _set_global(s0)
        g0 = _gstate()
        try:
            r1 = c07_run(p, A)
        except ConfigChanged as ex:
            viol("%s on large arguments %r: training rewrote the model's configuration - %s" % (kind, sizes, ex), desc, "determinism")
            continue
        except Exception as ex:   # noqa - outside the property's domain (single class left after pruning, 0/0 ...): skipped, counted
            stats["skipped"] += 1
            stats["skip_reasons"][type(ex).__name__] = stats["skip_reasons"].get(type(ex).__name__, 0) + 1
            continue
        drew = _gstate() != g0
        stats["runs"] += 1
        stats["kinds"][kind] = stats["kinds"].get(kind, 0) + 1
        for dname in ("n_train", "n_val", "n_unl", "n_query", "dim", "classes"):
            stats["max_" + dname] = max(stats.get("max_" + dname, 0), p[dname])
        rep.count_case(("large-model", kind, p["metric"], _sha(A["X"]), tuple(sorted(sizes.items()))), True)
        after = {k: v.tobytes() for k, v in A.items()}
        if after != before:
            ch = [k for k in sorted(before) if after[k] != before[k]]
            rows = {}
            for k in ch:
                a0 = np.frombuffer(before[k], dtype=A[k].dtype).reshape(A[k].shape)
                j = [t for t in range(len(a0)) if a0[t].tobytes() != A[k][t].tobytes()]
                rows[k] = dict(n_rows_changed=len(j), first_row=j[0], was=np.asarray(a0[j[0]]).tolist()[:80] if a0.ndim > 1 else a0[j[0]].tolist(),
                               now=np.asarray(A[k][j[0]]).tolist()[:80] if a0.ndim > 1 else A[k][j[0]].tolist())
            viol("%s fit/predict with distance %r on large arguments %r changed the caller's array(s) %r" % (kind, p["metric"], sizes, ch),
                 dict(desc, changed=rows), "decorator:inplace")
            continue
        # further fresh fits on the very same arrays: generators perturbed (read-only arrays), generators re-seeded to the
        # state of the first fit, and - when the first fit consumed a global generator - more perturbed fits
        probes = [("perturbed", s1, 17, True)]
        if drew or tier != "quick" or stats["runs"] % 2 == 0:
            probes.append(("reseeded", s0, 0, False))
        if drew:
            stats["fits_drawing_from_global_rng"] += 1
            probes += [("perturbed", rng.randrange(2 ** 31), 1 + t, False) for t in range(extra_fits)]
        for (how, sd, extra, readonly) in probes:
            _poison([p["n_train"], p["n_query"], p["n_val"] or 3, p["n_unl"] or 5, (p["max_k"] or 1) + 1, p["n_train"] * ((p["max_k"] or 1) + 1)])
            _set_global(sd, extra)
            if readonly:
                for v in A.values():
                    v.flags.writeable = False
            try:
                r2 = c07_run(p, A)
                err = None
            except ConfigChanged as ex:
                r2, err = None, None
                viol("%s on large arguments %r: training rewrote the model's configuration - %s" % (kind, sizes, ex), desc, "determinism")
                break
            except ValueError as ex:
                r2, err = None, ex
                if "read-only" in str(ex) and readonly:
                    viol("%s fit/predict with distance %r on large arguments %r writes into a read-only caller array: %s" % (kind, p["metric"], sizes, ex),
                         desc, "decorator:inplace")
                    break
            except Exception as ex:   # noqa
                r2, err = None, ex
            finally:
                for v in A.values():
                    v.flags.writeable = True
            stats["refits"] += 1
            what = "numpy's global generator and python's random %s" % ("were re-seeded to the state they had before the first fit" if how == "reseeded"
                                                                            else "were put into another state (np.random.seed(%d), %d draws)" % (sd % 2 ** 32, extra))
            if err is not None:
                viol("%s on large arguments %r: the first fresh fit succeeded, a second fresh fit on the same arrays raised %r (%s)" % (kind, sizes, err, what),
                     dict(desc, second_fit=dict(how=how, global_seed=sd, draws=extra, readonly=readonly)), "determinism")
                break
            if {k: v.tobytes() for k, v in A.items()} != before:
                viol("%s fit/predict with distance %r on large arguments %r changed a caller array in a later fit" % (kind, p["metric"], sizes), desc, "decorator:inplace")
                break
            msg = first_diff(r1, r2)
            if msg:
                viol("%s on large arguments %r (distance %r): fitting a fresh model twice on equal data gives different forests/predictions - %s; between the fits %s%s"
                     % (kind, sizes, p["metric"], msg, what, "; the fit draws from a global generator" if drew else ""),
                     dict(desc, second_fit=dict(how=how, global_seed=sd, draws=extra, readonly=readonly), difference=msg,
                          first_fit=dict(best_k=r1[0]["best_k"], predictions_head=str(r1[1])[:200]),
                          other_fit=dict(best_k=r2[0]["best_k"], predictions_head=str(r2[1])[:200])), "determinism")
                break


# ----------------------------------------------------------------------------------------
# C07 (i): distances on long vectors and after long evaluation histories

def long_vec(rs, name, n):
    dom = T.domain(name)
    if dom == "real":
        v = rs.uniform(-5, 5, size=n)
        v[rs.uniform(size=n) < 0.3] = 0.0
        i = rs.uniform(size=n) < 0.2
        v[i] = np.round(v[i])
    elif dom == "prob":
        v = rs.uniform(0.01, 5, size=n)
        v /= v.sum()
    else:
        v = rs.uniform(0.01, 5, size=n)
        v[rs.uniform(size=n) < 0.25] = 0.0
        i = rs.uniform(size=n) < 0.2
        v[i] = np.round(v[i])
    return np.ascontiguousarray(v, dtype=float)


def _feq(a, b):
    return (a == b) or (a != a and b != b)


def c07_distances(rep, rng, tier, stats, viol):
    import opfython.math.distance as d
    names = sorted(d.DISTANCES)
    lengths = [65, 130, 257, 1030] + ([4100] if tier != "quick" else [])
    hist = [70, 300, 1100] + ([5000] if tier != "quick" else [])
    off = rng.randrange(100)
    for mi, name in enumerate(names):
        fn = d.DISTANCES[name]
        for li, n in enumerate(lengths):
            if tier == "quick" and li != (mi + off) % len(lengths):
                continue
            H = hist[(mi + li + off) % len(hist)]
            seed = rng.randrange(2 ** 31)
            rs = np.random.RandomState(seed)
            x0, y0 = long_vec(rs, name, n), long_vec(rs, name, n)
            x, y = x0.copy(), y0.copy()
            bx, by = x.tobytes(), y.tobytes()
            desc = dict(generator="large_ab.long_vec", metric=name, length=n, seed=seed, evaluations_between=H)
            try:
                v1 = float(fn(x, y))
            except ZeroDivisionError:
                stats["skipped"] += 1
                continue
            stats["calls"] += 1
            stats["max_length"] = max(stats["max_length"], n)
            rep.count_case(("large-metric", name, n, _sha(x0), _sha(y0)), True)
            if x.tobytes() != bx or y.tobytes() != by:
                j = [t for t in range(n) if x[t] != x0[t] or y[t] != y0[t]]
                viol("DISTANCES[%r](x, y) on vectors of %d coordinates modified its arguments (%d coordinates, first %d: x %r -> %r, y %r -> %r)"
                     % (name, n, len(j), j[0], x0[j[0]], x[j[0]], y0[j[0]], y[j[0]]), dict(desc, coordinate=j[0]), "decorator:inplace")
                continue
            # a long history: H evaluations of this and of other metrics on other arrays (short and long, some of them the
            # very objects x / y paired with another vector), then the same argument values again
            pool = [(long_vec(rs, name, m_), long_vec(rs, name, m_)) for m_ in (n, n, 3, 66, n, 129)]
            others = [names[rng.randrange(len(names))] for _ in range(4)]
            opool = {o: (long_vec(rs, o, n), long_vec(rs, o, n)) for o in others}
            pb = [(a.tobytes(), b.tobytes()) for a, b in pool]
            for t in range(H):
                a, b = pool[t % len(pool)]
                try:
                    if t % 7 == 3 and len(a) == n:
                        fn(x, b)
                    elif t % 7 == 5 and len(a) == n:
                        fn(a, y)
                    elif t % 11 == 0:
                        o = others[(t // 11) % len(others)]
                        d.DISTANCES[o](*opool[o])
                    else:
                        fn(a, b)
                except ZeroDivisionError:
                    pass
            stats["history_evaluations"] += H
            try:
                v2 = float(fn(x, y))
                v3 = float(fn(x0.copy(), y0.copy()))
                # a caller-owned long buffer refilled in place
                x1 = long_vec(rs, name, n)
                buf = x0.copy(); fn(buf, y); buf[:] = x1
                vb = float(fn(buf, y)); vf = float(fn(x1.copy(), y0.copy()))
            except ZeroDivisionError:
                continue
            if x.tobytes() != bx or y.tobytes() != by or [(a.tobytes(), b.tobytes()) for a, b in pool] != pb:
                viol("DISTANCES[%r] on vectors of %d coordinates modified a caller array during %d evaluations" % (name, n, H), desc, "decorator:inplace")
                continue
            if not (_feq(v1, v2) and _feq(v1, v3)):
                viol("DISTANCES[%r] on vectors of %d coordinates returns %r, then %r (same arrays) / %r (fresh copies) for the same argument values after %d other evaluations"
                     % (name, n, v1, v2, v3, H), desc, "decorator:history")
            elif not _feq(vb, vf):
                viol("DISTANCES[%r] on a buffer of %d coordinates refilled in place returns %r, on a fresh array with the same values %r" % (name, n, vb, vf),
                     desc, "decorator:history")


def c07_large(rep, tier, seed):
    """hook of harness/c07.py; returns the number of violations found"""
    rng = random.Random(seed * 7919 + 707)
    nviol = [0]

    def viol(msg, replay, key):
        nviol[0] += 1
        if nviol[0] <= 3:
            rep.violation(msg, replay, key=key)

    dstats = dict(calls=0, skipped=0, max_length=0, history_evaluations=0)
    mstats = dict(runs=0, refits=0, skipped=0, skip_reasons={}, kinds={}, fits_drawing_from_global_rng=0)
    saved = (np.random.get_state(), random.getstate())
    try:
        t0 = time.time()
        c07_distances(rep, rng, tier, dstats, viol)
        dstats["wall_s"] = round(time.time() - t0, 1)
        t0 = time.time()
        c07_models(rep, rng, tier, mstats, viol)
        mstats["wall_s"] = round(time.time() - t0, 1)
    finally:
        np.random.set_state(saved[0]); random.setstate(saved[1])
    rep.corr["large_distance_calls"] = dict(cases=dstats["calls"], distribution=dstats)
    rep.corr["large_model_runs"] = dict(cases=mstats["runs"], distribution=mstats)
    return nviol[0]


def c07_replay(r):
    """re-run the fits of a replay written by c07_models; returns 1 when the difference shows again"""
    if r.get("generator") == "large_ab.long_vec":
        import opfython.math.distance as d
        rs = np.random.RandomState(r["seed"])
        x, y = long_vec(rs, r["metric"], r["length"]), long_vec(rs, r["metric"], r["length"])
        bx, by = x.tobytes(), y.tobytes()
        v = [float(d.DISTANCES[r["metric"]](x, y)) for _ in range(r["evaluations_between"])]
        bad = x.tobytes() != bx or y.tobytes() != by or any(not _feq(v[0], t) for t in v)
        print("replay: %s" % ("arguments modified / value drifts" if bad else "unchanged, value stable"))
        return 1 if bad else 0
    p = r["params"]
    A = c07_build(p)
    before = {k: v.tobytes() for k, v in A.items()}
    _set_global(r["global_seed_first_fit"])
    r1 = c07_run(p, A)
    s = r.get("second_fit") or dict(global_seed=r["global_seed_first_fit"] + 1, draws=3)
    _set_global(s["global_seed"], s["draws"])
    r2 = c07_run(p, A)
    msg = first_diff(r1, r2)
    ch = [k for k in before if A[k].tobytes() != before[k]]
    print("replay: %s" % (("caller arrays changed: %r" % ch) if ch else (msg or "both fits identical, caller arrays unchanged")))
    return 1 if (ch or msg) else 0


# ----------------------------------------------------------------------------------------
# C09: large structured batches

def c09_build(p):
    """training arrays and the query batch of a C09 large case, rebuilt exactly from its parameters;
    returns (arrays, groups) where groups lists the batch positions holding copies of one row"""
    w = World(p["seed"], p["dim"], p["classes"], "mixed", p["sparse"])
    rs = np.random.RandomState(p["seed"] + 1)
    X, Y, _ = w.labelled(rs, p["n_train"], p["base"], noise=0.02)
    A = dict(X=X, Y=Y)
    if p["n_val"]:
        A["Xv"], A["Yv"], _ = w.labelled(rs, p["n_val"], p["base"], noise=0.02)
    if p["n_unl"]:
        A["Xu"] = w.rows(rs, rs.randint(0, p["classes"], size=p["n_unl"]))
    m = p["n_query"]
    # segments of queries near one cluster each (tight and loose clusters alternate), then an interleaved tail
    cls = np.zeros(m, dtype=int)
    pos, c = 0, int(rs.randint(0, p["classes"]))
    tail = m - m // 6
    while pos < tail:
        L = int(rs.choice([20, 45, 64, 100, 130, 200, 256, 300]))
        L = min(L, tail - pos)
        cls[pos:pos + L] = c
        pos += L
        c = (c + 1 + int(rs.randint(0, max(1, p["classes"] - 1)))) % p["classes"]
    cls[tail:] = rs.randint(0, p["classes"], size=m - tail)
    Q = w.rows(rs, cls, widen=1.0)
    loose = rs.uniform(size=m) < 0.3
    if loose.any():
        Q[loose] = w.rows(rs, cls[loose], widen=1.6)
    special = rs.choice(m, size=max(6, m // 12), replace=False)
    for t, j in enumerate(special):
        how = t % 4
        if how == 0:
            Q[j] = X[int(rs.randint(0, len(X)))]                                        # a training row
        elif how == 1:
            a, b = rs.randint(0, len(X), size=2)
            Q[j] = (X[a] + X[b]) / 2                                                     # midpoint of two training rows
        elif how == 2:
            Q[j] = Q[j] * 50 + 100                                                       # far away from everything
        else:
            a, b = rs.randint(0, p["classes"], size=2)
            Q[j] = np.abs((w.cen[a] + w.cen[b]) / 2) + 0.01                              # between two clusters
    # duplicates of one row far apart: at block-size offsets and at random positions
    groups = []
    srcs = rs.choice(m, size=min(m, 24), replace=False)
    taken = set(int(s) for s in srcs)
    for s in srcs:
        s = int(s)
        g = [s]
        cand = [s + o for o in BLOCKS if s + o < m] + [s - o for o in BLOCKS if s - o >= 0] + [int(rs.randint(0, m))]
        for dst in cand:
            if dst not in taken and rs.uniform() < 0.6:
                taken.add(dst)
                Q[dst] = Q[s]
                g.append(dst)
        if len(g) > 1:
            groups.append(sorted(g))
    A["Xq"] = np.ascontiguousarray(Q)
    return A, groups


def c09_fit(p, A):
    from opfython.models.supervised import SupervisedOPF
    from opfython.models.semi_supervised import SemiSupervisedOPF
    from opfython.models.knn_supervised import KNNSupervisedOPF
    from opfython.models.unsupervised import UnsupervisedOPF
    kind, mt = p["kind"], p["metric"]
    if kind == "sup":
        m = SupervisedOPF(distance=mt); m.fit(A["X"].copy(), A["Y"].copy())
    elif kind == "semi":
        m = SemiSupervisedOPF(distance=mt); m.fit(A["X"].copy(), A["Y"].copy(), A["Xu"].copy())
    elif kind == "knn":
        m = KNNSupervisedOPF(max_k=p["max_k"], distance=mt); m.fit(A["X"].copy(), A["Y"].copy(), A["Xv"].copy(), A["Yv"].copy())
    else:
        m = UnsupervisedOPF(min_k=p["min_k"], max_k=p["max_k"], distance=mt); m.fit(A["X"].copy(), A["Y"].copy()); m.propagate_labels()
    return m


def c09_answers(m, Q):
    """one predict call; one comparable answer per row (label, or (label, cluster) for the unsupervised model)"""
    out = m.predict(np.ascontiguousarray(Q).copy())
    if isinstance(out, tuple):
        return [(int(a), int(b)) for a, b in zip(*out)]
    return [int(a) for a in out]


def c09_styles(p, m_rows):
    """the ways the batch is driven besides 'whole' and 'alone': name -> list of index lists (one predict call each)"""
    idx = list(range(m_rows))
    styles = {"reversed": [idx[::-1]]}
    for cs in p["chunks"]:
        styles["chunks of %d" % cs] = [idx[a:a + cs] for a in range(0, m_rows, cs)]
    for ro in p["rotations"]:
        styles["rotated by %d" % ro] = [idx[ro:] + idx[:ro]]
    styles["whole batch, second call"] = [idx]
    return styles


def c09_snapshot(m):
    st = model_state(m)
    return st


def c09_plan(rng, tier):
    plans = []
    big = tier != "quick"
    reps = 1 if not big else 5
    for r_ in range(reps):
        for kind in ("sup", "semi", "knn", "unsup"):
            for bi, blk in enumerate((256, 1024) + ((2048,) if big and r_ == 0 else ())):
                mq = _above(rng, blk, 0.25)
                p = dict(kind=kind, seed=rng.randrange(2 ** 31), metric=rng.choice(["euclidean", "log_squared_euclidean", "manhattan", "squared_euclidean", "canberra", "bray_curtis", "chi_squared"]),
                         dim=rng.choice([2, 3, 5]), classes=rng.choice([3, 4, 5]), sparse=0.0, base=rng.randint(0, 1),
                         n_train=rng.randint(24, 44), n_val=0, n_unl=0, n_query=mq, max_k=None, min_k=None)
                if bi == 0 and (big or rng.random() < 0.5):
                    p["dim"] = _above(rng, 64, 0.2); p["sparse"] = rng.choice([0.0, 0.15])
                if bi == 0:
                    # the smaller batch meets the larger forests: more than 128 / 256 training samples, sometimes 70 classes
                    p["n_train"] = rng.choice([rng.randint(60, 100), _above(rng, 128, 0.1), _above(rng, 256, 0.1)]) if not big else _above(rng, rng.choice([128, 256]), 0.1)
                    if kind != "knn" and p["n_train"] > 128 and rng.random() < 0.4:
                        p["classes"] = 70
                if kind == "semi":
                    p["n_unl"] = rng.randint(20, 40) if bi else rng.randint(40, 90)
                if kind == "knn":
                    p["n_val"] = rng.randint(24, 48); p["max_k"] = rng.randint(2, 5)
                if kind == "unsup":
                    p["min_k"] = rng.choice([1, 2, 3]); p["max_k"] = p["min_k"] + rng.randint(0, 3)
                if kind == "semi" and bi:
                    p["n_train"] = rng.randint(20, 30); p["n_unl"] = rng.randint(8, 16)
                if not big and 7 * mq * (p["n_train"] + p["n_unl"]) > 300000:
                    p["metric"] = rng.choice(C07_PLAIN)          # same budget rule as in c07_plan
                small = rng.choice([3, 7, 10, 33])
                edge = rng.choice([b + e for b in BLOCKS if b < mq for e in (-1, 0, 1)])
                p["chunks"] = sorted({small, edge} | ({rng.choice([63, 100, 129, 200])} if big else set()))
                p["rotations"] = sorted({rng.choice([b + 1 for b in BLOCKS if b + 1 < mq])} | ({1} if big else set()))
                plans.append(p)
    if big:
        for kind in ("sup", "semi"):
            mq = _above(rng, 256, 0.08)
            plans.append(dict(kind=kind, seed=rng.randrange(2 ** 31), metric=rng.choice(["euclidean", "manhattan", "canberra"]), dim=rng.choice([2, 3]),
                              classes=rng.choice([3, 4]), sparse=0.0, base=rng.randint(0, 1), n_train=rng.randint(24, 30) if kind == "semi" else rng.randint(40, 50),
                              n_val=0, n_unl=rng.randint(14, 20) if kind == "semi" else 0, n_query=mq, max_k=None, min_k=None,
                              chunks=[7, 255], rotations=[129], coq=True))
    return plans


def c09_coq_term(p, A, preds, relevant):
    """(term, expected output, instance) of Model/RunSup's run_sup_predict / run_semi_predict for the whole batch"""
    import supcommon as S
    import opfython.math.distance as dmod
    semi = p["kind"] == "semi"
    Xall = np.vstack([A["X"]] + ([A["Xu"]] if semi else []) + [A["Xq"]])
    nt = len(A["X"]) + (len(A["Xu"]) if semi else 0)
    fn = dmod.DISTANCES[p["metric"]]
    D = [[float(fn(Xall[a], Xall[b])) for b in range(len(Xall))] for a in range(nt)]      # first argument = training sample
    it = S.Instance("large", Xall.tolist(), [int(v) for v in A["Y"]], D, len(A["Xu"]) if semi else 0, len(A["Xq"]), p["metric"])
    rk = S.ranker_for(it)
    return S.term_predict(it, rk, rows=list(range(nt, nt + len(A["Xq"]))), semi=semi), list(preds) + list(relevant), it


def c09_case(p, coq_out=None):
    """Runs one case. Returns (status, findings, info): status 'ok' | 'skip'; findings = list of dicts (failing rows)."""
    A, groups = c09_build(p)
    kind = p["kind"]
    m = c09_fit(p, A)
    sg = m.subgraph
    if p["kind"] in ("knn", "unsup") and float(sg.constant) == 0.0:
        return "skip", [], "degenerate density constant"
    Q = A["Xq"]
    mq = len(Q)
    fitted = c09_snapshot(m)
    findings = []

    def row_of(j):
        return Q[j].tolist() if Q.shape[1] <= 80 else dict(first_80_coordinates=Q[j][:80].tolist())

    # the whole batch in one call (first call on the fresh model: the relevance flags it leaves are an observable of the Coq model)
    whole, whole_err = None, None
    try:
        whole = c09_answers(m, Q)
        if coq_out is not None and p.get("coq") and kind in ("sup", "semi"):
            coq_out.append(c09_coq_term(p, A, whole, [int(x.relevant) for x in m.subgraph.nodes]))
    except Exception as ex:   # noqa
        whole_err = ex
    # reference: every row alone
    alone, alone_err = [], None
    try:
        for j in range(mq):
            alone.append(c09_answers(m, Q[j:j + 1])[0])
    except Exception as ex:   # noqa
        alone_err = ex
    if alone_err is not None and whole_err is not None:
        return "skip", [], "predict raises on this data: %r" % (whole_err,)
    if alone_err is not None or whole_err is not None:
        j = len(alone) if alone_err is not None else None
        findings.append(dict(what=("predicting the %d-row batch raised %r although every row is predicted alone" % (mq, whole_err)) if whole_err is not None
                             else ("predicting row %d alone raised %r although the whole %d-row batch is predicted" % (j, alone_err, mq)),
                             position=j, row=None if j is None else row_of(j)))
        return "ok", findings, dict(groups=groups)
    if len(whole) != mq:
        findings.append(dict(what="predict returned %d answers for a batch of %d rows" % (len(whole), mq), position=None, row=None))
        return "ok", findings, dict(groups=groups)
    bad = [j for j in range(mq) if whole[j] != alone[j]]
    for j in bad[:5]:
        findings.append(dict(what="row at position %d of the %d-row batch gets %r in the batch but %r when predicted alone (%d rows differ, positions %r ...)"
                             % (j, mq, whole[j], alone[j], len(bad), bad[:8]), position=j, row=row_of(j), in_batch=whole[j], alone=alone[j], style="whole batch"))
    if not findings:
        for g in groups:
            a = {whole[j] for j in g}
            if len(a) > 1:
                findings.append(dict(what="copies of one row at positions %r of the %d-row batch get different answers %r" % (g, mq, [whole[j] for j in g]),
                                     position=g[0], row=row_of(g[0]), style="whole batch"))
                break
    if not findings:
        for name, calls in c09_styles(p, mq).items():
            got = [None] * mq
            try:
                for rows in calls:
                    ans = c09_answers(m, Q[np.array(rows, dtype=int)])
                    for a_, j in zip(ans, rows):
                        got[j] = a_
            except Exception as ex:   # noqa
                findings.append(dict(what="predicting the batch %s raised %r although every row is predicted alone" % (name, ex), position=None, row=None, style=name))
                break
            bad = [j for j in range(mq) if got[j] != alone[j]]
            if bad:
                j = bad[0]
                where = [(ci, rows.index(j)) for ci, rows in enumerate(calls) if j in rows][0]
                findings.append(dict(what="row %d of the batch gets %r when the batch is predicted %s (call %d, position %d) but %r when predicted alone (%d rows differ)"
                                     % (j, got[j], name, where[0], where[1], alone[j], len(bad)), position=j, row=row_of(j), in_batch=got[j], alone=alone[j], style=name))
                break
    if not findings:
        # after all these calls: a row alone again, and the fitted model itself
        for j in (0, mq // 2, mq - 1):
            again = c09_answers(m, Q[j:j + 1])[0]
            if again != alone[j]:
                findings.append(dict(what="row %d predicted alone gets %r before and %r after the batch calls" % (j, alone[j], again), position=j, row=row_of(j),
                                     alone=alone[j], in_batch=again, style="alone, after %d predict calls" % (mq + 10)))
                break
    if not findings:
        now = c09_snapshot(m)
        ch = [f for f in fitted if repr(fitted[f]) != repr(now[f])]
        if ch:
            findings.append(dict(what="predict changed the fitted model (%s), so later predictions depend on earlier ones" % ch[0], position=None, row=None))
    return "ok", findings, dict(groups=groups, answers=len(set(alone)), best_k=fitted.get("best_k"))


def c09_large(rep, tier, seed, coq=None):
    """hook of harness/c09.py; returns the number of violations found. coq = (terms, expect, insts) of the check's supervised
    correspondence stream: the cases flagged `coq` (thorough tier: vm_compute needs 10-20 s for 50 nodes x 260 queries)
    append their whole-batch term to it."""
    coq_out = [] if coq is not None else None
    t0 = time.time()
    rng = random.Random(seed * 7919 + 909)
    stats = dict(cases=0, skipped=0, skip_reasons={}, kinds={}, queries=0, max_batch=0, max_n_train=0, max_dim=0,
                 duplicate_groups=0, distinct_answers={})
    nviol = 0
    for p in c09_plan(rng, tier):
        try:
            status, findings, info = c09_case(p, coq_out)
        except Exception as ex:   # noqa - training fails on this data (outside C09): skipped and counted
            status, findings, info = "skip", [], "fit raised %r" % (ex,)
        if status == "skip":
            stats["skipped"] += 1
            stats["skip_reasons"][str(info)[:80]] = stats["skip_reasons"].get(str(info)[:80], 0) + 1
            continue
        stats["cases"] += 1
        stats["kinds"][p["kind"]] = stats["kinds"].get(p["kind"], 0) + 1
        stats["queries"] += p["n_query"]
        stats["max_batch"] = max(stats["max_batch"], p["n_query"])
        stats["max_n_train"] = max(stats["max_n_train"], p["n_train"] + p["n_unl"])
        stats["max_dim"] = max(stats["max_dim"], p["dim"])
        stats["duplicate_groups"] += len(info.get("groups", []))
        stats["distinct_answers"][p["kind"]] = max(stats["distinct_answers"].get(p["kind"], 0), info.get("answers", 0))
        rep.count_case(("large-batch", p["kind"], p["metric"], p["seed"], p["n_query"]), True)
        if findings:
            nviol += 1
            if nviol <= 3:
                f = findings[0]
                shapes = dict(n_train=p["n_train"], n_unlabeled=p["n_unl"], n_validation=p["n_val"], features=p["dim"], batch_rows=p["n_query"])
                replay = dict(generator="large_ab.c09_build", params=p, shapes=shapes, failing=findings)
                if p["n_train"] * p["dim"] <= 200:
                    A, _ = c09_build(p)
                    replay["X_train"], replay["Y_train"] = A["X"].tolist(), A["Y"].tolist()
                rep.violation("%s predict on a large batch (%r, distance %r): %s" % (p["kind"], shapes, p["metric"], f["what"]), replay,
                              key="predict_position:" + ("sup" if p["kind"] in ("sup", "semi") else p["kind"]))
    for term, exp, it in (coq_out or []):
        if all(v == v for row in it.D for v in row):
            coq[0].append(term); coq[1].append(exp); coq[2].append(it)
            stats["coq_cases"] = stats.get("coq_cases", 0) + 1
    stats["wall_s"] = round(time.time() - t0, 1)
    rep.corr["large_batches"] = dict(cases=stats["cases"], distribution=stats)
    return nviol


def c09_replay(r):
    status, findings, info = c09_case(r["params"])
    for f in findings[:3]:
        print("replay: " + f["what"])
    if not findings:
        print("replay: %s - every row gets the answer it gets alone" % status)
    return 1 if findings else 0
