"""C18 - splitting, merging, loading, parsing and converting preserve every sample
(opfython/stream/{splitter,loader,parser}.py, opfython/utils/converter.py, Subgraph(from_file=...))."""
import math
import random
import shutil
import warnings
from fractions import Fraction

from common import *  # noqa

NEEDED = ["Model/Stream", "Model/Converter", "Model/RunSM", "Proofs/StreamPerm", "Proofs/ConverterLayout", "Props/C18"]
TMP = os.path.join(BUILD, "c18_tmp")
FORMATS = ["txt", "csv", "json"]


# ----------------------------------------------------------------------------------------
# float helpers (float32 values are carried as their 32-bit patterns)

def f32_bits(x):
    return struct.unpack("<I", struct.pack("<f", x))[0]


def bits_f32(b):
    return struct.unpack("<f", struct.pack("<I", b))[0]


def f64_bits(x):
    return struct.unpack("<Q", struct.pack("<d", float(x)))[0]


def bits_f64(b):
    return struct.unpack("<d", struct.pack("<Q", b))[0]


def fenc(x):
    """double -> [kind, sign, mantissa, exponent] (see RunSM.float_in)."""
    x = float(x)
    if x != x:
        return [2, 0, 0, 0]
    s = 1 if math.copysign(1.0, x) < 0 else 0
    if x == 0:
        return [0, s, 0, 0]
    if math.isinf(x):
        return [1, s, 0, 0]
    m, e = math.frexp(abs(x))
    mi = int(m * (1 << 53))
    assert math.ldexp(mi, e - 53) == abs(x)
    return [3, s, mi, e - 53]


def as_f32_bits(v):
    """bit pattern of the float32 equal to the double v, or None when v is not exactly a float32 value."""
    import numpy as np
    with np.errstate(all="ignore"):
        f = np.float32(v)
    if float(f) != float(v):
        return None
    return f32_bits(float(v))


SPECIAL_F32 = [0x00000000, 0x80000000, 0x7F800000, 0xFF800000, 0x00000001, 0x80000001, 0x007FFFFF, 0x00800000,
               0x7F7FFFFF, 0xFF7FFFFF, 0x3F800000, 0x3DCCCCCD, 0x3EAAAAAB, 0x4B800000, 0x4B7FFFFF, 0x33800000]


def gen_feature_bits(rng):
    r = rng.random()
    if r < 0.5:
        return f32_bits(struct.unpack("<f", struct.pack("<f", rng.gauss(0, 10)))[0])
    if r < 0.7:
        return f32_bits(float(rng.randint(-50, 50)))
    if r < 0.85:
        return f32_bits(struct.unpack("<f", struct.pack("<f", round(rng.uniform(-5, 5), 2)))[0])
    if r < 0.95:
        return rng.choice(SPECIAL_F32)
    b = rng.getrandbits(32)
    while (b >> 23) & 0xFF == 0xFF and (b & 0x7FFFFF):      # no NaN (payloads do not survive text)
        b = rng.getrandbits(32)
    return b


# ----------------------------------------------------------------------------------------
# datasets and the LibOPF binary writer (the `encode_dat` of Model/Converter.v)

def gen_dataset(rng, stream, max_n, max_nf):
    nf = rng.choice([0, 1, 1, 2, 2, 3, 4, 5, max_nf]) if max_nf > 5 else rng.randint(0, max_nf)
    K = rng.randint(1, 5)
    n = rng.randint(max(2, K), max(2, K, max_n))
    if stream == "valid":
        labels = list(range(1, K + 1)) + [rng.randint(1, K) for _ in range(n - K)]
        rng.shuffle(labels)
    elif stream == "nonsequential":
        K = rng.randint(2, 6)
        gap = rng.randint(1, K - 1)                      # this (1-based) label never occurs, a larger one does
        pool = [c for c in range(1, K + 1) if c != gap]
        n = rng.randint(2, max(2, max_n))
        labels = [K] + [rng.choice(pool) for _ in range(n - 1)]
        rng.shuffle(labels)
    elif stream == "single_sample":
        n, labels = 1, [1]
    elif stream == "label_zero":
        # out of domain: LibOPF labels start at 1; a 0 becomes -1 after the shift
        labels = [0] + [rng.randint(0, K) for _ in range(n - 1)]
    else:
        raise AssertionError(stream)
    id_mode = rng.choice(["seq", "seq", "random", "dup", "big"])
    if id_mode == "seq":
        ids = list(range(n))
    elif id_mode == "random":
        ids = [rng.randint(0, 10 ** 6) for _ in range(n)]
    elif id_mode == "dup":
        ids = [rng.randint(0, 3) for _ in range(n)]
    else:
        ids = [rng.randint(2 ** 31 - 1000, 2 ** 31 - 1) for _ in range(n)]
    samples = [(ids[i], labels[i], [gen_feature_bits(rng) for _ in range(nf)]) for i in range(n)]
    n_classes = rng.choice([K, K, 0, 99])                  # header field 1 is ignored by the converters
    return dict(n_classes=n_classes, nf=nf, samples=samples, stream=stream, id_mode=id_mode, extra=[], truncate=0)


def words_of(ds):
    ws = [len(ds["samples"]), ds["n_classes"], ds["nf"]]
    for (i, l, fs) in ds["samples"]:
        ws += [i, l] + list(fs)
    ws += ds.get("extra", [])
    if ds.get("truncate"):
        ws = ws[:-ds["truncate"]]
    return ws


def write_dat(path, ds):
    """The LibOPF writer: '<iii' header, then per sample '<ii' + nf x 'f' (features written by bit pattern)."""
    with open(path, "wb") as f:
        f.write(struct.pack("<iii", len(ds["samples"]), ds["n_classes"], ds["nf"]))
        body = b""
        for (i, l, fs) in ds["samples"]:
            body += struct.pack("<ii", i, l) + b"".join(struct.pack("<I", b) for b in fs)
        body += b"".join(struct.pack("<I", w & 0xFFFFFFFF) for w in ds.get("extra", []))
        if ds.get("truncate"):
            body = body[:-4 * ds["truncate"]]
        f.write(body)


def flat_rows(rows):
    out = []
    for r in rows:
        out += [len(r)] + list(r)
    return out


# ----------------------------------------------------------------------------------------
# implementation: convert -> load -> parse -> Subgraph

def canon_row(row):
    """loaded float64 row -> [id, label, f32 bits...] or a string naming what is not exact."""
    out = []
    for k, v in enumerate(row):
        v = float(v)
        if k < 2:
            if v != v or math.isinf(v) or v != int(v):
                return "column %d holds %r, not an integer" % (k, v)
            out.append(int(v))
        else:
            b = as_f32_bits(v)
            if b is None:
                return "feature %r is not a float32 value" % v
            out.append(b)
    return out


def run_pipeline_impl(ds, tag):
    """Returns per format: dict(convert=..., rows=..., parse=..., X=, Y=, subgraph=...)."""
    import numpy as np
    import opfython.utils.converter as cv
    import opfython.utils.exception as e
    from opfython.stream import loader, parser
    from opfython.core import Subgraph
    os.makedirs(TMP, exist_ok=True)
    # the same few paths are written again and again with different datasets (a converter output regenerated in
    # place): every load must reflect the file as it is now
    tag = "ds%d" % (sum(map(ord, str(tag))) % 2)
    dat = os.path.join(TMP, "%s.dat" % tag)
    write_dat(dat, ds)
    res = {}
    convs = dict(txt=cv.opf2txt, csv=cv.opf2csv, json=cv.opf2json)
    loads = dict(txt=loader.load_txt, csv=loader.load_csv, json=loader.load_json)
    for fmt in FORMATS:
        out = os.path.join(TMP, "%s_%s.%s" % (tag, fmt, fmt))
        r = dict(convert=None, rows=None, parse=None, X=None, Y=None, subgraph=None, y_dtype=None)
        res[fmt] = r
        with warnings.catch_warnings():
            warnings.simplefilter("ignore")
            try:
                convs[fmt](dat, out)
                r["convert"] = "ok"
            except struct.error:
                r["convert"] = "struct.error"
                continue
            except Exception as ex:  # noqa
                r["convert"] = "exc:" + type(ex).__name__
                continue
            try:
                data = loads[fmt](out)
            except Exception as ex:  # noqa
                r["rows"] = "exc:" + type(ex).__name__
                continue
            if data is None:
                r["rows"] = "none"
                continue
            data = np.asarray(data)
            r["ndim"] = data.ndim
            if data.ndim == 2:
                rows = [canon_row(row) for row in data]
                bad = [x for x in rows if isinstance(x, str)]
                r["rows"] = ("inexact: " + bad[0]) if bad else rows
            else:
                r["rows"] = "shape:%r" % (data.shape,)
            try:
                X, Y = parser.parse_loader(data)
                if X is None:
                    r["parse"] = "none"
                else:
                    r["parse"] = "ok"
                    r["y_dtype"] = str(Y.dtype)
                    xr = [[as_f32_bits(v) for v in row] for row in X]
                    r["X"] = xr
                    r["Y"] = [int(v) for v in Y]
                    try:
                        X *= 0.5          # callers may post-process the parsed features in place (X is a view of the loaded data)
                    except Exception:     # noqa
                        pass
                    if any(float(v) != int(v) for v in Y):
                        r["parse"] = "labels not integral"
            except e.ValueError:
                r["parse"] = "opf.ValueError"
            except Exception as ex:  # noqa
                r["parse"] = "exc:" + type(ex).__name__
            try:
                s = Subgraph(from_file=out)
                r["subgraph"] = dict(n_nodes=s.n_nodes, n_features=s.n_features,
                                     idx=[nd.idx for nd in s.nodes], labels=[nd.label for nd in s.nodes],
                                     features=[[as_f32_bits(v) for v in nd.features] for nd in s.nodes])
            except e.ValueError:
                r["subgraph"] = "opf.ValueError"
            except Exception as ex:  # noqa
                r["subgraph"] = "exc:" + type(ex).__name__
    for fn in os.listdir(TMP):
        if fn.startswith(tag):
            os.unlink(os.path.join(TMP, fn))
    return res


def expected_from_impl(res):
    """The implementation's answers in the format of RunSM.run_c18 (convert x3 then pipeline x3)."""
    out = []
    for fmt in FORMATS:
        r = res[fmt]
        if r["convert"] == "struct.error":
            out += [0]
        elif isinstance(r["rows"], list):
            out += [1, len(r["rows"])] + flat_rows(r["rows"])
        else:
            out += [-99]                                   # something the model cannot produce
    for fmt in FORMATS:
        r = res[fmt]
        if r["convert"] == "struct.error":
            out += [-1]
        elif r["parse"] == "opf.ValueError":
            out += [0]
        elif r["parse"] == "ok" and all(b is not None for row in r["X"] for b in row):
            out += [1, len(r["Y"])] + flat_rows(r["X"]) + r["Y"]
        else:
            out += [-99]
    return out


def convert_oracle(ds, res):
    """C18 on the implementation's outputs (valid / nonsequential streams). Returns (key, message) or None."""
    want_rows = [[i, l - 1] + list(fs) for (i, l, fs) in ds["samples"]]
    want_X = [list(fs) for (_, _, fs) in ds["samples"]]
    want_Y = [l - 1 for (_, l, _) in ds["samples"]]
    sequential = set(want_Y) == set(range(max(want_Y) + 1))
    for fmt in FORMATS:
        r = res[fmt]
        key = "converter.opf2%s" % fmt
        if r["convert"] != "ok":
            return key, "opf2%s failed on a well-formed file: %s" % (fmt, r["convert"])
        if not isinstance(r["rows"], list):
            return key, "%s: loading the converted file gave %s" % (fmt, r["rows"])
        if r["rows"] != want_rows:
            k = next(i for i in range(max(len(want_rows), len(r["rows"])))
                     if i >= len(want_rows) or i >= len(r["rows"]) or want_rows[i] != r["rows"][i])
            return key, ("%s: loaded row %d is %r, stored sample is %r (id, label-1, float32 bit patterns)"
                         % (fmt, k, r["rows"][k] if k < len(r["rows"]) else None, want_rows[k] if k < len(want_rows) else None))
        if not sequential:
            if r["parse"] != "opf.ValueError":
                return "parser.parse_loader", "%s: labels %r are not sequential but parse_loader answered %s" % (
                    fmt, sorted(set(want_Y)), r["parse"])
            continue
        if r["parse"] != "ok":
            return "parser.parse_loader", "%s: sequential labels but parse_loader answered %s" % (fmt, r["parse"])
        if r["X"] != want_X or r["Y"] != want_Y:
            return "parser.parse_loader", "%s: parsed features/labels differ from the stored samples" % fmt
        if not r["y_dtype"].startswith("int"):
            return "parser.parse_loader", "%s: labels come back with dtype %s" % (fmt, r["y_dtype"])
        s = r["subgraph"]
        if not isinstance(s, dict):
            return "subgraph.from_file", "%s: Subgraph(from_file) answered %s" % (fmt, s)
        if s["n_nodes"] != len(want_Y) or s["labels"] != want_Y or s["features"] != want_X or \
                s["idx"] != list(range(len(want_Y))) or s["n_features"] != ds["nf"]:
            return "subgraph.from_file", "%s: Subgraph(from_file) nodes differ from the stored samples" % fmt
    a = res["txt"]
    for fmt in ("csv", "json"):
        b = res[fmt]
        if (a["rows"], a["parse"], a["X"], a["Y"]) != (b["rows"], b["parse"], b["X"], b["Y"]):
            return "converter.opf2%s" % fmt, "txt and %s disagree" % fmt
    return None


def shrink_dataset(ds, key):
    """Drop samples / features while the same violation (by key) persists and the stream's validity is kept."""
    def viol(d):
        if len(d["samples"]) < 2:
            return False
        ys = [l - 1 for (_, l, _) in d["samples"]]
        if d["stream"] == "valid" and set(ys) != set(range(max(ys) + 1)):
            return False
        v = convert_oracle(d, run_pipeline_impl(d, "shrink"))
        return v is not None and v[0] == key
    cur = ds
    changed = True
    while changed:
        changed = False
        for i in range(len(cur["samples"])):
            cand = dict(cur, samples=cur["samples"][:i] + cur["samples"][i + 1:])
            if viol(cand):
                cur = cand; changed = True
                break
        if not changed and cur["nf"] > 1:
            cand = dict(cur, nf=cur["nf"] - 1, samples=[(i, l, fs[:-1]) for (i, l, fs) in cur["samples"]])
            if viol(cand):
                cur = cand; changed = True
    return cur


# ----------------------------------------------------------------------------------------
# split / merge

PERCENTAGES = [0.0, 1.0, 0.5, 0.1, 0.9, 1.0 / 3, 0.7, 0.29, 0.99, 0.25]


# (n, percentage) pairs whose binary64 product lies a hair below an integer (100 * 0.29 = 28.999999999999996): the first
# set has int(n * percentage) samples, the truncated float product - any rounding before the truncation changes it
NEAR_INTEGER = [(n_, k_ / 100.0) for n_ in range(2, 121) for k_ in range(1, 100)
                if int(n_ * (k_ / 100.0)) != int(round(n_ * (k_ / 100.0), 8))]


def gen_split_case(rng, max_n, near=None):
    if near is not None:
        n, pct_ = near
        return dict(X=[[rng.gauss(0, 5)] for _ in range(n)], Y=[rng.randrange(3) for _ in range(n)], pct=pct_,
                    seed=rng.randrange(2 ** 32), mode="near_integer")
    n = rng.choice([1, 2, 3, 4, 5, 7, 10, 13, 20, rng.randint(1, max_n), rng.randint(1, max_n)])
    nf = rng.randint(1, 5)
    mode = rng.choice(["distinct", "distinct", "dups", "ints", "sparse"])
    if mode == "sparse":
        # sparse / bag-of-words style rows: many all-zero feature vectors (also -0.0), so that one part of a small split can
        # consist of zero vectors only
        X = [[0.0 if rng.random() < 0.5 else -0.0 for _ in range(nf)] if rng.random() < 0.5 else
             [0.0 if rng.random() < 0.6 else float(rng.randint(1, 4)) for _ in range(nf)] for _ in range(n)]
    elif mode == "distinct":
        X = [[rng.gauss(0, 5) for _ in range(nf)] for _ in range(n)]
    elif mode == "dups":
        pool = [[rng.gauss(0, 5) for _ in range(nf)] for _ in range(max(1, n // 3))]
        X = [list(rng.choice(pool)) for _ in range(n)]
    else:
        X = [[float(rng.randint(0, 3)) for _ in range(nf)] for _ in range(n)]
    K = rng.randint(1, 5)
    Y = [rng.randrange(K) for _ in range(n)] if rng.random() < 0.7 else list(range(n))
    pct = rng.choice(PERCENTAGES) if rng.random() < 0.6 else rng.random()
    if mode == "sparse" and rng.random() < 0.7 and n >= 2:
        pct = rng.choice([1.0 / n, 1.5 / n, 1.0 - 1.0 / n, 0.1, 0.9])
    seed = rng.choice([0, 1, 2, 42, 2 ** 32 - 1, rng.randrange(2 ** 32), rng.randrange(2 ** 32)])
    return dict(X=X, Y=Y, pct=pct, seed=seed, mode=mode)


def run_split_impl(c):
    import numpy as np
    import opfython.stream.splitter as sp
    X = np.asarray(c["X"], dtype=float).reshape(len(c["X"]), len(c["X"][0]))
    if c.get("dtype"):
        X = X.astype(c["dtype"])         # whole-number features held in a narrow type (pixels, counts): values unchanged
    Y = np.asarray(c["Y"], dtype=int)
    X0, Y0 = X.copy(), Y.copy()

    def lst(t):
        return [np.asarray(a).tolist() for a in t]
    r = {}
    try:
        r["split"] = lst(sp.split(X, Y, c["pct"], c["seed"]))
        r["split_again"] = lst(sp.split(X, Y, c["pct"], c["seed"]))
        r["index"] = lst(sp.split_with_index(X, Y, c["pct"], c["seed"]))
        r["index_again"] = lst(sp.split_with_index(X, Y, c["pct"], c["seed"]))
        a = sp.split(X, Y, c["pct"], c["seed"])
        r["merge"] = lst(sp.merge(*a))
        r["inputs_untouched"] = bool((X == X0).all() and (Y == Y0).all())
    except Exception as ex:  # noqa
        r["exc"] = type(ex).__name__ + ": " + str(ex)[:200]
    return r


def perm_and_halt(c):
    """The two runtime-library inputs of the model, obtained independently of the implementation."""
    import numpy as np
    n = len(c["X"])
    np.random.seed(c["seed"])
    perm = [int(v) for v in np.random.permutation(n)]
    return perm, int(n * c["pct"])


def bits_rows(rows):
    return [[f64_bits(v) for v in row] for row in rows]


def expected_split(r):
    X1, X2, Y1, Y2, I1, I2 = r["index"]
    out = [len(X1), len(X2)]
    for row in bits_rows(X1) + bits_rows(X2):
        out += row
    out += [int(v) for v in Y1] + [int(v) for v in Y2] + [int(v) for v in I1] + [int(v) for v in I2]
    Xm, Ym = r["merge"]
    out2 = [len(Xm)]
    for row in bits_rows(Xm):
        out2 += row
    out2 += [int(v) for v in Ym]
    return out + out2


def split_oracle(c, r):
    """C18 (splitting / merging) on the implementation's outputs. Returns (key, message) or None."""
    if "exc" in r:
        return "splitter.split", "raised " + r["exc"]
    n = len(c["X"])
    Xb = bits_rows(c["X"])
    Y = list(c["Y"])
    h = int(n * c["pct"])
    X1, X2, Y1, Y2, I1, I2 = r["index"]
    if r["index"] != r["index_again"]:
        return "splitter.split_with_index", "two calls with the same seed differ"
    if r["split"] != r["split_again"]:
        return "splitter.split", "two calls with the same seed differ"
    if len(X1) != h or len(Y1) != h or len(I1) != h:
        return "splitter.split_with_index", "first set has %d samples, floor(n*percentage) = int(%d*%r) = %d" % (len(X1), n, c["pct"], h)
    I = [int(v) for v in I1 + I2]
    if sorted(I) != list(range(n)):
        return "splitter.split_with_index", "returned indices %r are not each row exactly once" % I
    Xo = bits_rows(X1) + bits_rows(X2)
    Yo = [int(v) for v in Y1 + Y2]
    if len(Xo) != n or len(Yo) != n:
        return "splitter.split_with_index", "outputs hold %d rows / %d labels for %d samples" % (len(Xo), len(Yo), n)
    for k in range(n):
        if Xo[k] != Xb[I[k]]:
            return "splitter.split_with_index", "output row %d is not input row %d (its returned index)" % (k, I[k])
        if Yo[k] != Y[I[k]]:
            return "splitter.split_with_index", "output row %d carries label %d, input row %d has label %d" % (k, Yo[k], I[k], Y[I[k]])
    # split (no index): every (row, label) pair exactly once, first part of size h
    S1, S2, T1, T2 = r["split"]
    if len(S1) != h or len(T1) != h:
        return "splitter.split", "first set has %d samples, floor(n*percentage) = %d" % (len(S1), h)
    got = sorted((tuple(row), int(y)) for row, y in zip(bits_rows(S1) + bits_rows(S2), T1 + T2))
    want = sorted((tuple(row), int(y)) for row, y in zip(Xb, Y))
    if len(S1) + len(S2) != n or len(T1) + len(T2) != n or got != want:
        return "splitter.split", "the two sets are not the input samples with their own labels, each exactly once"
    Xm, Ym = r["merge"]
    gotm = sorted((tuple(row), int(y)) for row, y in zip(bits_rows(Xm), Ym))
    if len(Xm) != n or len(Ym) != n or gotm != want:
        return "splitter.merge", "merge(split(X, Y)) is not a permutation of the input samples"
    if not r["inputs_untouched"]:
        return "splitter.split", "the caller's arrays were modified"
    return None


# ----------------------------------------------------------------------------------------

def main(tier, seed):
    setup_impl_env()
    rep = Report("C18", tier, seed)
    rep.rule = ("datasets: 2..40 (quick) / ..150 (thorough) samples, 0..8 features, 1..5 classes, ids sequential / random / "
                "duplicated / near 2^31, features as float32 bit patterns (gaussian, integers, 2-decimal values, specials: "
                "+-0, +-inf, subnormals, max, random bit patterns; no NaN), header n_classes right or wrong; streams: valid "
                "(labels 1..K all present), nonsequential (a label below the maximum missing), and compared-only edge streams "
                "(single sample, label 0, trailing words, truncated file); every dataset goes through opf2txt/opf2csv/opf2json, "
                "load_*, parse_loader, Subgraph(from_file). split: n in 1..60 (quick) / ..200, 1..5 features, seeds incl. 0, 1, "
                "2^32-1, percentages {0, 1, .5, .1, .9, 1/3, .7, .29, .99, .25} or uniform; non-trivial = at least 2 samples "
                "(and for split 0 < halt < n); distinct = distinct input; large-size stream (oracle only): splits of 1025-1200, 2048 and "
                "4097-4400 samples, of 130-300 samples x 70 / 300 features, near-integer n*percentage at n > 1024; files of 1024, 1025, "
                "2048, 2500 (1100 classes), 4097 samples, of 65-90 and 257-300 features, of 257-300 classes, non-sequential labels "
                "among > 256 classes")
    standard_proof_phase(rep, "C18", NEEDED)
    rng = random.Random(seed)
    if os.path.isdir(TMP):
        shutil.rmtree(TMP)
    os.makedirs(TMP, exist_ok=True)
    try:
        _main_body(rep, rng, tier)
    finally:
        shutil.rmtree(TMP, ignore_errors=True)
    return rep.finish()


def _main_body(rep, rng, tier):
    quick = tier == "quick"
    n_valid = 110 if quick else 900
    n_nonseq = 40 if quick else 250
    n_edge = 40 if quick else 200
    max_n = 40 if quick else 150
    datasets = []
    for i in range(n_valid):
        datasets.append(gen_dataset(rng, "valid", max_n if i % 7 else 3, 8))
    for i in range(n_nonseq):
        datasets.append(gen_dataset(rng, "nonsequential", max_n, 8))
    for i in range(n_edge):
        k = i % 4
        if k == 0:
            ds = gen_dataset(rng, "single_sample", 1, 5)
        elif k == 1:
            ds = gen_dataset(rng, "label_zero", 12, 4)
        elif k == 2:
            ds = gen_dataset(rng, "valid", 12, 4)
            ds["extra"] = [rng.getrandbits(31) for _ in range(rng.randint(1, 5))]
            ds["stream"] = "trailing_words"
        else:
            ds = gen_dataset(rng, "valid", 12, 4)
            ds["truncate"] = rng.randint(1, 2 + ds["nf"])
            ds["stream"] = "truncated"
        datasets.append(ds)
    judged = ("valid", "nonsequential")
    stats = dict(streams={}, n_samples={}, n_features={}, id_modes={}, feature_words=0)
    terms, expect, results = [], [], []
    for k, ds in enumerate(datasets):
        res = run_pipeline_impl(ds, "d%05d" % k)
        results.append(res)
        ws = words_of(ds)
        terms.append("run_c18 %s" % zlist(ws))
        expect.append(expected_from_impl(res))
        st = ds["stream"]
        stats["streams"][st] = stats["streams"].get(st, 0) + 1
        n = len(ds["samples"])
        b = "%d-%d" % (n // 20 * 20, n // 20 * 20 + 19)
        stats["n_samples"][b] = stats["n_samples"].get(b, 0) + 1
        stats["n_features"][ds["nf"]] = stats["n_features"].get(ds["nf"], 0) + 1
        stats["id_modes"][ds["id_mode"]] = stats["id_modes"].get(ds["id_mode"], 0) + 1
        stats["feature_words"] += n * ds["nf"]
        rep.count_case(("convert", ws), n >= 2)
    dis, first = 0, None
    edge_notes = {}
    try:
        got = run_cases("C18", terms, requires=("Model.RunSM",), chunk=60)
        for ds, g, e_, res in zip(datasets, got, expect, results):
            if ds["stream"] == "single_sample":
                # known divergence outside the judged domain: np.loadtxt returns a 1-D array for one row,
                # parse_loader then raises IndexError (txt, csv); json is unaffected
                note = "single_sample: " + ", ".join("%s parse=%s" % (f, res[f]["parse"]) for f in FORMATS)
                edge_notes[note] = edge_notes.get(note, 0) + 1
                continue
            if g != e_:
                dis += 1
                if first is None:
                    first = "stream=%s words=%r: model %r / implementation %r" % (ds["stream"], words_of(ds)[:40], g[:40], e_[:40])
            if ds["stream"] == "label_zero":
                ys = sorted(set(l - 1 for (_, l, _) in ds["samples"]))
                acc = res["txt"]["parse"] == "ok"
                if acc and set(ys) != set(range(max(ys) + 1)):
                    note = "label_zero: parse_loader accepts non-sequential labels containing -1 (model agrees; Props/C18 parse_accepts_nonsequential_with_negative)"
                    edge_notes[note] = edge_notes.get(note, 0) + 1
        rep.obligation("correspondence Converter/Stream model vs opf2txt/opf2csv/opf2json + load_* + parse_loader "
                       "(rows and parsed arrays exact, float32 by bit pattern)", dis == 0,
                       "" if dis == 0 else "%d disagreements; first: %s" % (dis, first))
    except RuntimeError as ex:
        rep.obligation("correspondence Converter/Stream model vs converter + loader + parser", False, str(ex))
    rep.corr["convert_load_parse"] = dict(cases=len(terms), disagreements=dis, distribution=stats,
                                          formats_per_case=3, compared_only=edge_notes)
    nviol = 0
    seen = set()
    for ds, res in zip(datasets, results):
        if ds["stream"] not in judged:
            continue
        v = convert_oracle(ds, res)
        if v:
            nviol += 1
            key, msg = v
            if key in seen:
                continue
            seen.add(key)
            small = shrink_dataset(ds, key)
            v2 = convert_oracle(small, run_pipeline_impl(small, "shrunk")) or v
            rep.violation("%s breaks C18: %s" % (v2[0], v2[1]),
                          dict(kind="convert", n_classes=small["n_classes"], nf=small["nf"], stream=small["stream"],
                               samples=[[i, l, list(fs)] for (i, l, fs) in small["samples"]]), key=key)
    rep.extra["convert_oracle_violations"] = nviol

    # ---- split / merge
    n_split = 300 if quick else 2500
    scases = [gen_split_case(rng, 60 if quick else 200) for _ in range(n_split)]
    scases += [gen_split_case(rng, 0, near=pr) for pr in (NEAR_INTEGER[:12] if quick else NEAR_INTEGER)]
    # whole-number features in narrow types with more rows than the type can count (uint8: 256, int8: 128, float16: 2048
    # exactly representable integers): the row indices handed back are positions, whatever the feature dtype
    for dt_, n_ in (("uint8", 300), ("int8", 140), ("uint8", 257), ("int16", 90)) + ((("float16", 2100),) if not quick else ()):
        c_ = gen_split_case(rng, 0, near=(n_, rng.choice([0.5, 0.3, 0.7])))
        c_["X"] = [[float(rng.randint(0, 100)), float(rng.randint(0, 100))] for _ in range(n_)]
        c_["dtype"] = dt_; c_["mode"] = "narrow_dtype"
        scases.append(c_)
    sterms, sexpect, sres = [], [], []
    sstats = dict(n={}, percentages={}, modes={}, halt_zero=0, halt_all=0, halt_float_vs_exact_floor_differs=0)
    for c in scases:
        r = run_split_impl(c)
        sres.append(r)
        perm, h = perm_and_halt(c)
        n = len(c["X"])
        Xb = bits_rows(c["X"])
        # the model computes halt itself: binary64 product of n and the percentage, truncated (Stream.halt)
        sterms.append("run_c18_split_p %s %s %s %s" % (zlist(perm), zlist(fenc(c["pct"])), zlistlist(Xb), zlist(c["Y"])))
        sexpect.append(None if "exc" in r else [len(r["index"][0])] + expected_split(r))
        b = "%d-%d" % (n // 20 * 20, n // 20 * 20 + 19)
        sstats["n"][b] = sstats["n"].get(b, 0) + 1
        pk = repr(c["pct"]) if c["pct"] in PERCENTAGES else "uniform"
        sstats["percentages"][pk] = sstats["percentages"].get(pk, 0) + 1
        sstats["modes"][c["mode"]] = sstats["modes"].get(c["mode"], 0) + 1
        sstats["halt_zero"] += h == 0
        sstats["halt_all"] += h == n
        if h != math.floor(Fraction(c["pct"]) * n):
            sstats["halt_float_vs_exact_floor_differs"] += 1
        rep.count_case(("split", Xb, c["Y"], c["pct"].hex(), c["seed"]), n >= 2 and 0 < h < n)
    sdis, sfirst = 0, None
    try:
        sgot = run_cases("C18s", sterms, requires=("Model.RunSM",), chunk=40)
        for c, g, e_ in zip(scases, sgot, sexpect):
            if g != e_:
                sdis += 1
                if sfirst is None:
                    sfirst = "n=%d pct=%r seed=%d: model %r / implementation %r" % (len(c["X"]), c["pct"], c["seed"], g[:30], (e_ or ["exc"])[:30])
        rep.obligation("correspondence Stream model vs splitter.split / split_with_index / merge "
                       "(perm re-seeded in the harness, halt computed by the model under binary64; all outputs exact)", sdis == 0,
                       "" if sdis == 0 else "%d disagreements; first: %s" % (sdis, sfirst))
    except RuntimeError as ex:
        rep.obligation("correspondence Stream model vs splitter", False, str(ex))
    rep.corr["split_merge"] = dict(cases=len(sterms), disagreements=sdis, distribution=sstats)
    nsv = 0
    seen = set()
    for c, r in zip(scases, sres):
        v = split_oracle(c, r)
        if v:
            nsv += 1
            if v[0] in seen:
                continue
            seen.add(v[0])
            small = shrink_split(c, v[0])
            v2 = split_oracle(small, run_split_impl(small)) or v
            rep.violation("%s breaks C18: %s" % (v2[0], v2[1]),
                          dict(kind="split", X=[[float(x).hex() for x in row] for row in small["X"]], Y=small["Y"],
                               percentage=float(small["pct"]).hex(), seed=small["seed"]), key=v[0])
    rep.extra["split_oracle_violations"] = nsv

    # ---- large-size stream: splits of > 1024 / > 4096 samples, files of 1024 .. 4097 samples, > 64 / > 256 features,
    # > 256 classes (harness/large_b.py), judged by split_oracle / convert_oracle
    import large_b
    rep.extra["large_oracle_violations"] = large_b.c18_large(rep, rep.seed, tier)

    rep.samples = [dict(stream=d["stream"], nf=d["nf"], n_classes=d["n_classes"], samples=d["samples"][:3]) for d in datasets[:2]] + \
                  [dict(split_n=len(c["X"]), pct=c["pct"], seed=c["seed"], Y=c["Y"][:10]) for c in scases[:2]]
    rep.assumptions = [
        "np.random.permutation(n) after np.random.seed(s) is a permutation of 0..n-1 and a function of s (checked on every case, not proved)",
        "floor(n*percentage) is read as in the code: the binary64 product truncated (Stream.halt computes it with PrimFloat and is "
        "compared with the implementation's set sizes; cases where it differs from floor of the exact product of n and the double "
        "are counted in correspondence.split_merge.distribution.halt_float_vs_exact_floor_differs); h <= n is a hypothesis of the theorems",
        "struct's '<i' / '<f' little-endian decoding (the model starts from 32-bit words)",
        "np.savetxt('%.18e') / np.loadtxt and json.dump / json.load round-trip every non-NaN float32 value exactly (checked on every case)",
        "NaN features are excluded (payloads do not survive text); labels in the binary file are >= 1 (LibOPF convention)",
        "datasets have at least 2 samples: for a single row np.loadtxt returns a 1-D array and parse_loader raises IndexError (txt/csv)",
        "Subgraph(from_file) numbers nodes by row position; the id column is dropped by parse_loader",
    ]


def shrink_split(c, key):
    def viol(d):
        v = split_oracle(d, run_split_impl(d))
        return v is not None and v[0] == key
    cur = c
    changed = True
    while changed and len(cur["X"]) > 1:
        changed = False
        for i in range(len(cur["X"])):
            cand = dict(cur, X=cur["X"][:i] + cur["X"][i + 1:], Y=cur["Y"][:i] + cur["Y"][i + 1:])
            if viol(cand):
                cur = cand; changed = True
                break
    if len(cur["X"][0]) > 1:
        cand = dict(cur, X=[row[:1] for row in cur["X"]])
        if viol(cand):
            cur = cand
    return cur


def replay(path):
    path = os.path.abspath(path)
    setup_impl_env()
    r = json.load(open(path))["replay"]
    os.makedirs(TMP, exist_ok=True)
    try:
        if r["kind"] == "convert":
            ds = dict(n_classes=r["n_classes"], nf=r["nf"], stream=r["stream"], extra=[], truncate=0, id_mode="replay",
                      samples=[(s[0], s[1], list(s[2])) for s in r["samples"]])
            v = convert_oracle(ds, run_pipeline_impl(ds, "replay"))
        elif r["kind"].startswith("large-"):
            import large_b
            v = large_b.c18_replay(r)
        else:
            c = dict(X=[[float.fromhex(x) for x in row] for row in r["X"]], Y=r["Y"],
                     pct=float.fromhex(r["percentage"]), seed=r["seed"], mode="replay")
            v = split_oracle(c, run_split_impl(c))
    finally:
        shutil.rmtree(TMP, ignore_errors=True)
    print("replay:", ("%s: %s" % v) if v else "property holds on this input")
    return 1 if v else 0
