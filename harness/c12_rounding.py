"""Float-level oracle for calculate_pdf (Props/C12_rounding.v).

The theorems of Props/C12_rounding.v are about Model/Pdf.calculate_pdf at `RndOps rnd` (reals with a rounding after
every + - * /) for EVERY monotone, sign-preserving rounding with rnd 0 = 0 (+ rnd 1 = 1, idempotence, representable
small integers where named).  numpy float64 scalar arithmetic is one such rounding, so each statement must hold
EXACTLY (no tolerance) on what KNNSubgraph.calculate_pdf leaves in a fitted subgraph:

  pdf        the unmapped values, recomputed here with the recorded constant and the same numpy operations
             (running `+=` of np.exp(-d/constant) into a float64 array cell started at 0, then `/= k+1`)
  min/max    recorded min_density / max_density are the minimum / maximum of those values          (C12_rnd_minmax)
  tree       density_i == ((999 * (pdf_i - min)) / (max - min)) + 1 evaluated in float64, bit for bit;
             cost_i == density_i - 1 in float64                                       (C12_rnd_calculate_pdf)
  monotone   pdf_i <= pdf_j  ->  density_i <= density_j   (never inverted, possibly merged)
                                                                             (C12_rnd_density_weakly_monotone)
  range      min |-> exactly 1.0 (cost exactly 0.0); every density >= 1.0; a sample attaining max has the
             largest density; flat case: exactly 1000.0 / 999.0; density <= 7994            (C12_rnd_density_range)
  cost       0 <= cost_i <= density_i and cost_i < density_i        (C12_rnd_cost_le_density, C12_rnd_cost_lt_density)

Not claimed (limits of the rounding model, C12_rnd_*_model_limit): strict monotonicity, max |-> exactly 1000.  How often
binary64 merges two distinct unmapped values, and how far the largest density is from 1000, is counted and reported.

Any disagreement on the unchanged tree is a modelling finding.
"""
import numpy as np

import c12_binary64

MAXD = 1000

STATS = dict(subgraphs=0, flat=0, samples=0, merged_pairs=0, strict_pairs=0, max_density_not_1000=0,
             max_density_above_1000=0, largest_density=0.0, min_cost_gap=None)


def binary64_hypotheses():
    """The hypotheses on the rounding function used by C12_rnd_cost_lt_density / C13_rnd_*, on binary64 itself."""
    one = np.float64(1.0)
    if np.float64(0.0) + np.float64(0.0) != 0.0 or one * one != one:
        return "rnd 0 = 0 / rnd 1 = 1 fail"
    for z in range(0, 7994):
        f = np.float64(z)
        if int(f) != z or (z >= 1 and not (f - one < f)) or f + np.float64(0.0) != f:
            return "integer %d not representable, or %d - 1 rounds back to %d" % (z, z, z)
    rng = np.random.RandomState(12)
    # representable t in [1, 7994]: t - 1 < t after rounding; idempotence and monotonicity are properties of IEEE
    # round-to-nearest; sampled here on neighbours
    for t in np.concatenate([1.0 + rng.random_sample(2000) * 7993.0, np.nextafter(np.arange(1.0, 7994.0, 37.0), np.inf)]):
        t = np.float64(t)
        if not (t - one < t):
            return "t - 1 rounds back up to t at t = %r" % float(t)
    return None


def recompute_pdf(D, adj, k, const):
    """the loop of KNNSubgraph.calculate_pdf on the arc distances, same numpy operations"""
    n = len(adj)
    pdf = np.zeros(n)
    for i in range(n):
        pdf[i] = 0
        n_pdf = 1
        for l in range(k):
            distance = np.float64(D[i][adj[i][l]])
            pdf[i] += np.exp(-distance / const)
            n_pdf += 1
        pdf[i] /= n_pdf
    return pdf


def check(D, adj, k, sg, dens, cost):
    """returns None or a message; D = distance matrix (as the generator computed it), adj = adjacency lists."""
    n = len(adj)
    const = sg.constant
    pdf = recompute_pdf(D, adj, k, const)
    mn, mx = np.float64(sg.min_density), np.float64(sg.max_density)
    c12_binary64.observe(D, adj, k, const, mn, mx, sg.density)   # counts where Props/C12_binary64_run.v's capstone applies
    STATS["subgraphs"] += 1
    STATS["samples"] += n
    if any(not (p >= 0.0) for p in pdf):
        return "an unmapped pdf value is negative or NaN: %r" % pdf.tolist()
    if mn != pdf.min() or mx != pdf.max():
        return "recorded min/max %r/%r are not the min/max %r/%r of the computed pdf values" % (float(mn), float(mx), float(pdf.min()), float(pdf.max()))
    d = [np.float64(v) for v in dens]
    c = [np.float64(v) for v in cost]
    if mn == mx:
        STATS["flat"] += 1
        for i in range(n):
            if d[i] != float(MAXD) or c[i] != float(MAXD - 1):
                return "flat case: density/cost of %d are %r/%r, expected exactly 1000/999" % (i, dens[i], cost[i])
        return None
    for i in range(n):
        want = ((MAXD - 1) * (pdf[i] - mn) / (mx - mn)) + 1
        if d[i] != want:
            return "density of %d is %r, the float64 expression tree gives %r" % (i, dens[i], float(want))
        if c[i] != d[i] - 1:
            return "cost of %d is %r, float64 density - 1 = %r" % (i, cost[i], float(d[i] - 1))
        if not d[i] >= 1.0:
            return "density of %d = %r below 1" % (i, dens[i])
        if not d[i] <= 7994.0:
            return "density of %d = %r above the a-priori bound 7994" % (i, dens[i])
        if pdf[i] == mn and (d[i] != 1.0 or c[i] != 0.0):
            return "sample %d attains the minimum but has density/cost %r/%r, expected exactly 1/0" % (i, dens[i], cost[i])
        if not (0.0 <= c[i] <= d[i]):
            return "cost of %d = %r outside [0, density = %r]" % (i, cost[i], dens[i])
        if not c[i] < d[i]:
            return "cost of %d = %r is not strictly below its density %r" % (i, cost[i], dens[i])
        gap = float(d[i] - c[i])
        if STATS["min_cost_gap"] is None or gap < STATS["min_cost_gap"]:
            STATS["min_cost_gap"] = gap
    imax = int(np.argmax(pdf))
    for i in range(n):
        if d[i] > d[imax]:
            return "sample %d (pdf %r) has a larger density than sample %d attaining the maximum" % (i, float(pdf[i]), imax)
        for j in range(n):
            if pdf[i] <= pdf[j] and not d[i] <= d[j]:
                return "order inverted: pdf %r <= %r but density %r > %r (samples %d, %d)" % (float(pdf[i]), float(pdf[j]), dens[i], dens[j], i, j)
            if pdf[i] < pdf[j]:
                if d[i] == d[j]:
                    STATS["merged_pairs"] += 1
                else:
                    STATS["strict_pairs"] += 1
    top = float(d[imax])
    if top != float(MAXD):
        STATS["max_density_not_1000"] += 1
    if top > float(MAXD):
        STATS["max_density_above_1000"] += 1
    STATS["largest_density"] = max(STATS["largest_density"], top)
    return None


def directed(rep, seed, tier):
    """Directed stream "neartop": k+1 exact duplicates (pdf = k/(k+1), the maximum), a few samples at distances of a few
    1e-16 * constant from them (pdf values a few ulps below the maximum) and one or two distant samples (they fix the
    density bound and the minimum).  This is where binary64 merges distinct unmapped values into one density -- the reason
    the float-level statement is WEAK monotonicity -- and where the largest density misses 1000 by an ulp.  Every float-level
    fact must still hold exactly."""
    import random
    from knncommon import KInst, new_subgraph, arcs_args, adj_of
    rng = random.Random(seed + 1212)
    N = 150 if tier == "quick" else 4000
    nviol = 0
    for t in range(N):
        k = rng.choice([1, 2, 2, 3])
        L = rng.uniform(1, 9)
        c = 2 * L / 9
        m, f = rng.randint(1, 4), rng.randint(1, 2)
        base = k + 1
        n = base + m + f
        D = [[L * rng.uniform(1.2, 3) for _ in range(n)] for _ in range(n)]
        for a in range(n):
            D[a][a] = 0.0
            for b in range(a):
                D[a][b] = D[b][a]

        def setd(a, b, v):
            D[a][b] = v; D[b][a] = v
        for a in range(base):
            for b in range(a):
                setd(a, b, 0.0)
        for q in range(m):
            for b in range(base):
                setd(base + q, b, rng.randint(1, 12) * 0.55e-16 * c * rng.choice([1, 1, 1, 1e3]))
        for q in range(f):
            far = base + m + q
            for a in range(far):
                setd(far, a, L * rng.uniform(0.3, 1.0))
        it = KInst("mat", None, D, n, 0, None, None)
        sg = new_subgraph(it, labels=False)
        args = arcs_args(it)
        sg.create_arcs(k, *args)
        adj = adj_of(sg)
        sg.calculate_pdf(k, *args)
        dens = [float(x.density) for x in sg.nodes]
        cost = [float(x.cost) for x in sg.nodes]
        STATS["directed"] = STATS.get("directed", 0) + 1
        msg = check(it.D, adj, k, sg, dens, cost)
        if msg:
            nviol += 1
            if nviol <= 3:
                d = it.desc(); d["k"] = k; d["stream"] = "neartop"
                rep.violation("calculate_pdf (float level, neartop stream): " + msg, d, key="calculate_pdf_rounding")
    return nviol


def summary():
    s = dict(STATS)
    s["statement"] = ("every fitted subgraph satisfies, exactly in float64: min/max attained, density = rounded expression tree, "
                      "pdf_i <= pdf_j -> density_i <= density_j, min -> 1.0, density >= 1.0, 0 <= cost <= density, cost < density; "
                      "merged_pairs = distinct pdf values mapped to one density (allowed: weak monotonicity), "
                      "max_density_not_1000 = fits whose largest density is not exactly MAX_DENSITY (allowed: model limit)")
    s["binary64_run"] = c12_binary64.summary()
    return s
