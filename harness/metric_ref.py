"""Hand-written reference closed forms of the 47 metrics, mirroring coq/theories/Spec/MetricSpec.v line by
line (NOT derived from opfython's source and not from the translator's IR).  Each `sp_<name>(o, x, y)` takes a
number system `o` (harness/errnum.py: plain floats, 60-digit decimals, error-tracking floats) and two
equal-length lists of numbers of that system.  `reference(name, o, xs, ys)` applies the EPSILON shift for the
metrics that MetricSpec states on shifted vectors (the decorated ones) and returns the value.

DOMAIN gives, per metric, the vectors the property quantifies over:
   real    all reals (zeros, mixed signs, equal entries)
   nonneg  entries >= 0 (square roots of the entries)
   pos     strictly positive entries (ratios / logarithms of the entries)
"""
from errnum import total

EPSILON = (1, 10 ** 20)
MAX_ARC_WEIGHT = 100000


def sum2(o, f, x, y):
    return total(o, [f(a, b) for a, b in zip(x, y)])


def count2(o, p, x, y):
    return o.const(sum(1 for a, b in zip(x, y) if p(a, b)))


def lmax(o, l):
    if not l:
        return o.const(0)
    acc = l[0]
    for v in l[1:]:
        acc = o.max(acc, v)
    return acc


def length(o, x):
    return o.const(len(x))


def sq(a):
    return a * a


def dot(o, x, y):
    return sum2(o, lambda a, b: a * b, x, y)


# ----- L_p / Minkowski family
def sp_squared_euclidean(o, x, y): return sum2(o, lambda a, b: sq(a - b), x, y)
def sp_euclidean(o, x, y): return o.sqrt(sp_squared_euclidean(o, x, y))
def sp_average_euclidean(o, x, y): return o.sqrt(o.div(sp_squared_euclidean(o, x, y), length(o, x)))
def sp_manhattan(o, x, y): return sum2(o, lambda a, b: o.abs(a - b), x, y)
def sp_chebyshev(o, x, y): return lmax(o, [o.abs(a - b) for a, b in zip(x, y)])
def sp_gower(o, x, y): return o.div(sp_manhattan(o, x, y), length(o, x))
def sp_non_intersection(o, x, y): return o.const(1, 2) * sp_manhattan(o, x, y)
def sp_hamming(o, x, y): return count2(o, lambda a, b: o.ne(a, b), x, y)


def sp_mean_censored_euclidean(o, x, y):
    return o.sqrt(o.div(sp_squared_euclidean(o, x, y), count2(o, lambda a, b: o.ne(a + b, o.const(0)), x, y)))


def sp_log_euclidean(o, x, y): return o.const(MAX_ARC_WEIGHT) * o.log(sp_euclidean(o, x, y) + o.const(1))
def sp_log_squared_euclidean(o, x, y): return o.const(MAX_ARC_WEIGHT) * o.log(sp_squared_euclidean(o, x, y) + o.const(1))
def sp_gaussian(o, x, y, gamma=None): return o.exp(-(o.const(1) if gamma is None else gamma) * sp_euclidean(o, x, y))


# ----- L1 family
def sp_bray_curtis(o, x, y): return o.div(sum2(o, lambda a, b: o.abs(a - b), x, y), sum2(o, lambda a, b: a + b, x, y))
def sp_canberra(o, x, y): return sum2(o, lambda a, b: o.div(o.abs(a - b), o.abs(a) + o.abs(b)), x, y)
def sp_lorentzian(o, x, y): return sum2(o, lambda a, b: o.log(o.const(1) + o.abs(a - b)), x, y)
def sp_kulczynski(o, x, y): return o.div(sum2(o, lambda a, b: o.abs(a - b), x, y), sum2(o, o.min, x, y))
def sp_soergel(o, x, y): return o.div(sum2(o, lambda a, b: o.abs(a - b), x, y), sum2(o, o.max, x, y))


# ----- inner-product family
def _cos(o, x, y): return o.div(dot(o, x, y), o.sqrt(dot(o, x, x)) * o.sqrt(dot(o, y, y)))
def sp_cosine(o, x, y): return o.const(1) - _cos(o, x, y)
def sp_chord(o, x, y): return o.sqrt(o.const(2) - o.const(2) * _cos(o, x, y))
def sp_dice(o, x, y): return o.const(1) - o.div(o.const(2) * dot(o, x, y), dot(o, x, x) + dot(o, y, y))
def sp_jaccard(o, x, y): return o.div(sp_squared_euclidean(o, x, y), dot(o, x, x) + dot(o, y, y) - dot(o, x, y))


# ----- squared-chord / fidelity family
def sp_squared_chord(o, x, y): return sum2(o, lambda a, b: sq(o.sqrt(a) - o.sqrt(b)), x, y)
def sp_matusita(o, x, y): return o.sqrt(sp_squared_chord(o, x, y))
def sp_hellinger(o, x, y): return o.sqrt(o.const(2) * sp_squared_chord(o, x, y))
def sp_bhattacharyya(o, x, y): return -o.log(sum2(o, lambda a, b: o.sqrt(a * b), x, y))


# ----- chi-squared family
def sp_squared(o, x, y): return sum2(o, lambda a, b: o.div(sq(a - b), a + b), x, y)
def sp_chi_squared(o, x, y): return o.const(1, 2) * sp_squared(o, x, y)
def sp_sangvi(o, x, y): return o.const(2) * sp_squared(o, x, y)
def sp_neyman(o, x, y): return sum2(o, lambda a, b: o.div(sq(a - b), a), x, y)
def sp_pearson(o, x, y): return sum2(o, lambda a, b: o.div(sq(a - b), b), x, y)
def sp_divergence(o, x, y): return o.const(2) * sum2(o, lambda a, b: o.div(sq(a - b), sq(a + b)), x, y)
def sp_clark(o, x, y): return o.sqrt(sum2(o, lambda a, b: sq(o.div(a - b, o.abs(a + b))), x, y))
def sp_additive_symmetric(o, x, y): return o.const(2) * sum2(o, lambda a, b: o.div(sq(a - b) * (a + b), a * b), x, y)
def sp_max_symmetric(o, x, y): return o.max(sp_neyman(o, x, y), sp_pearson(o, x, y))
def sp_min_symmetric(o, x, y): return o.min(sp_neyman(o, x, y), sp_pearson(o, x, y))


# ----- Shannon-entropy family
def sp_kullback_leibler(o, x, y): return sum2(o, lambda a, b: a * o.log(o.div(a, b)), x, y)
def sp_jeffreys(o, x, y): return sum2(o, lambda a, b: (a - b) * o.log(o.div(a, b)), x, y)
def sp_k_divergence(o, x, y): return sum2(o, lambda a, b: a * o.log(o.div(o.const(2) * a, a + b)), x, y)
def sp_topsoe(o, x, y): return sp_k_divergence(o, x, y) + sp_k_divergence(o, y, x)
def sp_jensen_shannon(o, x, y): return o.const(1, 2) * sp_topsoe(o, x, y)


def sp_jensen(o, x, y):
    two = o.const(2)
    return o.const(1, 2) * sum2(
        o, lambda a, b: o.div(a * o.log(a) + b * o.log(b), two) - o.div(a + b, two) * o.log(o.div(a + b, two)), x, y)


# ----- Vicissitude family and others
def sp_vicis_wave_hedges(o, x, y): return sum2(o, lambda a, b: o.div(o.abs(a - b), o.min(a, b)), x, y)
def sp_vicis_symmetric1(o, x, y): return sum2(o, lambda a, b: o.div(sq(a - b), sq(o.min(a, b))), x, y)
def sp_vicis_symmetric2(o, x, y): return sum2(o, lambda a, b: o.div(sq(a - b), o.min(a, b)), x, y)
def sp_vicis_symmetric3(o, x, y): return sum2(o, lambda a, b: o.div(sq(a - b), o.max(a, b)), x, y)


def sp_statistic(o, x, y):
    two = o.const(2)
    return sum2(o, lambda a, b: o.div(a - o.div(a + b, two), o.div(a + b, two)), x, y)


def hassanat1(o, a, b):
    one, mn, mx = o.const(1), o.min(a, b), o.max(a, b)
    if o.le(o.const(0), mn):
        return one - o.div(one + mn, one + mx)
    return one - o.div(one + mn + o.abs(mn), one + mx + o.abs(mn))


def sp_hassanat(o, x, y): return sum2(o, lambda a, b: hassanat1(o, a, b), x, y)


# name -> (closed form, stated on EPSILON-shifted vectors?, domain)
TABLE = {
    "additive_symmetric": (sp_additive_symmetric, True, "pos"),
    "average_euclidean": (sp_average_euclidean, False, "real"),
    "bhattacharyya": (sp_bhattacharyya, True, "pos"),
    "bray_curtis": (sp_bray_curtis, True, "pos"),
    "canberra": (sp_canberra, True, "real"),
    "chebyshev": (sp_chebyshev, False, "real"),
    "chi_squared": (sp_chi_squared, True, "pos"),
    "chord": (sp_chord, True, "real"),
    "clark": (sp_clark, True, "real"),
    "cosine": (sp_cosine, True, "real"),
    "dice": (sp_dice, True, "real"),
    "divergence": (sp_divergence, True, "pos"),
    "euclidean": (sp_euclidean, False, "real"),
    "gaussian": (sp_gaussian, False, "real"),
    "gower": (sp_gower, False, "real"),
    "hamming": (sp_hamming, False, "real"),
    "hassanat": (sp_hassanat, True, "real"),
    "hellinger": (sp_hellinger, False, "nonneg"),
    "jaccard": (sp_jaccard, True, "real"),
    "jeffreys": (sp_jeffreys, True, "pos"),
    "jensen": (sp_jensen, True, "pos"),
    "jensen_shannon": (sp_jensen_shannon, True, "pos"),
    "k_divergence": (sp_k_divergence, True, "pos"),
    "kulczynski": (sp_kulczynski, True, "pos"),
    "kullback_leibler": (sp_kullback_leibler, True, "pos"),
    "log_euclidean": (sp_log_euclidean, False, "real"),
    "log_squared_euclidean": (sp_log_squared_euclidean, False, "real"),
    "lorentzian": (sp_lorentzian, False, "real"),
    "manhattan": (sp_manhattan, False, "real"),
    "matusita": (sp_matusita, False, "nonneg"),
    "max_symmetric": (sp_max_symmetric, True, "pos"),
    "mean_censored_euclidean": (sp_mean_censored_euclidean, True, "real"),
    "min_symmetric": (sp_min_symmetric, True, "pos"),
    "neyman": (sp_neyman, True, "pos"),
    "non_intersection": (sp_non_intersection, False, "real"),
    "pearson": (sp_pearson, True, "pos"),
    "sangvi": (sp_sangvi, True, "pos"),
    "soergel": (sp_soergel, True, "pos"),
    "squared": (sp_squared, True, "pos"),
    "squared_chord": (sp_squared_chord, False, "nonneg"),
    "squared_euclidean": (sp_squared_euclidean, False, "real"),
    "statistic": (sp_statistic, True, "pos"),
    "topsoe": (sp_topsoe, True, "pos"),
    "vicis_symmetric1": (sp_vicis_symmetric1, True, "pos"),
    "vicis_symmetric2": (sp_vicis_symmetric2, True, "pos"),
    "vicis_symmetric3": (sp_vicis_symmetric3, True, "pos"),
    "vicis_wave_hedges": (sp_vicis_wave_hedges, True, "pos"),
}

DOMAIN = {k: v[2] for k, v in TABLE.items()}


def reference(name, o, xs, ys):
    """value of the closed form of `name` on the float vectors xs, ys in the number system `o`"""
    f, shifted, _ = TABLE[name]
    x = [o.of_float(a) for a in xs]
    y = [o.of_float(b) for b in ys]
    if shifted:
        eps = o.const(*EPSILON)
        x = [a + eps for a in x]
        y = [b + eps for b in y]
    return f(o, x, y)
