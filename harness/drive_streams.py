"""Streams about how the library is driven (see harness/drive.py), shared by several checks."""
import os

import numpy as np

import drive


def _state(m):
    return [(float(nd.cost), int(nd.pred), int(nd.predicted_label), int(nd.cluster_label), int(nd.root), int(nd.status)) for nd in m.subgraph.nodes]


def file_models(rep, rng, tier, kinds=("sup", "semi", "unsup"), key="determinism"):
    """Models built on a pre-computed distance FILE whose name recurs with other content of the same size: equal argument
    values (the file's content when the model is built, the index arrays) must give the forest and predictions of a model
    that received the same matrix through its attributes.  Returns the number of violations."""
    from opfython.models.supervised import SupervisedOPF
    from opfython.models.semi_supervised import SemiSupervisedOPF
    from opfython.models.unsupervised import UnsupervisedOPF
    nviol = 0
    runs = 0
    rounds = 3 if tier == "quick" else 40
    for rd in range(rounds):
        N = rng.randint(9, 14)
        ext = rng.choice(["txt", "csv"])
        path = os.path.join(drive.tmpdir(), "fold_distances." + ext)
        rel = rng.random() < 0.3      # sometimes addressed by a relative name
        for step in range(4):
            # a symmetric matrix of non-negative entries: every file of this round has the same byte length
            pts = np.array([[rng.uniform(0, 10) * (1 + 9 * (step % 2)) for _ in range(2)] for _ in range(N)])
            D = np.sqrt(((pts[:, None, :] - pts[None, :, :]) ** 2).sum(-1))
            np.savetxt(path, D, delimiter=" " if ext == "txt" else ",")
            size = os.path.getsize(path)
            perm = list(range(N)); rng.shuffle(perm)
            ntr = N - 3
            Itr, Ite = np.array(perm[:ntr]), np.array(perm[ntr:])
            Y = np.array([1 + (j % 2) for j in range(ntr)])
            Z = np.zeros((N, 1))
            for kind in kinds:
                cls = dict(sup=SupervisedOPF, semi=SemiSupervisedOPF, unsup=UnsupervisedOPF)[kind]
                kw = dict(min_k=1, max_k=3) if kind == "unsup" else {}

                def run(m):
                    if kind == "semi":
                        nl = ntr - 2
                        m.fit(Z[:nl], Y[:nl], Z[:2], Itr[:nl], Itr[nl:])
                    else:
                        m.fit(Z[:ntr], Y, Itr)
                    p = m.predict(Z[:3], Ite)
                    return _state(m), [list(map(int, q)) for q in p] if isinstance(p, tuple) else list(map(int, p))
                try:
                    cwd = os.getcwd()
                    try:
                        if rel:
                            os.chdir(os.path.dirname(path))
                        a = cls(pre_computed_distance=os.path.basename(path) if rel else path, **kw)
                    finally:
                        os.chdir(cwd)
                    b = cls(**kw)
                    b.pre_computed_distance = True
                    b.pre_distances = D.copy()
                    ra, rb = run(a), run(b)
                except Exception as ex:
                    ra, rb = "raised %r" % (ex,), None
                    if "labels" in str(ex).lower():
                        continue
                runs += 1
                rep.count_case(("file-model", kind, D.tobytes()), True)
                if repr(ra) != repr(rb):
                    nviol += 1
                    if nviol <= 2:
                        rep.violation("%s built on the distance file %s (%d bytes, rewritten %d times under this name in this process) differs from the model "
                                      "given the same matrix through its attributes" % (cls.__name__, os.path.basename(path), size, step),
                                      dict(model=kind, file=os.path.basename(path), relative_name=rel, rewrite_number=step, matrix=D.tolist(),
                                           I_train=Itr.tolist(), I_test=Ite.tolist(), labels=Y.tolist(),
                                           from_file=ra if isinstance(ra, str) else dict(forest=ra[0], predictions=ra[1]),
                                           from_attribute=None if rb is None else dict(forest=rb[0], predictions=rb[1])), key=key)
                if open(path, "rb").read() != open(path, "rb").read() or os.path.getsize(path) != size:
                    nviol += 1
                    rep.violation("the distance file was modified by building / training a model on it", dict(file=path), key=key)
    rep.corr["models_on_recurring_distance_file"] = dict(cases=runs)
    return nviol


def reused_containers(rep, rng, tier, key="predict_position:container"):
    """A caller-owned container (list of lists, list of row arrays, tuple of lists, ndarray) is filled with one batch,
    predicted, refilled IN PLACE with another batch and predicted again - by all four model kinds. The answers for the second
    batch must be those a twin model (trained alike, never shown the container) gives for the same rows in a fresh array."""
    from opfython.models.supervised import SupervisedOPF
    from opfython.models.semi_supervised import SemiSupervisedOPF
    from opfython.models.knn_supervised import KNNSupervisedOPF
    from opfython.models.unsupervised import UnsupervisedOPF
    nviol, runs = 0, 0
    for rd in range(6 if tier == "quick" else 150):
        dim = rng.randint(1, 3)
        cen = [[rng.uniform(-5, 5) for _ in range(dim)] for _ in range(2)]
        n = rng.randint(8, 14)
        Y = np.array([1 + (j % 2) for j in range(n)])
        X = np.array([[cen[Y[j] - 1][t] + rng.gauss(0, 1.0) for t in range(dim)] for j in range(n)])
        m = rng.randint(3, 6)
        Q1 = np.array([[cen[j % 2][t] + rng.gauss(0, 1.5) for t in range(dim)] for j in range(m)])
        Q2 = np.array([[cen[(j + 1) % 2][t] + rng.gauss(0, 1.5) for t in range(dim)] for j in range(m)])
        Xv = np.array([[cen[j % 2][t] + rng.gauss(0, 1.0) for t in range(dim)] for j in range(6)]); Yv = np.array([1 + (j % 2) for j in range(6)])
        for kind in ("sup", "semi", "knn", "unsup"):
            def build():
                if kind == "sup":
                    o = SupervisedOPF(distance="euclidean"); o.fit(X.copy(), Y.copy())
                elif kind == "semi":
                    o = SemiSupervisedOPF(distance="euclidean"); o.fit(X.copy(), Y.copy(), Xv.copy())
                elif kind == "knn":
                    o = KNNSupervisedOPF(max_k=3, distance="euclidean"); o.fit(X.copy(), Y.copy(), Xv.copy(), Yv.copy())
                else:
                    o = UnsupervisedOPF(min_k=1, max_k=3, distance="euclidean"); o.fit(X.copy(), Y.copy()); o.propagate_labels()
                return o

            def ans(p):
                return [list(map(int, q)) for q in p] if isinstance(p, tuple) else list(map(int, p))
            form = rng.choice(["lists", "rowarrays", "ndarray", "tuple_of_lists"])
            try:
                a, twin = build(), build()
                if form == "lists":
                    box = [list(map(float, r)) for r in Q1]
                elif form == "rowarrays":
                    box = [np.array(r) for r in Q1]
                elif form == "tuple_of_lists":
                    box = tuple(list(map(float, r)) for r in Q1)
                else:
                    box = Q1.copy()
                first = ans(a.predict(box))
                for i in range(m):
                    if form == "ndarray":
                        box[i, :] = Q2[i]
                    elif form == "rowarrays":
                        box[i][:] = Q2[i]
                    else:
                        box[i][:] = [float(v) for v in Q2[i]]
                second = ans(a.predict(box))
                want1, want2 = ans(twin.predict(Q1.copy())), ans(twin.predict(Q2.copy()))
            except Exception as ex:   # noqa
                continue
            runs += 1
            rep.count_case(("container", kind, form, Q1.tobytes(), Q2.tobytes()), True)
            if first != want1 or second != want2:
                nviol += 1
                if nviol <= 2:
                    rep.violation("%s predict on a caller-owned %s refilled in place between two calls: first call %r (twin model on a fresh array: %r), "
                                  "second call %r (twin: %r)" % (kind, form, first, want1, second, want2),
                                  dict(model=kind, container=form, X=X.tolist(), Y=Y.tolist(), first_batch=Q1.tolist(), second_batch=Q2.tolist()), key=key)
    rep.corr["containers_refilled_in_place"] = dict(cases=runs)
    return nviol


def reused_label_buffers(rep, rng, tier, key="measures:buffer"):
    """The evaluation measures on caller-owned label / prediction arrays that are refilled in place between calls (a ground
    truth corrected in place, the validation labels `learn` swaps): every call must return what it returns on fresh copies of
    the current contents."""
    import opfython.math.general as g
    nviol, runs = 0, 0
    fns = [("confusion_matrix", g.confusion_matrix), ("opf_accuracy", g.opf_accuracy),
           ("opf_accuracy_per_label", g.opf_accuracy_per_label), ("purity", g.purity)]
    for rd in range(12 if tier == "quick" else 400):
        n = rng.randint(4, 30)
        K = rng.randint(2, 4)
        lab_buf, pred_buf = np.zeros(n, dtype=int), np.zeros(n, dtype=int)
        fills, gots = [], []
        for step in range(4):
            while True:
                lab = [rng.randrange(K) for _ in range(n)]
                if len(set(lab)) == K:
                    break
            # class sizes change from one filling to the next
            if step % 2 == 1:
                big = rng.randrange(K)
                lab2 = [big if (rng.random() < 0.5 and lab.count(l) > 1) else l for l in lab]
                if len(set(lab2)) == K:
                    lab = lab2
            prd = [l if rng.random() < 0.6 else rng.randrange(K) for l in lab]
            lab_buf[:] = lab; pred_buf[:] = prd
            res = {}
            for name, fn in fns:
                try:
                    res[name] = np.asarray(fn(lab_buf, pred_buf), dtype=float)
                except Exception as ex:   # noqa
                    res[name] = ex
            fills.append((lab, prd)); gots.append(res)
            rep.count_case(("label-buffer", tuple(lab), tuple(prd)), True)
        # only now the same contents in fresh arrays (no call on another array object in between the buffered ones)
        for step, ((lab, prd), res) in enumerate(zip(fills, gots)):
            for name, fn in fns:
                try:
                    want = np.asarray(fn(np.array(lab), np.array(prd)), dtype=float)
                except Exception:   # noqa
                    continue
                got = res[name]
                runs += 1
                if isinstance(got, Exception) or got.shape != want.shape or not np.array_equal(got, want, equal_nan=True):
                    nviol += 1
                    if nviol <= 2:
                        rep.violation("%s on label / prediction arrays refilled in place (filling number %d of the same two array objects) returns %r, on fresh copies of "
                                      "the same contents %r" % (name, step + 1, got if isinstance(got, Exception) else got.tolist(), want.tolist()),
                                      dict(function=name, labels=lab, preds=prd, filling=step + 1, classes=K,
                                           earlier_fillings=[dict(labels=a, preds=b) for a, b in fills[:step]]), key=key)
    # normalize: a caller-owned matrix refilled in place
    buf = np.zeros((6, 3))
    for rd in range(6 if tier == "quick" else 200):
        A = np.array([[rng.uniform(-5, 5) * (10 ** rng.randint(0, 2)) for _ in range(3)] for _ in range(6)])
        buf[:, :] = A
        try:
            got, want = np.asarray(g.normalize(buf)), np.asarray(g.normalize(A.copy()))
        except Exception:   # noqa
            continue
        runs += 1
        if not np.array_equal(got, want, equal_nan=True) or not np.array_equal(buf, A):
            nviol += 1
            if nviol <= 2:
                rep.violation("normalize on a matrix refilled in place differs from normalize on a fresh copy (or modified its argument)",
                              dict(function="normalize", array=A.tolist(), filling=rd + 1), key=key)
    rep.corr["measures_on_reused_buffers"] = dict(cases=runs)
    return nviol


def knn_call_sequences(rep, rng, tier, key="knn_rule:sequence"):
    """Public-method sequences on ONE fitted KNN-type object: predict before and after propagate_labels (unsupervised),
    predict / fit again on other data / predict (both kinds). After every step the answers must be those of a twin object
    driven straight to that state (same training, propagate_labels or not, one predict)."""
    from opfython.models.knn_supervised import KNNSupervisedOPF
    from opfython.models.unsupervised import UnsupervisedOPF
    nviol, runs = 0, 0

    def ans(p):
        return [list(map(int, q)) for q in p] if isinstance(p, tuple) else list(map(int, p))

    def blobs(n, dim, labs):
        cen = [[rng.uniform(-6, 6) for _ in range(dim)] for _ in labs]
        Y = np.array([labs[j % len(labs)] for j in range(n)])
        X = np.array([[cen[j % len(labs)][t] + rng.gauss(0, 0.8) for t in range(dim)] for j in range(n)])
        return X, Y
    for rd in range(8 if tier == "quick" else 200):
        dim = rng.randint(1, 3)
        labs = rng.choice([[3, 5, 8], [1, 2], [0, 4], [2, 7, 9, 11]])
        n = rng.randint(10, 18)
        X, Y = blobs(n, dim, labs)
        X2, Y2 = blobs(n, dim, labs)
        Q = np.array([[rng.uniform(-7, 7) for _ in range(dim)] for _ in range(5)] + [list(X[0]), list(X[n // 2])])
        kmax = rng.randint(1, 4)
        try:
            # --- unsupervised: fit, predict, propagate_labels, predict
            a = UnsupervisedOPF(min_k=1, max_k=kmax, distance="euclidean"); a.fit(X.copy(), Y.copy())
            p_before = ans(a.predict(Q.copy()))
            a.propagate_labels()
            p_after = ans(a.predict(Q.copy()))
            t1 = UnsupervisedOPF(min_k=1, max_k=kmax, distance="euclidean"); t1.fit(X.copy(), Y.copy())
            w_before = ans(t1.predict(Q.copy()))
            t2 = UnsupervisedOPF(min_k=1, max_k=kmax, distance="euclidean"); t2.fit(X.copy(), Y.copy()); t2.propagate_labels()
            w_after = ans(t2.predict(Q.copy()))
            # --- the same object trained again on other data
            a.fit(X2.copy(), Y2.copy()); a.propagate_labels()
            p_refit = ans(a.predict(Q.copy()))
            t3 = UnsupervisedOPF(min_k=1, max_k=kmax, distance="euclidean"); t3.fit(X2.copy(), Y2.copy()); t3.propagate_labels()
            w_refit = ans(t3.predict(Q.copy()))
        except Exception:   # noqa
            continue
        runs += 1
        rep.count_case(("knn-seq", X.tobytes(), Q.tobytes(), kmax), True)
        for what, got, want in (("predict after fit", p_before, w_before), ("predict after fit, predict, propagate_labels", p_after, w_after),
                                ("predict after the object was trained again on other data", p_refit, w_refit)):
            if got != want:
                nviol += 1
                if nviol <= 2:
                    rep.violation("UnsupervisedOPF, %s: (labels, clusters) %r, a twin object driven straight to that state gives %r" % (what, got, want),
                                  dict(model="unsup", max_k=kmax, X=X.tolist(), Y=Y.tolist(), X_second_training=X2.tolist(), Y_second_training=Y2.tolist(), queries=Q.tolist(), step=what), key=key)
                break
        try:
            Xv, Yv = blobs(6, dim, labs)
            b = KNNSupervisedOPF(max_k=kmax, distance="euclidean"); b.fit(X.copy(), Y.copy(), Xv.copy(), Yv.copy())
            q1 = ans(b.predict(Q.copy())); q1b = ans(b.predict(Q[::-1].copy()))[::-1]
            b.fit(X2.copy(), Y2.copy(), Xv.copy(), Yv.copy())
            q2 = ans(b.predict(Q.copy()))
            u = KNNSupervisedOPF(max_k=kmax, distance="euclidean"); u.fit(X2.copy(), Y2.copy(), Xv.copy(), Yv.copy())
            w2 = ans(u.predict(Q.copy()))
        except Exception:   # noqa
            continue
        runs += 1
        if q1 != q1b or q2 != w2:
            nviol += 1
            if nviol <= 2:
                rep.violation("KNNSupervisedOPF on one object: predict %r, reversed batch %r; after training again on other data %r, a fresh object trained on that data %r" % (q1, q1b, q2, w2),
                              dict(model="knn", max_k=kmax, X=X.tolist(), Y=Y.tolist(), X_second_training=X2.tolist(), Y_second_training=Y2.tolist(), queries=Q.tolist()), key=key)
    rep.corr["knn_call_sequences"] = dict(cases=runs)
    return nviol


def bigint_matrix_predict(rep, rng, tier, key="predict:bigint"):
    """Pre-computed matrices of INTEGER dtype whose entries exceed 2^53 (exact squared distances between lattice points ~1e8
    apart): costs and arc weights stay exact in int64, so the C03 rule is judged with Python integers - two candidates one
    unit apart at 1e16 are different values."""
    from opfython.models.supervised import SupervisedOPF
    from opfython.models.semi_supervised import SemiSupervisedOPF
    nviol, runs = 0, 0
    for rd in range(40 if tier == "quick" else 1200):
        n, m = rng.randint(4, 9), rng.randint(2, 5)
        N = n + m
        step = 10 ** 8
        for _ in range(50):
            # abscissae on a coarse lattice (multiples of 1e8), ordinates small: squared distances k^2 * 1e16 + (0, 1, 4, 9 ...),
            # i.e. distinct integers that collapse to the same binary64 number
            P = [[rng.randint(-2, 2) * step, rng.randint(-3, 3)] for _ in range(N)]
            D = [[(P[a][0] - P[b][0]) ** 2 + (P[a][1] - P[b][1]) ** 2 for b in range(N)] for a in range(N)]
            if all(D[a][b] > 0 for a in range(N) for b in range(N) if a != b) and max(max(r) for r in D) < 2 ** 62:
                break
        else:
            continue
        Y = [j % 2 for j in range(n)]; rng.shuffle(Y)
        if len(set(Y)) < 2:
            continue
        M = np.array(D, dtype=np.int64)
        semi = rd % 3 == 2
        try:
            o = (SemiSupervisedOPF if semi else SupervisedOPF)()
            o.pre_computed_distance = True
            o.pre_distances = M
            Z = np.zeros((N, 1))
            if semi:
                o.fit(Z[:n - 1], np.array(Y[:n - 1]), Z[n - 1:n], np.arange(n - 1), np.arange(n - 1, n))
            else:
                o.fit(Z[:n], np.array(Y), np.arange(n))
            preds = [int(v) for v in o.predict(Z[:m], np.arange(n, N))]
            nodes = o.subgraph.nodes
            cost = [int(nd.cost) for nd in nodes]
            lab = [int(nd.predicted_label) for nd in nodes]
            idx = [int(nd.idx) for nd in nodes]
        except Exception as ex:   # noqa
            continue
        runs += 1
        rep.count_case(("bigint", tuple(map(tuple, D))), True)
        for j in range(m):
            q = n + j
            vals = [max(cost[t], D[idx[t]][q]) for t in range(len(nodes))]
            best = min(vals)
            ok = {lab[t] for t in range(len(nodes)) if vals[t] == best}
            if preds[j] not in ok:
                nviol += 1
                if nviol <= 2:
                    rep.violation("%s on an int64 distance matrix with entries beyond 2^53: query %d is labelled %d, the minimum of max(cost, distance) = %d is attained only "
                                  "by samples labelled %r (values %r)" % (type(o).__name__, j, preds[j], best, sorted(ok), vals),
                                  dict(model="semi" if semi else "sup", points=P, labels=Y, n_train=n, matrix_dtype="int64", matrix=D), key=key)
                break
    rep.corr["int64_matrices_beyond_2^53"] = dict(cases=runs)
    return nviol


def overflow_queries(rep, rng, tier, key="predict_position:overflow"):
    """Queries so far away that every distance overflows to inf (finite features of magnitude 1e200), mixed into a batch of
    ordinary queries: their answers - whatever they are - must not depend on their neighbours in the batch, their position, or
    earlier calls; the ordinary rows must not be affected either. All four model kinds."""
    from opfython.models.supervised import SupervisedOPF
    from opfython.models.semi_supervised import SemiSupervisedOPF
    from opfython.models.knn_supervised import KNNSupervisedOPF
    from opfython.models.unsupervised import UnsupervisedOPF
    import warnings
    nviol, runs = 0, 0

    def ans(p):
        return list(zip(*[list(map(int, q)) for q in p])) if isinstance(p, tuple) else list(map(int, p))
    for rd in range(6 if tier == "quick" else 150):
        dim = rng.randint(1, 3)
        cen = [[rng.uniform(-5, 5) for _ in range(dim)] for _ in range(2)]
        n = rng.randint(8, 14)
        Y = np.array([1 + (j % 2) for j in range(n)])
        X = np.array([[cen[Y[j] - 1][t] + rng.gauss(0, 1.0) for t in range(dim)] for j in range(n)])
        Xv = np.array([[cen[j % 2][t] + rng.gauss(0, 1.0) for t in range(dim)] for j in range(6)]); Yv = np.array([1 + (j % 2) for j in range(6)])
        near = [[cen[j % 2][t] + rng.gauss(0, 1.5) for t in range(dim)] for j in range(4)]
        far = [[rng.choice([-1, 1]) * 10.0 ** rng.choice([160, 200, 300]) for _ in range(dim)] for _ in range(2)]
        rows = [near[0], far[0], near[1], near[2], far[1], near[3], far[0]]
        Q = np.array(rows)
        metric = rng.choice(["log_squared_euclidean", "euclidean", "squared_euclidean"])
        for kind in ("sup", "semi", "knn", "unsup"):
            try:
                with warnings.catch_warnings():
                    warnings.simplefilter("ignore")
                    if kind == "sup":
                        o = SupervisedOPF(distance=metric); o.fit(X.copy(), Y.copy())
                    elif kind == "semi":
                        o = SemiSupervisedOPF(distance=metric); o.fit(X.copy(), Y.copy(), Xv.copy())
                    elif kind == "knn":
                        o = KNNSupervisedOPF(max_k=3, distance=metric); o.fit(X.copy(), Y.copy(), Xv.copy(), Yv.copy())
                    else:
                        o = UnsupervisedOPF(min_k=1, max_k=3, distance=metric); o.fit(X.copy(), Y.copy()); o.propagate_labels()
                    whole = ans(o.predict(Q.copy()))
                    singles = [ans(o.predict(Q[j:j + 1].copy()))[0] for j in range(len(rows))]
                    rev = ans(o.predict(Q[::-1].copy()))[::-1]
            except Exception:   # noqa
                continue
            runs += 1
            rep.count_case(("overflow", kind, metric, X.tobytes(), Q.tobytes()), True)
            if not (whole == singles == rev):
                j = [t for t in range(len(rows)) if not (whole[t] == singles[t] == rev[t])][0]
                nviol += 1
                if nviol <= 2:
                    rep.violation("%s predict (%s): row %d of the batch %s gets %r in the batch, %r alone, %r in the reversed batch" %
                                  (kind, metric, j, "(all distances overflow to inf)" if rows[j] in far else "(an ordinary query)", whole[j], singles[j], rev[j]),
                                  dict(model=kind, metric=metric, X=X.tolist(), Y=Y.tolist(), batch=Q.tolist(), row=j), key=key)
    rep.corr["queries_with_overflowing_distances"] = dict(cases=runs)
    return nviol


def caller_matrix(rep, rng, tier, key="decorator:inplace"):
    """The pre-computed matrix a caller hands to a model (through the public attribute) is caller data too: byte comparison
    around fit / predict for the three kinds that take one, on matrices that are not exactly symmetric (directed divergences,
    one-ulp asymmetries, +0.0 / -0.0), every other run on a read-only matrix."""
    from opfython.models.supervised import SupervisedOPF
    from opfython.models.semi_supervised import SemiSupervisedOPF
    from opfython.models.unsupervised import UnsupervisedOPF
    import opfython.math.distance as dmod
    nviol, runs = 0, 0
    for rd in range(9 if tier == "quick" else 300):
        N = rng.randint(8, 13)
        P = np.array([[rng.uniform(0.05, 1.0) for _ in range(3)] for _ in range(N)])
        style = ("directed", "ulp", "zeros")[rd % 3]
        if style == "directed":
            P = P / P.sum(axis=1, keepdims=True)
            fn = dmod.DISTANCES[rng.choice(["kullback_leibler", "neyman", "pearson", "k_divergence"])]
            M = np.array([[float(fn(P[a].copy(), P[b].copy())) for b in range(N)] for a in range(N)])
        else:
            M = np.sqrt(((P[:, None, :] - P[None, :, :]) ** 2).sum(-1))
            if style == "ulp":
                for _ in range(N):
                    a, b = rng.sample(range(N), 2)
                    M[a, b] = np.nextafter(M[a, b], 2.0)
            else:
                M[np.diag_indices(N)] = [(-0.0 if rng.random() < 0.5 else 0.0) for _ in range(N)]
                a, b = rng.sample(range(N), 2)
                M[a, b] = 0.0; M[b, a] = -0.0
        if np.isnan(M).any():
            continue
        kind = ("sup", "semi", "unsup")[(rd // 3) % 3]
        before = M.tobytes()
        ro = rd % 2 == 1
        if ro:
            M.setflags(write=False)
        ntr = N - 3
        Y = np.array([1 + (j % 2) for j in range(ntr)])
        Z = np.zeros((N, 1))
        I = np.arange(N)
        try:
            if kind == "sup":
                o = SupervisedOPF(); o.pre_computed_distance = True; o.pre_distances = M
                o.fit(Z[:ntr], Y, I[:ntr]); o.predict(Z[:3], I[ntr:])
            elif kind == "semi":
                o = SemiSupervisedOPF(); o.pre_computed_distance = True; o.pre_distances = M
                o.fit(Z[:ntr - 2], Y[:ntr - 2], Z[:2], I[:ntr - 2], I[ntr - 2:ntr]); o.predict(Z[:3], I[ntr:])
            else:
                o = UnsupervisedOPF(min_k=1, max_k=3); o.pre_computed_distance = True; o.pre_distances = M
                o.fit(Z[:ntr], Y, I[:ntr]); o.predict(Z[:3], I[ntr:])
            err = None
        except ValueError as ex:
            err = ex if "read-only" in str(ex) else None
            if err is None:
                continue
        except Exception:   # noqa
            continue
        runs += 1
        rep.count_case(("caller-matrix", kind, before), True)
        if err is not None or M.tobytes() != before:
            nviol += 1
            if nviol <= 2:
                ch = [] if err is not None else [(int(a), int(b)) for a, b in zip(*np.nonzero(np.frombuffer(before, dtype=float).reshape(N, N).view(np.int64) != M.view(np.int64)))][:6]
                rep.violation("%s fit/predict on a caller-supplied pre-computed matrix (%s asymmetries%s) %s" %
                              (kind, style, ", read-only" if ro else "", ("writes into it: %s" % err) if err is not None else "changed its entries at %r" % ch),
                              dict(model=kind, style=style, read_only=ro, matrix=np.frombuffer(before, dtype=float).reshape(N, N).tolist()), key=key)
    rep.corr["caller_supplied_matrix"] = dict(cases=runs)
    return nviol
