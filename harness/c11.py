"""C11 - results are invariant to training order and to monotone rescaling of the metric."""
import random

from supcommon import *  # noqa
import supcheck

FAMILY = ["euclidean", "squared_euclidean", "average_euclidean", "log_euclidean", "log_squared_euclidean"]


def tie_free_points(rng, n, m, metric):
    dim = rng.randint(1, 4)
    if rng.random() < 0.15:
        # long feature vectors, with the class-separating information in the last few coordinates only
        dim = rng.choice([32, 36, 40, 64, 65, 128, 130])
        sc = 1.0
        for _ in range(100):
            base = [rng.uniform(-1, 1) for _ in range(dim)]
            X = [[b + rng.uniform(-1e-3, 1e-3) for b in base[:dim - 4]] + [rng.uniform(-10, 10) for _ in range(4)] for _ in range(n + m)]
            D = metric_matrix(metric, X)
            allv = [D[a][b] for a in range(n) for b in range(a + 1, n)] + [D[a][q] for a in range(n) for q in range(n, n + m)]
            if len(set(allv)) == len(allv) and min(allv) > 0:
                return X, D
        return None, None
    # the algorithms are order-only, so the scale of the features must not matter: a third of the sets are tiny
    sc = rng.choice([1.0, 1.0, 1e-6, 1e-11, 1e5, 1e7])   # also coordinates in metres: distances beyond MAX_ARC_WEIGHT
    for _ in range(100):
        X = [[sc * rng.uniform(-10, 10) for _ in range(dim)] for _ in range(n + m)]
        D = metric_matrix(metric, X)
        tr = [D[a][b] for a in range(n) for b in range(a + 1, n)]
        allv = tr + [D[a][q] for a in range(n) for q in range(n, n + m)]
        if len(set(allv)) == len(allv) and min(allv) > 0:
            return X, D
    return None, None


def chain_layout(rng):
    """Two classes that are NOT blobs: a sparse chain of long hops (class 0) along a ray and a dense chain of short hops (class 1)
    that starts beside its base and curls round to beyond its far end; queries beyond the far end of the sparse chain. Squared
    distances along such chains violate the triangle inequality badly (a long hop costs more than two short ones), which is
    what separates order-only algorithms from ones that reason with distance bounds. Random similarity transform + jitter."""
    import math
    na, nb = rng.randint(2, 3), rng.randint(5, 7)
    hop_a = rng.uniform(1.8, 2.4)
    A = [[hop_a * j, 0.0] for j in range(na)]
    end = A[-1][0]
    # dense chain: from (0, -1.5) down and round to about (end + 4, -4.4)
    B = []
    for j in range(nb):
        t = j / (nb - 1)
        B.append([(end + 4.1) * t, -1.5 - 3.1 * math.sin(math.pi * 0.5 * (0.55 + 0.9 * t)) * (0.35 + 0.65 * math.sin(math.pi * min(1.0, t + 0.25)))])
    Q = [[end + rng.uniform(3.0, 4.2), rng.uniform(-0.2, 0.6)] for _ in range(rng.randint(2, 4))] + [[rng.uniform(0.5, end + 1), rng.uniform(0.5, 1.5)]]
    pts = A + B + Q
    th, sc = rng.uniform(0, 2 * math.pi), rng.choice([0.5, 1.0, 1.0, 3.0])
    tx, ty = rng.uniform(-5, 5), rng.uniform(-5, 5)
    out = []
    for (x, y) in pts:
        x, y = x + rng.uniform(-0.03, 0.03), y + rng.uniform(-0.03, 0.03)
        out.append([sc * (x * math.cos(th) - y * math.sin(th)) + tx, sc * (x * math.sin(th) + y * math.cos(th)) + ty])
    labels = [0] * na + [1] * nb
    order = list(range(na + nb)); rng.shuffle(order)
    return [out[j] for j in order] + out[na + nb:], [labels[j] for j in order]


def rank_matrix(D, n, N):
    """dense ranks of the entries (training block and train-query block), for comparing order structure"""
    vals = sorted(set(D[a][b] for a in range(n) for b in range(N)))
    r = {v: i for i, v in enumerate(vals)}
    return [[r[D[a][b]] for b in range(N)] for a in range(n)]


def main(tier, seed):
    setup_impl_env()
    import warnings
    warnings.simplefilter("ignore")
    rep = Report("C11", tier, seed)
    standard_proof_phase(rep, "C11", supcheck.MODEL_FILES + ["Props/C11"])
    rng = random.Random(seed + 11)
    nviol = 0
    stats = dict(perm_pairs=0, rescale_groups=0, rescale_discarded_ties=0, queries=0)
    terms, expect, insts = [], [], []
    NP = 120 if tier == "quick" else 10000
    for i in range(NP):
        metric = rng.choice(supcheck.PLAIN_METRICS if hasattr(supcheck, "PLAIN_METRICS") else PLAIN_METRICS)
        n, m = rng.randint(3, 9 if tier == "quick" else 13), rng.randint(1, 4)
        X, D = tie_free_points(rng, n, m, metric)
        if X is None:
            continue
        labels = gen_labels(rng, n)
        it = Instance("feat", X, labels, D, 0, m, metric)
        sigma = list(range(n)); rng.shuffle(sigma)          # position p of the permuted run holds original sample sigma[p]
        Xp = [X[sigma[p]] for p in range(n)] + X[n:]
        itp = Instance("feat", Xp, [labels[sigma[p]] for p in range(n)], metric_matrix(metric, Xp), 0, m, metric)
        if i % 3 == 1:
            # the permuted run goes through a pre-computed matrix with index arrays (rows scattered in a larger matrix):
            # the same weights, so nothing observable may change
            itp = Instance("mat", None, itp.labels, itp.D, 0, m, None)
            stats["perm_via_matrix"] = stats.get("perm_via_matrix", 0) + 1
        try:
            o1, s1 = impl_fit(it); p1, _ = impl_predict(o1, it)
            if i % 3 == 2:
                # the reshuffled set is learnt by the SAME object (a classifier trained again on the same samples in another
                # order): nothing of the first training may leak into the second
                o1.fit(np.array(itp.X, dtype=float)[:n].copy(), np.array(itp.labels))
                o2, s2 = o1, node_state(o1.subgraph)
                stats["perm_same_object"] = stats.get("perm_same_object", 0) + 1
            else:
                o2, s2 = impl_fit(itp)
            p2, _ = impl_predict(o2, itp)
        except Exception as ex:
            nviol += 1
            if nviol <= 3:
                rep.violation("fit/predict raised %r" % (ex,), it.desc(), key="perm")
            continue
        stats["perm_pairs"] += 1; stats["queries"] += m
        rep.count_case((it.key(), tuple(sigma)), sigma != sorted(sigma))
        for x_it, st in ((it, s1), (itp, s2)):
            rk = ranker_for(x_it)
            terms.append(term_fit(x_it, rk)); expect.append(supcheck.safe_dump(st, rk)); insts.append(x_it)
        msg = None
        for p in range(n):
            q = sigma[p]
            if s2["cost"][p] != s1["cost"][q]:
                msg = "cost of sample %d is %r, %r after permuting the training order" % (q, s1["cost"][q], s2["cost"][p]); break
            if s2["status"][p] != s1["status"][q]:
                msg = "prototype status of sample %d changes with the training order" % q; break
            if s2["plabel"][p] != s1["plabel"][q]:
                msg = "assigned label of sample %d changes with the training order" % q; break
        if not msg and p1 != p2:
            msg = "predictions change with the training order: %r vs %r" % (p1, p2)
        if msg:
            nviol += 1
            if nviol <= 3:
                d = it.desc(); d["sigma"] = sigma
                rep.violation("permutation invariance (%s): %s" % (metric, msg), d, key="perm")
    bad = supcheck.corr(rep, "correspondence Model/Sup.sup_fit vs SupervisedOPF.fit on both members of every (instance, permuted instance) pair", "C11", terms, expect, insts)
    rep.corr["permutation_pairs"] = dict(cases=len(terms), disagreements=None if bad is None else len(bad))
    # ---- rescaling: the five mutually monotone Euclidean-family identifiers on the same features
    NR = 80 if tier == "quick" else 6000
    for i in range(NR):
        n, m = rng.randint(3, 9), rng.randint(1, 4)
        chain_labels = None
        arr = None
        if i % 4 == 3:
            # narrow integer feature arrays (raw bytes / small counts): legal input, the metrics must not wrap around
            dt = rng.choice([np.uint8, np.int8, np.int16])
            lo, hi = (0, 255) if dt == np.uint8 else ((-100, 100) if dt == np.int8 else (-3000, 3000))
            for _ in range(50):
                Xi = [[rng.randint(lo, hi) for _ in range(rng.randint(2, 6))] for _ in range(1)]
                dimn = len(Xi[0])
                Xi = [[rng.randint(lo, hi) for _ in range(dimn)] for _ in range(n + m)]
                sq = [sum((a - b) ** 2 for a, b in zip(Xi[p], Xi[q])) for p in range(n) for q in range(p + 1, n + m)]
                if len(set(sq)) == len(sq) and min(sq) > 0:
                    break
            else:
                continue
            X = [list(map(float, r)) for r in Xi]
            arr = np.array(Xi, dtype=dt)
            exact_sq = [[float(sum((a - b) ** 2 for a, b in zip(Xi[p], Xi[q]))) for q in range(n + m)] for p in range(n + m)]
            stats["narrow_int_groups"] = stats.get("narrow_int_groups", 0) + 1
        elif i % 5 == 3:
            X, chain_labels = chain_layout(rng)
            n, m = len(chain_labels), len(X) - len(chain_labels)
            D0 = metric_matrix("squared_euclidean", X)
            allv = [D0[a][b] for a in range(n) for b in range(a + 1, n)] + [D0[a][q] for a in range(n) for q in range(n, n + m)]
            if len(set(allv)) != len(allv) or min(allv) <= 0:
                continue
            stats["chain_layouts"] = stats.get("chain_layouts", 0) + 1
        else:
            X, D0 = tie_free_points(rng, n, m, "squared_euclidean")
        if X is None:
            continue
        labels = gen_labels(rng, n) if chain_labels is None else chain_labels
        runs = {}
        ranks = {}
        for metric in FAMILY:
            it = Instance("feat", X, labels, metric_matrix(metric, X, arr), 0, m, metric)
            it.Xarr = arr
            ranks[metric] = rank_matrix(it.D, n, n + m)
            try:
                o, s = impl_fit(it); p, _ = impl_predict(o, it)
            except Exception as ex:
                runs[metric] = ("error", repr(ex)); continue
            runs[metric] = (s, p)
        base = FAMILY[1]   # squared_euclidean
        if arr is not None:
            # integer data: the exact squared distances are known, and every family member must order the pairs as they do
            want_rank = rank_matrix(exact_sq, n, n + m)
            for mt in FAMILY:
                if ranks[mt] != want_rank and runs[mt][0] != "error":
                    nviol += 1
                    if nviol <= 3:
                        rep.violation("%s is not a strictly increasing transform of the squared Euclidean distance on %s data" % (mt, arr.dtype),
                                      dict(X=Xi, dtype=str(arr.dtype), labels=labels, m=m, metric=mt), key="rescale")
        if arr is None:
            # float data: a family member may merge two doubles only when they are a few ulps apart; an inversion, or a
            # merge of clearly different distances, means the identifier is not a strictly increasing transform
            Dm = {mt: metric_matrix(mt, X, arr) for mt in FAMILY}
            cells = sorted((Dm[base][a][b], a, b) for a in range(n) for b in range(n + m) if a != b)
            for mt in FAMILY:
                if runs[mt][0] == "error" or mt == base:
                    continue
                bad = None
                for (v0, a0, b0), (v1, a1, b1) in zip(cells, cells[1:]):
                    t0, t1 = Dm[mt][a0][b0], Dm[mt][a1][b1]
                    # tolerated merges: a few ulps apart, or absorbed by the `+ 1` inside the logarithm (binary64)
                    absorbed = (1.0 + v0 == 1.0 + v1) or (1.0 + v0 ** 0.5 == 1.0 + v1 ** 0.5)
                    if t1 < t0 or (t1 == t0 and not absorbed and v1 > v0 * (1 + 1e-9) + 1e-300):
                        bad = (a0, b0, v0, t0, a1, b1, v1, t1); break
                if bad:
                    nviol += 1
                    if nviol <= 3:
                        rep.violation("%s is not a strictly increasing transform of squared_euclidean: pairs (%d,%d) and (%d,%d) have squared distances %r < %r but %s values %r, %r"
                                      % (mt, bad[0], bad[1], bad[4], bad[5], bad[2], bad[6], mt, bad[3], bad[7]),
                                      dict(X=X, labels=labels, m=m, metric=mt), key="rescale")
        keep = [mt for mt in FAMILY if ranks[mt] == ranks[base]]
        stats["rescale_discarded_ties"] += len(FAMILY) - len(keep)    # the transform merged two doubles: a tie appeared
        stats["rescale_groups"] += 1
        rep.count_case(("rescale", tuple(map(tuple, X)), tuple(labels)), True)
        sb, pb = runs[base]
        for mt in keep:
            s, p = runs[mt]
            msg = None
            if s == "error":
                msg = "raised " + p
            elif s["status"] != sb["status"]:
                msg = "prototypes differ"
            elif s["plabel"] != sb["plabel"] or s["pred"] != sb["pred"] or s["order"] != sb["order"]:
                msg = "assigned labels / predecessors / conquest order differ"
            elif p != pb:
                msg = "predictions differ: %r vs %r" % (p, pb)
            if msg:
                nviol += 1
                if nviol <= 3:
                    rep.violation("rescaling %s -> %s on the same features: %s" % (base, mt, msg), dict(X=X, labels=labels, m=m, metrics=[base, mt]), key="rescale")
    rep.corr["rescale_groups"] = dict(cases=stats["rescale_groups"], distribution=stats)
    rep.extra["oracle_violations"] = nviol
    rep.samples = [it.desc() for it in insts[:1]]
    rep.rule = ("(a) tie-free feature sets (training and query distances all distinct and positive) under 10 plain metrics, each fitted in the given order and in a random permutation; "
                "(b) the same tie-free features under the five Euclidean-family identifiers; a member is discarded when its transform merges two doubles (rank matrix differs); "
                "non-trivial = the permutation is not the identity")
    rep.assumptions = supcheck.COMMON_ASSUMPTIONS + ["rescaling is judged on the weights as computed: strictly increasing on the values that occur (pairs where a tie appears are discarded and counted)"]
    return rep.finish()


def replay(path):
    print(open(path).read()[:2000])
    return 0
