"""C19 - a saved and re-loaded model behaves identically to the original."""
import os
import random
import shutil
import struct

import numpy as np

from common import *  # noqa
import axiom_table as T

FILES = ["Model/Persist", "Gen/Attrs_gen", "Proofs/PersistProofs", "Proofs/PersistGen", "Props/C19"]


def fbits(x):
    return struct.pack(">d", float(x))


def abs_state(opf):
    """abstraction of the attributes predict depends on, floats by bit pattern, distance_fn by registry key"""
    import opfython.math.distance as d
    sg = opf.subgraph
    key = [k for k, f in d.DISTANCES.items() if f is opf.distance_fn]
    nodes = []
    for nd in sg.nodes:
        nodes.append((int(nd.idx), int(nd.label), int(nd.predicted_label), int(nd.cluster_label), str(np.asarray(nd.features).dtype), np.asarray(nd.features).tobytes(),
                      fbits(nd.cost), fbits(nd.density), fbits(nd.radius), int(nd.n_plateaus), tuple(int(a) for a in nd.adjacency),
                      int(nd.root), int(nd.status), int(nd.pred), int(nd.relevant)))
    st = dict(cls=type(opf).__name__, distance=opf.distance, distance_fn=key, pre=opf.pre_computed_distance,
              pre_distances=None if opf.pre_distances is None else opf.pre_distances.tobytes(),
              nodes=nodes, idx_nodes=[int(i) for i in sg.idx_nodes], trained=sg.trained,
              keys=sorted(opf.__dict__.keys()), sg_keys=sorted(sg.__dict__.keys()))
    for a in ("best_k", "constant", "density", "min_density", "max_density", "n_clusters"):
        if hasattr(sg, a):
            v = getattr(sg, a)
            st[a] = fbits(v) if isinstance(v, float) else v
    for a in ("max_k", "min_k"):
        if hasattr(opf, a):
            st[a] = getattr(opf, a)
    return st


def main(tier, seed):
    setup_impl_env()
    import warnings
    warnings.simplefilter("ignore")
    import opfython.math.general as g
    from opfython.models.supervised import SupervisedOPF
    from opfython.models.semi_supervised import SemiSupervisedOPF
    from opfython.models.knn_supervised import KNNSupervisedOPF
    from opfython.models.unsupervised import UnsupervisedOPF
    rep = Report("C19", tier, seed)
    standard_proof_phase(rep, "C19", FILES)
    rng = random.Random(seed + 19)
    tmp = os.path.join(BUILD, "c19_tmp")
    shutil.rmtree(tmp, ignore_errors=True)
    os.makedirs(tmp)
    metrics = list(T.ALL)
    if tier == "quick":
        rng.shuffle(metrics)
        metrics = metrics[:7] + ["log_squared_euclidean", "jaccard", "euclidean", "manhattan"]
    nviol = 0
    stats = dict(runs=0, kinds={}, precomputed=0, skipped=0)
    kinds = [("sup", SupervisedOPF), ("semi", SemiSupervisedOPF), ("knn", KNNSupervisedOPF), ("unsup", UnsupervisedOPF)]
    rounds = 1 if tier == "quick" else 4
    for metric in [m_ for m_ in metrics for _ in range(rounds)]:
        for kname, cls in kinds:
            for pre in (False, True):
                if pre and kname == "knn":
                    continue   # KNNSupervisedOPF._learn demands a train-sized matrix: validation cannot be indexed
                n, dim = rng.randint(8, 12), rng.randint(1, 3)
                dom = T.domain(metric)
                X = np.array([[rng.uniform(0.05, 5) for _ in range(dim)] for _ in range(n + 5)])
                if kname in ("knn", "unsup") and metric in ("euclidean", "manhattan", "chebyshev", "squared_euclidean", "gower") and rng.random() < 0.6:
                    # micro-scale coordinates: every k-NN arc is below the 1e-5 density-bound threshold (the fallback regime)
                    X = X * 10.0 ** rng.choice([-6, -7, -9])
                    stats["micro_scale"] = stats.get("micro_scale", 0) + 1
                if dom == "prob":
                    X = X / X.sum(axis=1, keepdims=True)
                elif rng.random() < 0.3:
                    X = X.astype(np.float32)     # single-precision features: dtype and values must survive the round trip
                    stats["float32"] = stats.get("float32", 0) + 1
                view = rng.choice(["own", "own", "offset", "stride", "reversed", "columns"])
                if view == "offset":
                    X = np.vstack([np.full((3, X.shape[1]), 77.0, dtype=X.dtype), X])[3:]          # rows 3.. of a larger array
                elif view == "stride":
                    big_ = np.full((2 * len(X), X.shape[1]), 55.0, dtype=X.dtype); big_[1::2] = X; X = big_[1::2]
                elif view == "reversed":
                    X = X[::-1].copy()[::-1]
                elif view == "columns":
                    big_ = np.full((len(X), X.shape[1] + 2), 33.0, dtype=X.dtype); big_[:, 1:-1] = X; X = big_[:, 1:-1]
                stats["views"] = stats.get("views", {}); stats["views"][view] = stats["views"].get(view, 0) + 1
                Y = np.array([j % 2 for j in range(n)])
                Xq, Yq = X[n:], np.array([0, 1, 0, 1, 0])
                desc = dict(model=kname, metric=metric, precomputed=pre, X=X.tolist(), Y=Y.tolist(), X_memory_layout=view)
                kw = {}
                if pre:
                    fn = os.path.join(tmp, "d.txt")
                    g.pre_compute_distance(X, fn, metric)
                    kw["pre_computed_distance"] = fn
                if kname == "knn":
                    kw["max_k"] = 2
                if kname == "unsup":
                    kw.update(min_k=1, max_k=2)
                I = np.arange(n + 5)

                def pred(m):
                    a = (Xq, I[n:]) if pre else (Xq,)
                    out = m.predict(*a)
                    return [list(map(int, q)) for q in out] if isinstance(out, tuple) else list(map(int, out))
                try:
                    m = cls(distance=metric, **kw)
                    if kname == "sup":
                        m.fit(X[:n], Y, I[:n] if pre else None)
                    elif kname == "semi":
                        if pre:
                            continue   # unlabeled nodes have no index parameter (known layout restriction, C10/F8)
                        m.fit(X[:n], Y, Xq)
                    elif kname == "knn":
                        m.fit(X[:n - 3], Y[:n - 3], X[n - 3:n], Y[n - 3:])
                    else:
                        m.fit(X[:n], Y, I[:n] if pre else None)
                    p0 = pred(m)
                except (ZeroDivisionError, IndexError, FloatingPointError):
                    stats["skipped"] += 1
                    continue
                except Exception as ex:
                    if X.dtype == np.float32 and type(ex).__name__ == "TypeError":
                        stats["float32_rejected"] = stats.get("float32_rejected", 0) + 1   # Node.cost refuses numpy float32 scalars
                        continue
                    raise
                a0 = abs_state(m)
                if any(v != v for nd in m.subgraph.nodes for v in (nd.cost, nd.density)):
                    stats["skipped"] += 1
                    continue
                f = os.path.join(tmp, "model.pkl")
                m.save(f)
                a1 = abs_state(m)
                fresh = cls(distance="euclidean" if metric != "euclidean" else "manhattan", **({k: v for k, v in kw.items() if k != "pre_computed_distance"}))
                fresh_keys = sorted(fresh.__dict__.keys())
                fresh.load(f)
                a2 = abs_state(fresh)
                p1 = pred(m)
                try:
                    p2 = pred(fresh)
                except Exception as ex:      # noqa - the loaded object is not even a usable model of this kind
                    p2 = "raised %r" % (ex,)
                # a second load of the same unchanged file, after the first loaded model has been used (its relevance marks /
                # propagated labels changed): every load must give the saved state again, independent of earlier loads
                if kname == "unsup":
                    fresh.propagate_labels()
                fresh2 = cls(distance="euclidean" if metric != "euclidean" else "manhattan", **({k: v for k, v in kw.items() if k != "pre_computed_distance"}))
                fresh2.load(f)
                a3 = abs_state(fresh2)
                try:
                    p3 = pred(fresh2)
                except Exception as ex:      # noqa
                    p3 = "raised %r" % (ex,)
                # the same file name again: a twin of the same shape (same data, the two class labels exchanged - a pickle of
                # the same length) is saved OVER the existing file; what is loaded afterwards must be the twin
                twin_msg = None
                try:
                    m2 = cls(distance=metric, **kw)
                    Y2 = 1 - Y
                    if kname == "sup":
                        m2.fit(X[:n], Y2, I[:n] if pre else None)
                    elif kname == "semi":
                        m2.fit(X[:n], Y2, Xq)
                    elif kname == "knn":
                        m2.fit(X[:n - 3], Y2[:n - 3], X[n - 3:n], Y2[n - 3:])
                    else:
                        m2.fit(X[:n], Y2, I[:n] if pre else None)
                    b0 = abs_state(m2)
                    size_before = os.path.getsize(f)
                    m2.save(f)
                    stats["resave_same_size"] = stats.get("resave_same_size", 0) + int(os.path.getsize(f) == size_before)
                    fresh3 = cls(distance="euclidean" if metric != "euclidean" else "manhattan", **({k: v for k, v in kw.items() if k != "pre_computed_distance"}))
                    fresh3.load(f)
                    b1 = abs_state(fresh3)
                    if b1 != b0:
                        twin_msg = ("a second model (labels exchanged) saved over the existing file of %d bytes: loading the file gives a state that differs from the "
                                    "saved model in fields %r" % (size_before, [k for k in b0 if b0[k] != b1.get(k)]))
                    elif pred(fresh3) != pred(m2):
                        twin_msg = "a second model saved over the existing file: the loaded model predicts differently"
                except (ZeroDivisionError, IndexError, FloatingPointError):
                    pass
                stats["runs"] += 1; stats["kinds"][kname] = stats["kinds"].get(kname, 0) + 1; stats["precomputed"] += int(pre)
                rep.count_case((kname, metric, pre, X.tobytes()), True)
                msg = None
                if a1 != a0:
                    msg = "saving altered the original model (fields %r)" % [k for k in a0 if a0[k] != a1.get(k)]
                elif a2 != a0:
                    msg = "loaded model state differs from the original (fields %r)" % [k for k in a0 if a0[k] != a2.get(k)]
                elif not (p0 == p1 == p2):
                    msg = "predictions differ: original %r, original after save %r, loaded %r" % (p0, p1, p2)
                elif a3 != a0 or p3 != p0:
                    msg = "a second load of the same file (after the first loaded model was used) differs from the saved model (fields %r)" % [k for k in a0 if a0[k] != a3.get(k)]
                elif not set(fresh_keys) <= set(a0["keys"]):
                    msg = "a fresh object has attributes %r the fitted one lacks" % sorted(set(fresh_keys) - set(a0["keys"]))
                msg = msg or twin_msg
                if msg:
                    nviol += 1
                    if nviol <= 3:
                        rep.violation("%s/%s/pre=%s: %s" % (kname, metric, pre, msg), desc, key="persist:" + kname)
    shutil.rmtree(tmp, ignore_errors=True)
    rep.obligation("correspondence: abs(original before save) = abs(original after save) = abs(loaded), equal predictions", nviol == 0,
                   "%d disagreements" % nviol)
    rep.corr["save_load"] = dict(cases=stats["runs"], distribution=stats)
    rep.extra["oracle_violations"] = nviol
    rep.samples = [dict(model="sup", metric=metrics[0], precomputed=False), dict(model="unsup", metric=metrics[-1], precomputed=True)]
    rep.rule = ("four model kinds x metrics (10 per quick run, all 47 in thorough) x with/without a pre-computed distance file; state abstraction compared field by field "
                "(floats by bit pattern, distance_fn by registry key) and predictions on 5 fresh queries; distinct = distinct (kind, metric, precomputed, data)")
    rep.assumptions = ["pickle round trip dec(enc m) = m is a Section hypothesis of the theorems, exercised here on every run (partial)",
                       "semi-supervised + pre-computed distances skipped (no index array for unlabeled nodes)",
                       "KNN-supervised + pre-computed skipped (the library rejects matrices larger than the training set)"]
    return rep.finish()


def replay(path):
    print(open(path).read()[:2000])
    return 0
