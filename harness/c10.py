"""C10 - pre-computed distances are equivalent to computing the metric on the fly."""
import os
import random
import shutil
import struct

import numpy as np

from common import *  # noqa
import axiom_table as T
import supcheck
import knncheck as KC


def fb(x):
    return struct.pack(">d", float(x))


def forest(opf):
    sg = opf.subgraph
    out = dict(nodes=[(fb(n.cost), int(n.pred), int(n.predicted_label), int(n.label), int(n.status), int(n.cluster_label),
                       fb(n.density), int(n.root)) for n in sg.nodes], order=[int(i) for i in sg.idx_nodes])
    for a in ("best_k", "n_clusters"):
        if hasattr(sg, a):
            out[a] = int(getattr(sg, a))
    for a in ("constant", "min_density", "max_density"):
        if hasattr(sg, a):
            out[a] = fb(getattr(sg, a))
    return out


def main(tier, seed):
    setup_impl_env()
    import warnings
    warnings.simplefilter("ignore")
    import opfython.math.general as g
    import opfython.math.distance as d
    import opfython.stream.splitter as s
    from opfython.models.supervised import SupervisedOPF
    from opfython.models.semi_supervised import SemiSupervisedOPF
    from opfython.models.unsupervised import UnsupervisedOPF
    rep = Report("C10", tier, seed)
    standard_proof_phase(rep, "C10", supcheck.MODEL_FILES + KC.KNN_FILES + ["Props/C10"])
    rng = random.Random(seed + 10)
    tmp = os.path.join(BUILD, "c10_tmp")
    shutil.rmtree(tmp, ignore_errors=True)
    os.makedirs(tmp)
    metrics = list(T.ALL)
    if tier == "quick":
        rng.shuffle(metrics)
        # every non-symmetric identifier is always included: row/column mix-ups are invisible under symmetric metrics
        fixed = ["log_squared_euclidean", "hamming", "kullback_leibler", "k_divergence", "neyman", "pearson", "statistic"]
        metrics = [m_ for m_ in metrics if m_ not in fixed][:5] + fixed
    nviol = 0
    stats = dict(runs=0, by_model={}, formats={"txt": 0, "csv": 0}, skipped=0, matrix_entries=0)
    rounds = 1 if tier == "quick" else 20
    for metric in metrics:
        for rnd in range(rounds):
            N, dim = (rng.randint(10, 16) if rng.random() < 0.5 else rng.randint(17, 24)), rng.randint(1, 3)
            dom = T.domain(metric)
            if metric == "hamming" or rng.random() < 0.2:
                X = np.array([[float(rng.randint(1, 3)) for _ in range(dim)] for _ in range(N)])   # lattice: ties
            else:
                X = np.array([[rng.uniform(0.05, 5) for _ in range(dim)] for _ in range(N)])
            if dom == "prob":
                X = X / X.sum(axis=1, keepdims=True)
            elif rng.random() < 0.3:
                # single-precision features (image / deep features): the file and the on-the-fly path must see the same rows
                X = X.astype(np.float32)
                stats["float32"] = stats.get("float32", 0) + 1
            Y = np.array([j % 2 for j in range(N)])
            fmt = "txt" if (rnd + len(metric)) % 2 == 0 else "csv"
            ftxt = os.path.join(tmp, "dist.txt")
            try:
                g.pre_compute_distance(X, ftxt, metric)
            except ZeroDivisionError:
                stats["skipped"] += 1
                continue
            D = np.loadtxt(ftxt)
            fn = d.DISTANCES[metric]
            # the file holds the metric on every ordered pair, exactly (text round trip included)
            direct = np.array([[float(fn(X[i].copy(), X[j].copy())) for j in range(N)] for i in range(N)])
            stats["matrix_entries"] += N * N
            if direct.shape != D.shape or not ((direct == D) | (np.isnan(direct) & np.isnan(D))).all():
                nviol += 1
                rep.violation("pre_compute_distance file for %s differs from the metric on some ordered pair" % metric, dict(metric=metric, X=X.tolist()), key="precompute_file")
                continue
            if np.isnan(D).any():
                stats["skipped"] += 1
                continue
            fpath = ftxt
            if fmt == "csv":
                # the .csv file is written by the library's own routine too (the property is about files it writes)
                fpath = os.path.join(tmp, "dist.csv")
                g.pre_compute_distance(X, fpath, metric)
                try:
                    probe = SupervisedOPF(distance=metric, pre_computed_distance=fpath)
                    Dc = np.asarray(probe.pre_distances)
                    bad = None if (Dc.shape == D.shape and (Dc.tobytes() == D.tobytes() or ((np.isnan(Dc) == np.isnan(D)).all() and (Dc[~np.isnan(D)] == D[~np.isnan(D)]).all()))) else "the matrix read back from the .csv differs from the one read back from the .txt"
                except Exception as ex:
                    bad = "a model cannot be built on it: %r" % (ex,)
                if bad:
                    nviol += 1
                    if nviol <= 3:
                        rep.violation("distance file written by pre_compute_distance(data, 'dist.csv', %r): %s" % (metric, bad[:300]),
                                      dict(metric=metric, format="csv", X=X.tolist(), first_line_of_file=open(fpath).readline()[:200]), key="precompute_file:csv")
                    continue
            pct = rng.choice([0.5, 0.6, 0.7])
            Xtr, Xte, Ytr, Yte, Itr, Ite = s.split_with_index(X, Y, pct, random_state=rng.randint(0, 10 ** 6))
            if len(set(Ytr.tolist())) < 2:
                continue
            for kname in ("sup", "unsup", "unsup_k", "semi", "semi_arbitrary"):
                desc = dict(model=kname, metric=metric, format=fmt, X=X.tolist(), Y=Y.tolist(), I_train=Itr.tolist(), I_test=Ite.tolist())
                try:
                    if kname == "sup":
                        a = SupervisedOPF(distance=metric); a.fit(Xtr, Ytr); pa = a.predict(Xte)
                        b = SupervisedOPF(distance=metric, pre_computed_distance=fpath); b.fit(Xtr, Ytr, Itr); pb = b.predict(Xte, Ite)
                    elif kname == "unsup_k":
                        # a large neighbourhood (k = 8 .. n-1): sums of many kernel terms, evaluated alike on both paths
                        if len(Xtr) < 10:
                            continue
                        kk = min(len(Xtr) - 1, rng.randint(8, 11))
                        a = UnsupervisedOPF(min_k=kk, max_k=kk, distance=metric); a.fit(Xtr, Ytr); pa = a.predict(Xte)
                        b = UnsupervisedOPF(min_k=kk, max_k=kk, distance=metric, pre_computed_distance=fpath); b.fit(Xtr, Ytr, Itr); pb = b.predict(Xte, Ite)
                        pa, pb = [list(map(int, q)) for q in pa], [list(map(int, q)) for q in pb]
                    elif kname == "unsup":
                        a = UnsupervisedOPF(min_k=1, max_k=3, distance=metric); a.fit(Xtr, Ytr); pa = a.predict(Xte)
                        b = UnsupervisedOPF(min_k=1, max_k=3, distance=metric, pre_computed_distance=fpath); b.fit(Xtr, Ytr, Itr); pb = b.predict(Xte, Ite)
                        pa, pb = [list(map(int, q)) for q in pa], [list(map(int, q)) for q in pb]
                    elif kname == "semi":
                        # layout the library supports: labeled rows are rows 0..n-1 of the data file, unlabeled rows follow
                        nl, nu = N // 2, N // 4
                        if len(set(Y[:nl].tolist())) < 2:
                            continue
                        a = SemiSupervisedOPF(distance=metric); a.fit(X[:nl], Y[:nl], X[nl:nl + nu]); pa = a.predict(X[nl + nu:])
                        b = SemiSupervisedOPF(distance=metric, pre_computed_distance=fpath); b.fit(X[:nl], Y[:nl], X[nl:nl + nu], np.arange(nl))
                        pb = b.predict(X[nl + nu:], np.arange(nl + nu, N))
                    else:
                        # arbitrary split: the unlabeled rows are identified by their own index array
                        nu = max(1, len(Ite) // 2)
                        a = SemiSupervisedOPF(distance=metric); a.fit(Xtr, Ytr, Xte[:nu]); pa = a.predict(Xte[nu:])
                        b = SemiSupervisedOPF(distance=metric, pre_computed_distance=fpath); b.fit(Xtr, Ytr, Xte[:nu], Itr, Ite[:nu])
                        pb = b.predict(Xte[nu:], Ite[nu:])
                except (ZeroDivisionError, IndexError):
                    stats["skipped"] += 1
                    continue
                except Exception as ex:
                    # single-precision rows: metrics that hand back a numpy float32 scalar are refused by the Node.cost
                    # setter ("`cost` should be a float or integer") - the library rejects the input, nothing to compare
                    if X.dtype == np.float32 and type(ex).__name__ == "TypeError":
                        stats["float32_rejected"] = stats.get("float32_rejected", 0) + 1
                        continue
                    raise
                if any(n_.cost != n_.cost or n_.density != n_.density for n_ in a.subgraph.nodes):
                    stats["skipped"] += 1
                    continue
                stats["runs"] += 1; stats["by_model"][kname] = stats["by_model"].get(kname, 0) + 1; stats["formats"][fmt] += 1
                rep.count_case((kname, metric, fmt, X.tobytes(), Itr.tobytes()), True)
                fa, fb_ = forest(a), forest(b)
                msg = None
                if fa != fb_:
                    msg = "forest state differs (fields %r)" % [k for k in fa if fa[k] != fb_[k]]
                elif list(map(str, pa)) != list(map(str, pb)):
                    msg = "predictions differ: direct %r, pre-computed %r" % (pa, pb)
                if msg:
                    nviol += 1
                    key = "semi_precomputed:arbitrary_split" if kname == "semi_arbitrary" else "precomputed:" + kname
                    rep.violation("%s with %s via .%s: %s" % (kname, metric, fmt, msg), desc, key=key)
                if kname == "sup":
                    # get_distances(): the metric on every ordered pair of the model's own training samples; normalised to [0, 1]
                    G = a.get_distances()
                    want = np.array([[float(fn(Xtr[i].copy(), Xtr[j].copy())) for j in range(len(Xtr))] for i in range(len(Xtr))])
                    Gn = a.get_distances(normalize=True)
                    if G.tobytes() != want.tobytes():
                        nviol += 1
                        rep.violation("get_distances() differs from the metric on some ordered pair (%s)" % metric, desc, key="get_distances")
                    elif want.max() > want.min() and not (Gn.min() == 0.0 and Gn.max() == 1.0 and
                                                           np.array_equal(Gn, (want - want.min()) / (want.max() - want.min()))):
                        nviol += 1
                        rep.violation("get_distances(normalize=True) is not the min-max rescaling to [0,1] (%s)" % metric, desc, key="get_distances")
    # ---- get_distances() for every registered metric (cheap: one small supervised model each)
    gd = dict(metrics=0, normalised_checked=0)
    for metric in T.ALL:
        dom = T.domain(metric)
        n, dim = 6, 2
        X = np.array([[rng.uniform(0.05, 5) for _ in range(dim)] for _ in range(n)])
        if dom == "prob":
            X = X / X.sum(axis=1, keepdims=True)
        Y = np.array([0, 1, 0, 1, 0, 1])
        try:
            a = SupervisedOPF(distance=metric); a.fit(X, Y)
            G = a.get_distances(); Gn = a.get_distances(normalize=True)
        except (ZeroDivisionError, IndexError):
            continue
        fnm = d.DISTANCES[metric]
        want = np.array([[float(fnm(X[i].copy(), X[j].copy())) for j in range(n)] for i in range(n)])
        gd["metrics"] += 1
        rep.count_case(("get_distances", metric, X.tobytes()), True)
        desc = dict(model="sup", metric=metric, X=X.tolist(), Y=Y.tolist())
        if np.isnan(want).any():
            continue
        if G.tobytes() != want.tobytes():
            nviol += 1
            rep.violation("get_distances() differs from the metric on some ordered pair (%s)" % metric, desc, key="get_distances")
        elif want.max() > want.min():
            gd["normalised_checked"] += 1
            if not (Gn.min() == 0.0 and Gn.max() == 1.0 and np.array_equal(Gn, (want - want.min()) / (want.max() - want.min()))):
                nviol += 1
                rep.violation("get_distances(normalize=True) is not the min-max rescaling to [0,1] (%s): range [%r, %r]" % (metric, float(Gn.min()), float(Gn.max())), desc, key="get_distances")
    stats["get_distances"] = gd
    # ---- large-size stream: files of > 128 / 256 / 512 / 1024 rows, > 64 features (harness/large_b.py)
    import large_b
    nviol += large_b.c10_large(rep, seed, tier, tmp, stats)
    shutil.rmtree(tmp, ignore_errors=True)
    rep.obligation("correspondence: model through the distance file (index arrays) == model computing the metric directly (forest state bit-for-bit, predictions)",
                   not [v for v in rep.violations], "%d disagreements" % len(rep.violations))
    rep.corr["file_vs_direct"] = dict(cases=stats["runs"], distribution=stats)
    rep.extra["oracle_violations"] = nviol
    rep.samples = [dict(model="sup", metric=metrics[0], format="txt"), dict(model="unsup", metric=metrics[-1], format="csv")]
    rep.rule = ("datasets of 10-16 rows (a fifth on integer lattices: ties) x metrics (10 per quick run, all 47 x 6 rounds in thorough) x {.txt,.csv}; split_with_index with random "
                "seeds/percentages; supervised, unsupervised, semi-supervised (supported layout) and semi-supervised with an arbitrary split (known finding stream); "
                "distinct = distinct (model, metric, format, data, split); large-size stream: 4 datasets per quick run with 129-200 rows x 65-90 "
                "(or 257-300) features, 257-400, 513-640 and 1025-1100 rows (class-structured blobs with duplicated rows, a fifth on "
                "lattices), the file written by the library (.txt or .csv) compared entry by entry with the metric and all four model "
                "runs compared through index arrays that reach the highest row numbers")
    rep.assumptions = ["np.savetxt('%.18e') / np.loadtxt round-trips float64 exactly: validated on every matrix entry, not proved (partial)",
                       "KNN-supervised is not in C10's list (its _learn rejects matrices larger than the training set)"]
    return rep.finish()


def replay(path):
    print(open(path).read()[:2000])
    r = json.load(open(path)).get("replay", {})
    if isinstance(r, dict) and r.get("kind") == "large":
        # large inputs are stored as generator parameters: large_b.c10_dataset(gen) rebuilds the data set exactly
        import large_b
        X, Y = large_b.c10_dataset(r["gen"])
        print("replay: rebuilt %d x %d data set (metric %s); first row %r" % (X.shape[0], X.shape[1], r["metric"], X[0].tolist()[:6]))
    return 0
