"""Oracle for Props/C20_rounding.v / C20_binary64.v on the real opfython.math.general.opf_accuracy.

Checks, with exact rational arithmetic on the binary64 result, the statements of C20_binary64 on random label /
prediction vectors (K = 1..40 classes, so both the plain-loop and the pairwise branch of np.sum are exercised):
  error     |A_fl - A| <= ((1+u)^(K+4) - 1) * x + u * A          (C20_binary64_error),  u = 2^-53
  correct   preds == labels  ->  A_fl == 1.0 exactly              (C20_binary64_all_correct)
  wrong     preds != labels  ->  A_fl < 1.0                       (C20_binary64_wrong_lt_one; 2KN+K+3 < 2^53 holds)
  range     0 <= A_fl <= 1                                        (C20_binary64_range)
A measured excess would be a modelling finding (e.g. an operation order of numpy not covered by the model).
Stand-alone: `PYTHONPATH=harness:/repo /venv/bin/python harness/c20_rounding.py [n_cases] [seed]`; to make it part of
the C20 check call `c20_rounding.run(rep_or_None, n, seed)` from harness/c20.py and turn a non-empty `violations`
list into an oracle violation."""
import os
import sys
from fractions import Fraction

import numpy as np

U = Fraction(1, 2 ** 53)


def exact_parts(labels, preds):
    """x = E / (2K) and A = 1 - x as exact rationals (Model/AccuracyRnd.v: acc_x, acc_exact)."""
    K = max(labels) + 1
    N = len(labels)
    E = Fraction(0)
    for c in range(K):
        n_c = sum(1 for l in labels if l == c)
        fp = sum(1 for l, p in zip(labels, preds) if p == c and l != c)
        fn = sum(1 for l, p in zip(labels, preds) if l == c and p != c)
        if fp:
            E += Fraction(fp, N - n_c)
        if fn:
            E += Fraction(fn, n_c)
    x = E / (2 * K)
    return K, x, 1 - x


def check_one(opf_accuracy, labels, preds):
    K, x, A = exact_parts(labels, preds)
    a_fl = float(opf_accuracy(np.asarray(labels), np.asarray(preds)))
    if a_fl != a_fl or a_fl in (float("inf"), float("-inf")):
        return ["opf_accuracy returned %r, the exact value is %s" % (a_fl, A)], Fraction(0)
    got = Fraction(a_fl)
    bound = ((1 + U) ** (K + 4) - 1) * x + U * A
    out = []
    if abs(got - A) > bound:
        out.append("error bound exceeded: |A_fl - A| = %s > %s" % (float(abs(got - A)), float(bound)))
    if list(preds) == list(labels) and a_fl != 1.0:
        out.append("all correct but A_fl = %r" % a_fl)
    if list(preds) != list(labels) and not a_fl < 1.0:
        out.append("a wrong prediction but A_fl = %r" % a_fl)
    if not 0.0 <= a_fl <= 1.0:
        out.append("A_fl = %r outside [0, 1]" % a_fl)
    return out, (abs(got - A) / bound if bound else Fraction(0))


def gen_case(rng):
    K = int(rng.choice([1, 2, 3, 5, 7, 8, 9, 16, 17, 40]))
    N = int(rng.integers(K, 4 * K + 6))
    labels = list(range(K)) + [int(v) for v in rng.integers(0, K, N - K)]   # every class present
    rng.shuffle(labels)
    mode = rng.integers(0, 4)
    if mode == 0:
        preds = list(labels)
    elif mode == 1:
        preds = [int(v) for v in rng.integers(0, K, N)]
    elif mode == 2:
        preds = list(labels)
        i = int(rng.integers(0, N))
        preds[i] = (preds[i] + 1) % K
    else:
        preds = [(l + 1) % K for l in labels]                                  # all wrong when K > 1
    return labels, preds


def run(rep=None, n=400, seed=0):
    repo = os.environ.get("VERIF_REPO", "/repo")
    if repo not in sys.path:
        sys.path.insert(0, repo)
    import logging
    logging.disable(logging.CRITICAL)
    from opfython.math.general import opf_accuracy
    rng = np.random.default_rng(seed)
    violations, worst = [], Fraction(0)
    for _ in range(n):
        labels, preds = gen_case(rng)
        out, ratio = check_one(opf_accuracy, labels, preds)
        worst = max(worst, ratio)
        for msg in out:
            violations.append({"labels": labels, "preds": preds, "msg": msg})
    stats = {"cases": n, "violations": len(violations), "worst_error_over_bound": float(worst)}
    return stats, violations


if __name__ == "__main__":
    n = int(sys.argv[1]) if len(sys.argv) > 1 else 400
    seed = int(sys.argv[2]) if len(sys.argv) > 2 else 0
    st, vs = run(None, n, seed)
    print(st)
    for v in vs[:5]:
        print(v)
    sys.exit(1 if vs else 0)
