"""C07 - no call modifies caller data; results depend only on argument values."""
import random

import numpy as np

from common import *  # noqa
import axiom_table as T

FILES = ["Model/Effects", "Gen/Decorator_gen", "Gen/Stores_gen", "Proofs/EffectsFrame", "Proofs/EffectsC07", "Props/C07"]


def vec(rng, name, n, zeros=True):
    dom = T.domain(name)
    if dom == "real":
        v = [rng.choice([0.0, 0.0, rng.uniform(-5, 5), float(rng.randint(-3, 3))]) for _ in range(n)]
    else:
        v = [rng.choice([0.0, rng.uniform(0.01, 5), float(rng.randint(0, 3))]) if zeros else rng.uniform(0.01, 5) for _ in range(n)]
    return np.array(v, dtype=float)


def feq(a, b):
    return (a == b) or (a != a and b != b)


def main(tier, seed):
    setup_impl_env()
    import warnings
    warnings.simplefilter("ignore")
    import opfython.math.distance as d
    rep = Report("C07", tier, seed)
    standard_proof_phase(rep, "C07", FILES)
    rng = random.Random(seed + 7)
    nviol = 0
    # ---- (1) distances: caller arrays bit-for-bit unchanged; value independent of the call history
    reps = 6 if tier == "quick" else 300
    mstats = dict(metrics=0, calls=0, zero_containing=0)
    names = sorted(d.DISTANCES)
    for name in names:
        fn = d.DISTANCES[name]
        mstats["metrics"] += 1
        for r in range(reps):
            n = rng.randint(1, 6)
            x0, y0 = vec(rng, name, n), vec(rng, name, n)
            if (x0 == 0).any() or (y0 == 0).any():
                mstats["zero_containing"] += 1
            x, y = x0.copy(), y0.copy()
            bx, by = x.tobytes(), y.tobytes()
            try:
                v1 = float(fn(x, y))
            except ZeroDivisionError:
                continue
            mstats["calls"] += 1
            rep.count_case(("metric", name, bx, by), True)
            if x.tobytes() != bx or y.tobytes() != by:
                nviol += 1
                if nviol <= 3:
                    rep.violation("DISTANCES[%r](x, y) modified its arguments: x %r -> %r" % (name, x0.tolist(), x.tolist()),
                                  dict(metric=name, x=x0.tolist(), y=y0.tolist(), x_after=x.tolist(), y_after=y.tolist()),
                                  key="decorator:inplace")
                continue
            # history: many other evaluations, then the same argument values again (on the same array objects)
            for _ in range(3):
                other = names[rng.randrange(len(names))]
                try:
                    d.DISTANCES[other](vec(rng, other, n), vec(rng, other, n))
                    fn(x, y)
                except ZeroDivisionError:
                    pass
            v2 = float(fn(x, y))
            v3 = float(fn(x0.copy(), y0.copy()))
            # a caller-owned buffer that is refilled in place between evaluations (streaming samples through one array)
            try:
                x1 = vec(rng, name, n)
                buf = x0.copy()
                fn(buf, y)
                buf[:] = x1
                vb = float(fn(buf, y))
                vf = float(fn(x1.copy(), y0.copy()))
                ybuf = y0.copy()
                fn(x, ybuf)
                ybuf[:] = x1
                vb2 = float(fn(x, ybuf))
                vf2 = float(fn(x0.copy(), x1.copy()))
            except ZeroDivisionError:
                vb = vf = vb2 = vf2 = 0.0
            if not (feq(vb, vf) and feq(vb2, vf2)):
                nviol += 1
                if nviol <= 3:
                    rep.violation("DISTANCES[%r] on a buffer refilled in place returns %r / %r, on fresh arrays with the same values %r / %r" % (name, vb, vb2, vf, vf2),
                                  dict(metric=name, x=x0.tolist(), x_refill=x1.tolist(), y=y0.tolist()), key="decorator:history")
                continue
            if not (feq(v1, v2) and feq(v1, v3)):
                nviol += 1
                if nviol <= 3:
                    rep.violation("DISTANCES[%r] returns %r, then %r / %r for the same argument values after other evaluations" % (name, v1, v2, v3),
                                  dict(metric=name, x=x0.tolist(), y=y0.tolist()), key="decorator:history")
    rep.corr["distance_calls"] = dict(cases=mstats["calls"], distribution=mstats)
    # ---- (2) models: caller's X / Y unchanged by fit / predict (byte comparison + read-only stream); determinism
    from opfython.models.supervised import SupervisedOPF
    from opfython.models.semi_supervised import SemiSupervisedOPF
    from opfython.models.knn_supervised import KNNSupervisedOPF
    from opfython.models.unsupervised import UnsupervisedOPF
    class ConfigChanged(Exception):
        pass
    CFG = dict(sup=lambda mt: dict(distance=mt, pre=False, max_k=None, min_k=None), semi=lambda mt: dict(distance=mt, pre=False, max_k=None, min_k=None),
               prune=lambda mt: dict(distance=mt, pre=False, max_k=None, min_k=None),
               knn=lambda mt: dict(distance=mt, pre=False, max_k=2, min_k=None), unsup=lambda mt: dict(distance=mt, pre=False, max_k=UNSUP_MAXK, min_k=1))
    UNSUP_MAXK = 2
    nm = 40 if tier == "quick" else 2500
    mods = dict(runs=0, readonly=0)
    for i in range(nm):
        kind = ("sup", "semi", "knn", "unsup", "prune")[i % 5]
        metric = rng.choice(["chi_squared", "canberra", "squared", "bray_curtis", "log_squared_euclidean", "euclidean", "jaccard", "soergel"])
        n, dim = rng.randint(6, 10) + (4 if kind == "prune" else 0), rng.randint(1, 3)
        X = np.array([[rng.choice([0.0, rng.uniform(0.1, 5), float(rng.randint(0, 3))]) for _ in range(dim)] for _ in range(n)])
        base = (i // 5) % 2          # half of the runs use one-based labels
        Y = np.array([base + j % 2 for j in range(n)])
        Xq = np.array([[rng.choice([0.0, rng.uniform(0.1, 5)]) for _ in range(dim)] for _ in range(4)])
        Yq = np.array([base, base + 1, base, base + 1])
        readonly = (i % 10) >= 5
        wide = kind == "unsup" and (i // 5) % 3 == 1
        if wide:
            # two tight, far-apart groups and a k range reaching beyond n-1: the search stops at the first zero cut, so the
            # large max_k is legal - and must still be the model's max_k afterwards
            h_ = n // 2
            X = np.array([[(0.0 if j < h_ else 1000.0) + rng.uniform(0.1, 1.0) for _ in range(dim)] for j in range(n)])
            UNSUP_MAXK = n + 2
        else:
            UNSUP_MAXK = 2
        arrays = dict(X=X, Y=Y, Xq=Xq, Yq=Yq)
        before = {k: v.tobytes() for k, v in arrays.items()}
        if readonly:
            for v in arrays.values():
                v.flags.writeable = False
            mods["readonly"] += 1

        def run():
            if kind == "sup":
                m = SupervisedOPF(distance=metric); m.fit(X, Y); p = m.predict(Xq)
            elif kind == "semi":
                m = SemiSupervisedOPF(distance=metric); m.fit(X, Y, Xq); p = m.predict(Xq)
            elif kind == "knn":
                m = KNNSupervisedOPF(max_k=2, distance=metric); m.fit(X, Y, Xq, Yq); p = m.predict(Xq)
            elif kind == "prune":
                # pruning drops training samples; it must build the reduced set afresh, not compact the caller's arrays
                m = SupervisedOPF(distance=metric); m.prune(X, Y, Xq, Yq, n_iterations=2); p = m.predict(Xq)
            else:
                m = UnsupervisedOPF(min_k=1, max_k=UNSUP_MAXK, distance=metric); m.fit(X, Y); p = m.predict(Xq)
            st = [(float(nd.cost), int(nd.pred), int(nd.predicted_label), int(nd.cluster_label)) for nd in m.subgraph.nodes]
            # the configuration the caller chose is an argument value too: training must not rewrite it (a model whose
            # max_k / metric drifts with what it was trained on gives history-dependent results when trained again)
            cfg_now = dict(distance=m.distance, pre=m.pre_computed_distance, max_k=getattr(m, "max_k", None), min_k=getattr(m, "min_k", None))
            if cfg_now != CFG[kind](metric):
                raise ConfigChanged("%s: configuration after fit/predict is %r, constructed with %r" % (kind, cfg_now, CFG[kind](metric)))
            return st, [list(map(int, q)) for q in p] if isinstance(p, tuple) else list(map(int, p))
        desc = dict(model=kind, metric=metric, X=X.tolist(), Y=Y.tolist(), Xq=Xq.tolist(), readonly=readonly)
        try:
            r1 = run()
        except ConfigChanged as ex:
            nviol += 1
            if nviol <= 3:
                rep.violation("training rewrote the model's configuration - " + str(ex), desc, key="determinism")
            continue
        except ValueError as ex:
            if "read-only" in str(ex):
                nviol += 1
                if nviol <= 3:
                    rep.violation("%s fit/predict with distance %r writes into a read-only caller array: %s" % (kind, metric, ex), desc, key="decorator:inplace")
                continue
            continue
        except ZeroDivisionError:
            continue
        except IndexError:
            if kind != "prune":
                raise
            continue     # pruning left a single class: training cannot find prototypes (outside C07)
        mods["runs"] += 1
        rep.count_case(("model", kind, metric, before["X"]), True)
        after = {k: v.tobytes() for k, v in arrays.items()}
        if after != before:
            ch = [k for k in before if after[k] != before[k]]
            nviol += 1
            if nviol <= 3:
                rep.violation("%s fit/predict with distance %r changed the caller's array(s) %r" % (kind, metric, ch), desc, key="decorator:inplace")
            continue
        try:
            # an unrelated computation in between, as in a real session: buffers of the sizes the library uses are
            # allocated, filled with large values and released (numpy recycles small blocks), and another model is
            # trained on far-away data. A result that reads uninitialised scratch memory changes; a pure one does not.
            for sz in range(1, 12):
                junk = np.full(sz, 1e300 if sz % 2 else -1e300); del junk
            other = UnsupervisedOPF(min_k=2, max_k=2, distance="euclidean")
            other.fit(X + 1000.0, Y); other.predict(Xq + 5000.0)
            for sz in range(1, 12):
                junk = np.full(sz, 7e250); del junk
            r2 = run()
        except Exception:
            continue
        if repr(r1) != repr(r2):
            nviol += 1
            if nviol <= 3:
                rep.violation("%s: fitting a fresh model twice on equal data gives different forests/predictions" % kind, desc, key="determinism")
    import drive_streams
    nviol += drive_streams.file_models(rep, rng, tier)
    nviol += drive_streams.caller_matrix(rep, rng, tier)
    rep.corr["model_runs"] = dict(cases=mods["runs"], distribution=mods)
    # ---- (3) the same clauses on LARGE arguments (long vectors, long evaluation histories, training / validation / unlabeled
    #      sets and query batches above 128 / 256 / 1024 rows, more than 64 features), global generators perturbed between fits
    import large_ab
    nviol += large_ab.c07_large(rep, tier, seed)
    rep.extra["oracle_violations"] = nviol
    rep.samples = [dict(stream="DISTANCES[name](x, y) on arrays containing exact zeros, twice, interleaved with other evaluations"),
                   dict(stream="fit+predict of the four models and SupervisedOPF.prune on arrays with zeros; every other batch handed over read-only"),
                   dict(stream="large arguments (harness/large_ab.py): vectors of 65-1030 coordinates re-evaluated after 70-1100 other evaluations; "
                               "models on > 128 / > 256 training, unlabeled and validation rows, > 64 features, batches of > 256 / > 1024 queries, "
                               "fresh fits with numpy's and python's global generators perturbed / re-seeded in between")]
    rep.rule = ("(1) all 47 metrics x vectors of length 1-6 containing exact zeros (domain permitting): byte comparison of the caller's arrays, value "
                "re-evaluation after unrelated calls; (2) four models and prune x eight metrics (six decorated), byte comparison and read-only stream, "
                "fresh-model determinism; (3) the same on large arguments, one long-vector case per metric and ten large model cases with 2-8 "
                "further fresh fits each; every (metric, argument bytes) pair / model run is one distinct case")
    rep.assumptions = ["the alias classification and the list of mutating numpy/list methods in translator/stores.py are trusted",
                       "metric bodies are store-free: the fail-closed metric translator accepts expressions only",
                       "thread / hash-seed nondeterminism is not exhibited by a Gallina function (partial)"]
    return rep.finish()


def replay(path):
    setup_impl_env()
    import opfython.math.distance as d
    r = json.load(open(path))["replay"]
    if str(r.get("generator", "")).startswith("large_ab."):
        import large_ab
        return large_ab.c07_replay(r)
    if "metric" in r and "x" in r:
        x, y = np.array(r["x"]), np.array(r["y"])
        bx = x.tobytes()
        d.DISTANCES[r["metric"]](x, y)
        bad = x.tobytes() != bx
        print("replay: arguments %s" % ("MODIFIED" if bad else "unchanged"))
        return 1 if bad else 0
    print(json.dumps(r)[:1500])
    return 0
