"""C06, bit-exact binary64 correspondence: the REAL registered functions versus `metric_flt` (Model/MetricFlt.v).

`metric_flt m x y : option float` evaluates the regenerated metric term of `def <name>_distance` on Coq's primitive
floats, node by node as the rounded-real evaluator `metric_rnd` of Model/MetricRnd.v does, with the IEEE-754 operations in
place of "exact operation, then rnd".  Here every identifier INSIDE THE FRAGMENT (no log / exp anywhere in its call tree:
`fragment_keys` of Model/RunMetricFlt.v, evaluated by coqc and cross-checked against Props/C06_flt.v and against the JSON
dump of the translator) is run as `DISTANCES[name](x, y)` on float64 vectors of lengths 1..40 and compared BIT FOR BIT
(float.hex; nan == nan; +0.0 != -0.0) with `run_metric_flt name x y` evaluated by coqc (vm_compute).

What was measured when the model was written (numba 0.67, numpy 2.5; all of it is re-checked by every run of this module,
because each choice below is visible in the last bit):
  * `v ** 2` on float64 under @njit is v * v (60000 random doubles with exponents -600..500 and the subnormal /
    overflowing edge cases: no mismatch); `v ** 0.5` is sqrt(v) (same experiment: no mismatch).
  * numba's np.sum on a 1-D array is `acc = 0.0; for e in a: acc += e` (a left fold STARTING AT +0.0: sum([-0.0]) = +0.0);
    no re-association, no fused multiply-add (the functions are compiled without fastmath).
  * np.minimum / np.maximum return the FIRST argument on ties (signed zeros) and propagate NaN; np.amax keeps the earlier of
    equal entries and is NaN if any entry is (chord on overflowing inputs reaches maximum(nan, 0) = nan).
  * a SCALAR float division by zero inside an @njit function raises ZeroDivisionError (numba's python error model; e.g.
    bray_curtis([-1e-20], [-1e-20])), an ARRAY division gives inf / nan.  metric_flt returns None in the first case:
    "the real function raised ZeroDivisionError" is compared with "run_metric_flt returned [0]".

EXCLUDED from the bit-exact list for a principled reason (reported in rep.corr[...]["restricted"]):
  * every function that is NOT @njit-compiled (`m_njit = false` in the generated table; at the time of writing only
    jaccard_distance): its np.sum is numpy's pairwise summation (8 interleaved accumulators from 8 entries on), not the
    model's left fold.  For these identifiers the lengths are restricted to 1..7, where numpy's sum is the same left fold
    (bit-exact comparison kept); lengths 8..40 are run for information only (`pairwise_mismatches`).
Outside the fragment (log / exp in the call tree; no primitive-float logarithm exists): reported in
rep.corr[...]["outside_fragment"], not compared.

Styles (per vector pair): plain, grid (small integers: many ties, exact arithmetic), zeros (all-zero and half-zero vectors:
the decorator's 1e-20 alone), tiny (0, 6e-21, 1.2e-20, 3e-17, 1e-300 and the subnormal 5e-324), huge (1e80: squares finite;
1e200: squares overflow to inf), mixed (mixed signs with exact and negative zeros), cancel (every entry -1e-20: exactly 0.0
behind the decorator's shift, so that divisions by zero of both kinds occur).  Non-finite results (inf, nan) are part
of the comparison.
"""
import json
import math
import os
import random
import re

import numpy as np

from common import BUILD, COQ, flist, run_cases, sh, vo_ok

LENGTHS = list(range(1, 41))
STYLES = ["plain", "grid", "zeros", "tiny", "huge", "mixed"]      # + "cancel", see gen_pair
PAIRWISE_FROM = 8      # numpy's pairwise summation differs from the left fold from this length on
PROPS = os.path.join(COQ, "theories", "Props", "C06_flt.v")


def gen_vec(rng, n, style):
    if style == "plain":
        return [rng.uniform(0.1, 10.0) for _ in range(n)]
    if style == "grid":
        return [float(rng.randint(0, 4)) for _ in range(n)]
    if style == "zeros":
        return [0.0 if rng.random() < 0.5 else rng.uniform(0.1, 10.0) for _ in range(n)] if rng.random() < 0.5 else [0.0] * n
    if style == "tiny":
        return [rng.choice([0.0, 6e-21, 1.2e-20, 3e-17, 1e-300, 5e-324]) for _ in range(n)]
    if style == "huge":
        sc = rng.choice([1e80, 1e80, 1e200])
        return [rng.uniform(0.1, 10.0) * sc for _ in range(n)]
    if style == "mixed":
        out = []
        for _ in range(n):
            r = rng.random()
            a = rng.uniform(0.1, 10.0)
            out.append(0.0 if r < 0.08 else (-0.0 if r < 0.14 else (-a if r < 0.55 else a)))
        return out
    raise ValueError(style)


def gen_pair(rng, n, style):
    if style == "cancel":
        # every entry is -1e-20: behind the decorator's shift both vectors are exactly 0.0 (0/0 in array divisions, a ZeroDivisionError
        # in scalar divisions under @njit); undecorated functions see x == y
        return [-1e-20] * n, [-1e-20] * n
    x, y = gen_vec(rng, n, style), gen_vec(rng, n, style)
    if style == "grid" and rng.random() < 0.3:
        y = [a if rng.random() < 0.5 else b for a, b in zip(x, y)]     # equal entries: hamming, zero terms
    if style == "mixed" and rng.random() < 0.3:
        y = [-a for a in x]                                            # opposite vectors: x + y = 0 behind the shift
    return x, y


def same_bits(a, b):
    if a != a or b != b:
        return a != a and b != b
    return float(a).hex() == float(b).hex()


def call_real(fn, x, y):
    """('val', float) | ('zerodiv',) | ('error', text); the function gets fresh arrays"""
    try:
        with np.errstate(all="ignore"):
            return ("val", float(fn(np.array(x, dtype=np.float64), np.array(y, dtype=np.float64))))
    except ZeroDivisionError:
        return ("zerodiv",)
    except Exception as ex:  # noqa
        return ("error", "%s: %s" % (type(ex).__name__, ex))


def coq_strings(expr, tag):
    """a closed Coq term of type list string, evaluated by coqc; None if coqc fails"""
    d = os.path.join(BUILD, "c06_flt")
    os.makedirs(d, exist_ok=True)
    f = os.path.join(d, "%s.v" % tag)
    with open(f, "w") as fh:
        fh.write("From Coq Require Import String List.\nFrom OPF Require Import Gen.Registry_gen Model.MetricFlt Model.RunMetricFlt.\n"
                 "Set Printing Width 1000000.\nSet Printing Depth 1000000.\n")
        fh.write('Goal True. idtac "@@RESULT". Abort.\nEval vm_compute in (%s).\n' % expr)
    rc, out = sh(["coqc", "-Q", os.path.join(COQ, "theories"), "OPF", f], timeout=600)
    if rc != 0 or "@@RESULT" not in out:
        return None
    body = out.split("@@RESULT", 1)[1]
    return re.findall(r'"([A-Za-z0-9_]+)"', body.rsplit(": list string", 1)[0])


def props_fragment():
    """the list written in the statement of C06_flt_fragment"""
    try:
        src = re.sub(r"\(\*.*?\*\)", " ", open(PROPS).read(), flags=re.S)
    except OSError:
        return None
    m = re.search(r"Theorem\s+C06_flt_fragment\s*:(.*?)Proof\.", src, flags=re.S)
    return re.findall(r'"([A-Za-z0-9_]+)"', m.group(1)) if m else None


def json_fragment():
    """registry keys without log/exp in the call tree, from the translator's JSON dump (independent of Coq)"""
    try:
        d = json.load(open(os.path.join(BUILD, "metrics_ir.json")))
    except (OSError, ValueError):
        return None, {}
    by = {m["fname"]: m for m in d["metrics"]}

    def has_le(node):
        if isinstance(node, list):
            if len(node) >= 2 and node[0] in ("SUn", "VUn") and node[1] in ("ULog", "UExp"):
                return True
            return any(has_le(ch) for ch in node)
        return False

    def inside(fn, depth=0):
        m = by.get(fn)
        return m is not None and depth <= 3 and not has_le(m["body"]) and all(inside(g, depth + 1) for g in m["calls"])
    keys = [k for k, f in d["registry"] if inside(f)]
    return keys, {k: by[f] for k, f in d["registry"] if f in by}


def plan(rng, tier, allowed):
    """(n, style) pairs for one identifier"""
    if tier == "quick":
        out = [(rng.choice(allowed), st) for st in STYLES]
        out += [(allowed[0], "plain"), (allowed[-1], "plain"), (rng.choice(allowed[:3]), "cancel")]
        return out
    return [(n, st) for n in allowed for st in STYLES] + [(n, "cancel") for n in allowed[:5]]


def run(rep, D, tier, seed):
    ok_vo = vo_ok("Model/MetricFlt") and vo_ok("Model/RunMetricFlt")
    rep.obligation("compiles: Model/MetricFlt.v, Model/RunMetricFlt.v (binary64 evaluator of the regenerated metric terms)", ok_vo)
    if not ok_vo:
        return None
    frag = coq_strings("fragment_keys", "Fragment")
    outside = coq_strings("filter (fun k => negb (existsb (String.eqb k) fragment_keys)) (map fst registry)", "Outside")
    jfrag, meta = json_fragment()
    pfrag = props_fragment()
    rep.obligation("coqc: fragment_keys (identifiers without log/exp in the call tree) == the list stated by C06_flt_fragment == the "
                   "list computed from the translator's JSON dump (%d identifiers)" % (len(frag) if frag else 0),
                   frag is not None and frag == pfrag and jfrag is not None and sorted(frag) == sorted(jfrag),
                   "coqc: %r; Props: %r; json: %r" % (frag, pfrag, jfrag))
    if not frag:
        return None
    rng = random.Random(seed + 6064)
    cases, info_cases, terms = [], [], []
    restricted = {}
    missing = [k for k in frag if k not in D]
    for name in frag:
        if name not in D:
            continue
        njit = bool(meta.get(name, {}).get("njit", True))
        allowed = LENGTHS if njit else [n for n in LENGTHS if n < PAIRWISE_FROM]
        if not njit:
            restricted[name] = dict(reason="not @njit-compiled: np.sum is numpy's pairwise summation from %d entries on, not the "
                                           "model's left fold" % PAIRWISE_FROM, lengths=[allowed[0], allowed[-1]],
                                    pairwise_cases=0, pairwise_mismatches=0)
            for n in ([8, 16, 40] if tier == "quick" else [n for n in LENGTHS if n >= PAIRWISE_FROM]):
                x, y = gen_pair(rng, n, "plain")
                info_cases.append((name, "plain", x, y))
        for n, st in plan(rng, tier, allowed):
            x, y = gen_pair(rng, n, st)
            cases.append((name, st, x, y))
    for name, st, x, y in cases + info_cases:
        terms.append('run_metric_flt "%s" %s %s' % (name, flist(x), flist(y)))
    # the checked evaluator of the refinement theorem (Props/C06_flt_refine.v) on the same cases: how often its hypothesis
    # "every intermediate finite" holds, and (re-checking C06_flt_checked_is_flt) that it then returns the same bits
    for name, st, x, y in cases:
        terms.append('run_metric_fltc "%s" %s %s' % (name, flist(x), flist(y)))
    try:
        res = run_cases("c06_flt", terms, requires=("Model.RunMetricFlt",), typ="list float",
                        preamble="From Coq Require Import String.\nOpen Scope string_scope.")
    except RuntimeError as ex:
        rep.obligation("coqc evaluates run_metric_flt on %d cases" % len(terms), False, str(ex)[-1500:])
        return None
    bad = {}
    stats = dict(per_style={st: 0 for st in STYLES + ["cancel"]}, nonfinite=0, zerodiv=0, lengths=[LENGTHS[0], LENGTHS[-1]])
    for (name, st, x, y), r in zip(cases, res[:len(cases)]):
        got = call_real(D[name], x, y)
        stats["per_style"][st] += 1
        rep.count_case(("metric_flt", name, tuple(x), tuple(y)), True)
        if got[0] == "val":
            agree = len(r) == 2 and r[0] == 1.0 and same_bits(got[1], r[1])
            if not math.isfinite(got[1]):
                stats["nonfinite"] += 1
        elif got[0] == "zerodiv":
            agree = len(r) == 1 and r[0] == 0.0
            stats["zerodiv"] += 1
        else:
            agree = False
        if not agree:
            bad.setdefault(name, []).append((st, x, y, got, r))
    for name, lst in bad.items():
        st, x, y, got, r = min(lst, key=lambda t: len(t[1]))
        model = ("None" if r == [0.0] else "unresolved identifier" if r == [2.0] else
                 "%r (%s)" % (r[1], float(r[1]).hex()) if len(r) == 2 else repr(r))
        real = "%r (%s)" % (got[1], got[1].hex()) if got[0] == "val" else ("ZeroDivisionError" if got[0] == "zerodiv" else got[1])
        rep.violation("DISTANCES[%r] differs from metric_flt in the last bits on %d of its cases; e.g. (%s, n=%d) x=%r y=%r: real function %s, "
                      "metric_flt %s" % (name, len(lst), st, len(x), x, y, real, model),
                      dict(kind="metric_flt", name=name, x=x, y=y, style=st, real=real, model=model), key="metric:%s" % name)
    n_all = len(cases) + len(info_cases)
    chk_defined, chk_bad = 0, []
    for (name, st, x, y), r, rc in zip(cases, res[:len(cases)], res[n_all:]):
        if len(rc) == 2:
            chk_defined += 1
            if not (len(r) == 2 and same_bits(r[1], rc[1]) and math.isfinite(rc[1])):
                chk_bad.append((name, x, y, r, rc))
    rep.obligation("metric_fltc (checked evaluator of C06_flt_refine) is defined on %d of the %d cases and returns the bits of metric_flt there"
                   % (chk_defined, len(cases)), not chk_bad and chk_defined > 0, "%r" % chk_bad[:3])
    stats["checked_defined"] = chk_defined
    for (name, st, x, y), r in zip(info_cases, res[len(cases):n_all]):
        got = call_real(D[name], x, y)
        restricted[name]["pairwise_cases"] += 1
        if not (got[0] == "val" and len(r) == 2 and same_bits(got[1], r[1])):
            restricted[name]["pairwise_mismatches"] += 1
    n_ids = len([k for k in frag if k in D])
    rep.obligation("correspondence metric_flt vs DISTANCES (bit-exact, %d identifiers, %d cases)" % (n_ids, len(cases)),
                   not bad and not missing,
                   "disagreeing identifiers: %r; fragment identifiers missing from DISTANCES: %r" % (sorted(bad), missing))
    rep.corr["metric_flt_bit_exact"] = dict(
        cases=len(cases), disagreements=sum(len(v) for v in bad.values()), identifiers=n_ids,
        bit_exact=[k for k in frag if k in D and k not in restricted], restricted=restricted,
        outside_fragment=outside, distribution=stats,
        semantics="** 2 = v * v; ** 0.5 = sqrt(v); np.sum = left fold from +0.0 (numba); minimum/maximum/amax keep the first of "
                  "equal entries; scalar division by zero under @njit raises (model: None)")
    rep.assumptions.append("metric_flt correspondence: float64 vectors of equal length 1..40; identifiers with log/exp in their call tree are "
                           "outside the primitive-float fragment (%s); functions that are not @njit-compiled are compared for lengths < %d "
                           "only (numpy's pairwise np.sum)" % (", ".join(outside or []), PAIRWISE_FROM))
    return stats


def replay(r, D):
    """re-run one recorded disagreement; 0 = bit-identical now"""
    name = r["name"]
    x, y = [float(v) for v in r["x"]], [float(v) for v in r["y"]]
    if name not in D:
        print("replay: %r is not in DISTANCES" % name)
        return 1
    res = run_cases("c06_flt_replay", ['run_metric_flt "%s" %s %s' % (name, flist(x), flist(y))], requires=("Model.RunMetricFlt",),
                    typ="list float", preamble="From Coq Require Import String.\nOpen Scope string_scope.")[0]
    got = call_real(D[name], x, y)
    if got[0] == "val":
        ok = len(res) == 2 and same_bits(got[1], res[1])
    else:
        ok = got[0] == "zerodiv" and res == [0.0]
    print("replay: %s x=%r y=%r real=%r metric_flt=%r -> %s" % (name, x, y, got, res, "bit-identical" if ok else "DIFFER"))
    return 0 if ok else 1
