from knncheck import main_c13 as main
from knncommon import *  # noqa


def replay(path):
    print(open(path).read()[:2000])
    return 0
