"""How the public API is driven: argument forms, recoverable failures, files re-used under one name.

The properties quantify over every legitimate way of calling the library, not only over `np.array(..., dtype=float)`
arguments of fresh objects.  The helpers below vary, deterministically in their `rng`,

  present(X, rng)        the container / layout / dtype in which a feature matrix is handed over (same values);
  present_labels(Y, rng) the same for label vectors;
  poke(obj, rng)         rejected assignments to the public attributes of a model before it is used (each must raise and
                         leave nothing behind);
  matrix_file(D, rng)    a pre-computed matrix written under ONE recurring file name (both extensions), so that every model
                         built on that name must see the file's current content.

Every variation keeps the values (and therefore the expected results) bit-identical; the checks compare the outcome with
the model / oracle computed from the caller's values.
"""
import os
import tempfile

import numpy as np

_TMP = None


def tmpdir():
    global _TMP
    if _TMP is None:
        _TMP = tempfile.mkdtemp(prefix="verif_drive_")
    return _TMP


# no float32 form: single-precision rows make numba evaluate the metric in single precision, so the RESULTS differ from the
# float64 reference even when the values are representable (a false alarm of the thorough tier on 2026-10-01)
FORMS = ("c", "c", "fortran", "strided", "readonly", "lists", "tuples", "rowlist", "int64")


def present(X, rng, forms=FORMS):
    """X: 2-D float64 ndarray. Returns (object to hand to the library, name of the form)."""
    X = np.asarray(X, dtype=float)
    form = rng.choice(forms)
    integral = bool(X.size) and bool(np.all(X == np.floor(X))) and bool(np.all(np.abs(X) < 2 ** 31))
    if form == "fortran":
        return np.asfortranarray(X.copy()), form
    if form == "strided":
        wide = np.full((X.shape[0], 2 * X.shape[1] + 1), 7.25)
        wide[:, 1::2] = X
        return wide[:, 1::2], form
    if form == "readonly":
        Z = X.copy()
        Z.setflags(write=False)
        return Z, form
    if form in ("lists", "tuples"):
        # literals as a user writes them: integral entries as Python ints, the others as floats
        rows = [[int(v) if float(v).is_integer() and abs(v) < 2 ** 31 else float(v) for v in row] for row in X]
        return (rows if form == "lists" else tuple(tuple(r) for r in rows)), form
    if form == "rowlist":
        # a list of 1-D arrays, integral rows as integer arrays
        return [np.array(row, dtype=np.int64) if np.all(row == np.floor(row)) and np.all(np.abs(row) < 2 ** 31) else np.array(row) for row in X], form
    if form == "int64" and integral:
        return X.astype(np.int64), form
    if form == "float32" and np.all(X.astype(np.float32).astype(float) == X):
        return X.astype(np.float32), form
    return X.copy(), "c"


def present_labels(Y, rng):
    Y = [int(v) for v in Y]
    form = rng.choice(("array", "array", "int32", "list_array", "readonly", "strided"))
    if form == "int32":
        return np.array(Y, dtype=np.int32), form
    if form == "readonly":
        Z = np.array(Y)
        Z.setflags(write=False)
        return Z, form
    if form == "strided":
        wide = np.full(2 * len(Y) + 1, -5)
        wide[1::2] = Y
        return wide[1::2], form
    if form == "list_array":
        return np.asarray(list(Y)), form
    return np.array(Y), "array"


BAD = {
    "distance": ["no_such_metric", 3, None],
    "pre_computed_distance": [3, 1.5],
    "min_k": [0, -2, 1.5, "2", None],
    "max_k": [0, -1, 2.5, "3", None],
    "subgraph": [3, "graph"],
    "pre_distances": [3, "matrix", [1, 2]],
    "distance_fn": [3, "fn"],
}


STUCK = []      # rejected assignments that left something behind: flushed into the report by common.Report.finish


def poke_report(obj, rng, p, context):
    msg = poke(obj, rng, p)
    if msg:
        STUCK.append(dict(what="%s: %s" % (type(obj).__name__, msg), context=context))
    return msg


def poke(obj, rng, p=0.5):
    """Rejected assignments: each is expected to raise; whatever happens, the attribute must afterwards hold what it held
    before (a failed assignment that sticks changes later results).  Returns a description of what stuck, or None."""
    if rng.random() > p:
        return None
    for attr, bads in BAD.items():
        if not hasattr(obj, attr) or rng.random() < 0.4:
            continue
        try:
            before = getattr(obj, attr)
        except Exception:
            continue
        bad = rng.choice(bads)
        try:
            setattr(obj, attr, bad)
        except Exception:
            try:
                after = getattr(obj, attr)
            except Exception as ex:
                return "reading %s after a rejected assignment of %r raised %r" % (attr, bad, ex)
            same = after is before or (not isinstance(after, np.ndarray) and not isinstance(before, np.ndarray) and after == before)
            if not same:
                return "the rejected assignment %s = %r left %r behind (was %r)" % (attr, bad, after, before)
        else:
            # accepted (the library has no check for this attribute/value): put the old value back
            try:
                setattr(obj, attr, before)
            except Exception:
                pass
    return None


_FILE_COUNT = [0]


def matrix_file(D, rng):
    """Write the matrix under a recurring name (dist.txt / dist.csv in one directory, alternating); returns the path.
    Values survive exactly: '%.18e' round-trips binary64."""
    _FILE_COUNT[0] += 1
    ext = "txt" if rng.random() < 0.5 else "csv"
    path = os.path.join(tmpdir(), "dist." + ext)
    np.savetxt(path, np.asarray(D, dtype=float), delimiter=" " if ext == "txt" else ",")
    return path
