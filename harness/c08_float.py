"""C08, float-level exactness oracle (Props/C08_float.v).

For exactly the identifiers the Coq theorems accept (the lists are read from the statements of
C08_float_symmetric and C08_float_zero_self_one, so the oracle and the theorems cannot drift apart):

  * d(x, y) == d(y, x) bit for bit             (theorem: every odd rounding; binary64 round-to-nearest is odd)
  * d(x, x) == 0.0 and d(x, copy of x) == 0.0  (theorem: every monotone sign-preserving rounding with rnd 1 = 1)

on the class the theorem is stated for (Any = real vectors, NonNeg = non-negative vectors, exact zeros
included) and on the axiom table's own domain, for lengths 1..7 and 8, 9, 16, 17, 33, 64, 130 (numpy's np.sum is a
pairwise summation with an 8-way unrolled inner loop from n = 8 and blocks of 128; the Coq model is a left fold.
Both claims are insensitive to the summation order: the swapped terms are equal term by term, and a sum of exact
zeros is zero in any order).

The identifiers the checkers REJECT are measured too and reported as information (never a violation):
jeffreys is expected to be bitwise asymmetric on some pairs; bhattacharyya / chord / cosine are expected to have
a non-zero self-distance of the order of one ulp.
"""
import math
import os
import random
import re
import struct

import numpy as np

from common import COQ
import axiom_table as T

PROPS = os.path.join(COQ, "theories", "Props", "C08_float.v")
LENGTHS = [1, 2, 3, 4, 5, 6, 7, 8, 9, 16, 17, 33, 64, 130]


def _statement(src, name):
    m = re.search(r"Theorem\s+%s\s*:(.*?)Proof\." % re.escape(name), src, flags=re.S)
    return m.group(1) if m else ""


def accepted():
    """(symmetric identifiers, {identifier: class} for zero self-distance) as stated in Props/C08_float.v."""
    src = open(PROPS).read()
    src = re.sub(r"\(\*.*?\*\)", " ", src, flags=re.S)
    sym = re.findall(r'"([a-z0-9_]+)_distance"', _statement(src, "C08_float_symmetric"))
    zero = dict(re.findall(r'\("([a-z0-9_]+)_distance",\s*(Any|NonNeg|Pos)\)', _statement(src, "C08_float_zero_self_one")))
    return sym, zero


def bits(v):
    return struct.pack("<d", float(v))


def same_bits(a, b):
    """bit-for-bit (two NaNs count as the same undefinedness)"""
    return bits(a) == bits(b) or (a != a and b != b)


def gen_class(rng, cls, n):
    """a vector of the class a theorem is stated for"""
    if cls == "Any":
        return [rng.choice([0.0, rng.uniform(-8, 8), float(rng.randint(-3, 3)), rng.uniform(-1e-3, 1e-3), rng.uniform(-1e6, 1e6)])
                for _ in range(n)]
    lo = 0.0 if cls == "NonNeg" else 1e-9
    return [rng.choice([lo, rng.uniform(lo, 8), float(rng.randint(1 if cls == "Pos" else 0, 3)), rng.uniform(lo, 1e-3), rng.uniform(1, 1e6)])
            for _ in range(n)]


def run(rep, d, gen_vec, tier, seed):
    """gen_vec(rng, domain, n): the generator of c08.py for the axiom table's domains."""
    sym, zero = accepted()
    rep.obligation("Props/C08_float.v states the accepted lists (41 symmetric, 40 zero-self identifiers)",
                   len(sym) == 41 and len(zero) == 40 and all(n in T.ALL for n in sym) and all(n in T.ALL for n in zero)
                   and not (set(sym) & T.NOT_SYMMETRIC) and not (set(zero) & T.NOT_DISSIMILARITY),
                   "sym=%d zero=%d" % (len(sym), len(zero)))
    rng = random.Random(seed + 808)
    reps = 12 if tier == "quick" else 300
    stats = dict(sym_pairs=0, zero_self=0, lengths=LENGTHS)
    seen = set()

    def call(fn, a, b):
        try:
            return float(fn(a, b))
        except ZeroDivisionError:
            return None

    def vectors(name, cls, n):
        """the theorem's class, then the table's domain"""
        yield gen_class(rng, cls, n)
        yield gen_vec(rng, T.domain(name), n)

    # ---- symmetry, bit for bit ----
    for name in sym:
        fn = d.DISTANCES[name]
        dom = T.domain(name)
        cls = zero.get(name) or ("Any" if dom == "real" else "NonNeg")
        if name == "hassanat":
            cls = "Any"                 # symmetric on the whole real domain
        for r in range(reps):
            n = LENGTHS[r % len(LENGTHS)]
            for xl, yl in zip(vectors(name, cls, n), vectors(name, cls, n)):
                x, y = np.array(xl, dtype=float), np.array(yl, dtype=float)
                a, b = call(fn, x, y), call(fn, y, x)
                if a is None and b is None:
                    continue                # both raise ZeroDivisionError: the same undefinedness
                stats["sym_pairs"] += 1
                rep.count_case(("fsym", name, tuple(xl), tuple(yl)), True)
                if a is None or b is None or not same_bits(a, b):
                    key = "float_sym:" + name
                    if key not in seen and len(seen) < 6:
                        seen.add(key)
                        rep.violation("%s is accepted by swap_sym but f(x,y)=%r and f(y,x)=%r differ in binary64" % (name, a, b),
                                      dict(metric=name, x=xl, y=yl, z=yl, check="float_sym"), key=key)
    # ---- zero self-distance, exactly ----
    for name, cls in sorted(zero.items()):
        fn = d.DISTANCES[name]
        for r in range(reps):
            n = LENGTHS[r % len(LENGTHS)]
            for xl in vectors(name, cls, n):
                if cls != "Any" and min(xl) < 0:
                    continue
                x = np.array(xl, dtype=float)
                for other in (x, x.copy()):
                    v = call(fn, x, other)
                    stats["zero_self"] += 1
                    rep.count_case(("fzero", name, tuple(xl), other is x), True)
                    if v is None or not (v == 0.0):
                        key = "float_zero:" + name
                        if key not in seen and len(seen) < 6:
                            seen.add(key)
                            rep.violation("%s is accepted by zero_self but f(x,x) = %r in binary64 (expected exactly 0.0)" % (name, v),
                                          dict(metric=name, x=xl, y=xl, z=xl, check="float_zero"), key=key)
    # ---- information: what the rejected identifiers do in binary64 ----
    info = {}
    for name in [n for n in T.ALL if n not in T.NOT_SYMMETRIC and n not in sym]:
        fn = d.DISTANCES[name]
        asym = tot = 0
        for r in range(reps * 4):
            n = LENGTHS[r % len(LENGTHS)]
            x, y = np.array(gen_vec(rng, T.domain(name), n), dtype=float), np.array(gen_vec(rng, T.domain(name), n), dtype=float)
            a, b = call(fn, x, y), call(fn, y, x)
            if a is None or b is None:
                continue
            tot += 1
            asym += 0 if same_bits(a, b) else 1
        info["sym_rejected:" + name] = dict(pairs=tot, bitwise_asymmetric=asym)
    for name in [n for n in T.ALL if n not in T.NOT_DISSIMILARITY and n not in zero]:
        fn = d.DISTANCES[name]
        nz = tot = 0
        worst = 0.0
        for r in range(reps * 4):
            n = LENGTHS[r % len(LENGTHS)]
            x = np.array(gen_vec(rng, T.domain(name), n), dtype=float)
            v = call(fn, x, x)
            if v is None:
                continue
            tot += 1
            if not (v == 0.0):
                nz += 1
                worst = max(worst, abs(v)) if math.isfinite(v) else worst
        info["zero_rejected:" + name] = dict(vectors=tot, nonzero_self=nz, max_abs=worst)
    stats["rejected_identifiers_in_binary64"] = info
    rep.corr["float_exactness_oracle"] = dict(cases=stats["sym_pairs"] + stats["zero_self"], distribution=stats)
    rep.assumptions.append("float exactness (Props/C08_float.v): binary64 round-to-nearest is odd, monotone, fixes 0 and 1 and preserves strict "
                           "sign away from underflow; exp/log/sqrt of numpy/numba are deterministic functions of their argument; "
                           "no fused multiply-add / fastmath (distance.py uses @njit(cache=True) only)")
    return stats


def replay(r, d):
    """re-run one recorded exactness violation; 0 = the exactness claim holds on the recorded input"""
    fn = d.DISTANCES[r["metric"]]
    x, y = np.array(r["x"], dtype=float), np.array(r["y"], dtype=float)
    if r.get("check") == "float_sym":
        a, b = float(fn(x, y)), float(fn(y, x))
        print("replay: %s(x, y) = %r, %s(y, x) = %r" % (r["metric"], a, r["metric"], b))
        return 0 if same_bits(a, b) else 1
    v = float(fn(x, x))
    print("replay: %s(x, x) = %r" % (r["metric"], v))
    return 0 if v == 0.0 else 1
