"""Large-size streams of C10, C18 and C20 (see large.py for the supervised family).

The bulk streams of these checks stop at a few dozen rows.  Blocked / streamed rewrites (row blocks of 64 .. 1024 elements,
flushes of full buffers, blocked moments) behave exactly as before below their block size, so each check also gets a few
inputs that are large in every size the operation depends on: rows, features, queries per call, classes, file length.
Every large input is rebuilt exactly from a small `gen` dictionary (generator parameters + seed), which is what the replay
files carry together with the rows / entries that fail; the inputs are judged by the Python oracles of the checks
(c10: file entry by entry against the metric and file-versus-direct model runs; c18: split_oracle / convert_oracle;
c20: oracle() with the exact rational definitions, normalize against a math.fsum reference).  A failing input is cut down
to its smallest failing row prefix by bisection (the whole-input shrinkers of the checks are quadratic)."""
import math
import os
import random
import time
from collections import Counter
from fractions import Fraction

import numpy as np

from common import run_cases, zlist, zlistlist


def sub_rng(seed, tag):
    """PRNG of a large stream: derived from the check's seed, independent of the bulk streams' draws."""
    return random.Random("%s/%d" % (tag, seed))


class CoqJob:
    """common.run_cases in a thread: coqc evaluates the large terms while the Python oracles run."""

    def __init__(self, tag, terms, **kw):
        import threading
        self.res, self.err = None, None

        def work():
            try:
                self.res = run_cases(tag, terms, **kw)
            except BaseException as ex:  # noqa
                self.err = ex
        self.th = threading.Thread(target=work)
        self.th.start()

    def result(self):
        self.th.join()
        if self.err is not None:
            raise self.err
        return self.res


def smallest_failing_prefix(fails, lo, hi):
    """`fails(hi)` holds.  Bisection for a small m in [lo, hi] with fails(m); the result is always a failing size."""
    best = hi
    while lo < best:
        mid = (lo + best) // 2
        if fails(mid):
            best = mid
        else:
            lo = mid + 1
    return best


def _bucket(n):
    for b in (64, 128, 256, 512, 1024, 2048, 4096, 16384, 65536):
        if n <= b:
            return "<=%d" % b
    return ">65536"


# ========================================================================================
# C10: pre_compute_distance -> file -> models with index arrays

def c10_dataset(gen):
    """gen = dict(seed, n, dim, classes, dom, style, dups) -> (X float64 (n, dim), Y int (n,)), rebuilt exactly."""
    rs = np.random.RandomState(gen["seed"])
    n, dim, K = gen["n"], gen["dim"], gen["classes"]
    lab = rs.permutation(np.arange(n) % K)
    if gen["style"] == "lattice":
        # integer lattice: many exact ties and duplicated rows all over the file
        X = rs.randint(1, 4, (n, dim)).astype(float) + (lab[:, None] % 2)
    else:
        # class-structured: one Gaussian blob per class, positive coordinates
        cen = rs.uniform(1.0, 9.0, (K, dim))
        X = np.abs(cen[lab] + rs.normal(0.0, 1.1, (n, dim))) + 0.01
        for _ in range(gen["dups"]):
            a, b = rs.randint(0, n, 2)
            X[a] = X[b]                     # copies of a sample at unrelated row numbers
    if gen["dom"] == "prob":
        X = X / X.sum(axis=1, keepdims=True)
    return np.ascontiguousarray(X), lab.astype(int)


C10_FAST = ["matusita", "euclidean", "lorentzian", "manhattan", "gower", "hellinger", "log_squared_euclidean", "log_euclidean", "hamming",
            "average_euclidean", "gaussian", "squared_chord", "squared_euclidean", "non_intersection", "chebyshev"]


def _stratified(rs, n, k):
    """Sorted positions in 0..n-1: the first two, the last three and one random position out of each of k consecutive strata."""
    if n <= k:
        return np.arange(n)
    edges = np.linspace(0, n, k + 1).astype(int)
    return np.unique(np.concatenate([[0, 1, n - 3, n - 2, n - 1], [rs.randint(lo, hi) for lo, hi in zip(edges[:-1], edges[1:]) if hi > lo]]))


def c10_large(rep, seed, tier, tmp, stats):
    """Datasets of > 128, > 256, > 512 and > 1024 rows (one of them with > 64 or > 256 features) through pre_compute_distance ->
    file (.txt or .csv, written by the library) -> supervised / unsupervised / semi-supervised models with index arrays that reach
    the highest row numbers of the file, compared with the on-the-fly runs; the file itself is compared entry by entry with the
    metric.  Quick tier: of files with more than 640 rows, 300 rows spread over the whole file (all columns) are compared, and
    the models work on at most ~256 rows spread over the whole file; the thorough tier uses every row.  Returns #violations."""
    import axiom_table as T
    import c10
    import opfython.math.general as g
    import opfython.math.distance as d
    import opfython.stream.splitter as s
    from opfython.models.supervised import SupervisedOPF
    from opfython.models.semi_supervised import SemiSupervisedOPF
    from opfython.models.unsupervised import UnsupervisedOPF
    rng = sub_rng(seed, "C10-large")
    quick = tier == "quick"
    # (rows, features): every block size from 64 to 1024 is exceeded by the row count of some dataset
    wide = (257, 300) if rng.random() < 0.34 else (65, 90)
    plan = [((129, 200), wide), ((257, 400), (2, 4)), ((513, 640), (2, 3)), ((1025, 1100), (2, 2))]
    if not quick:
        plan = plan * 3 + [((129, 256), (257, 300)), ((140, 256), (65, 90)), ((2049, 2100), (2, 2))]
    asym = sorted(T.NOT_SYMMETRIC)
    ls = stats.setdefault("large", dict(datasets=0, rows={}, features={}, metrics={}, file_entries=0, model_runs=0, skipped=0,
                                        max_row_index_used=0, seconds=0.0, seconds_per_dataset=[]))
    t0 = time.time()
    nviol = 0
    seen = set()

    def viol(msg, desc, key):
        nonlocal nviol
        nviol += 1
        if key in seen:
            return
        seen.add(key)
        rep.violation(msg, desc, key=key)

    for pi, ((n0, n1), (d0, d1)) in enumerate(plan):
        done = False
        tds = time.time()
        for attempt in range(3):
            if done:
                break
            # the non-symmetric identifiers take their turn (row/column mix-ups), otherwise any registered metric
            # (quick tier, more than 512 rows: one of the metrics without the zero-division wrapper - a third of the cost per call)
            metric = rng.choice(asym) if pi % 4 == 1 else rng.choice(C10_FAST if (quick and n0 > 512) else T.ALL)
            dom = T.domain(metric)
            N, dim = rng.randint(n0, n1), rng.randint(d0, d1)
            style = "lattice" if (metric == "hamming" or rng.random() < 0.2) and dom != "prob" else "blobs"
            gen = dict(seed=rng.getrandbits(31), n=N, dim=dim, classes=rng.choice([2, 3, 5]), dom=dom, style=style,
                       dups=rng.choice([0, 3, N // 20]))
            X, Y = c10_dataset(gen)
            fn = d.DISTANCES[metric]
            fmt = "txt" if (pi + len(metric)) % 2 == 0 else "csv"
            fpath = os.path.join(tmp, "dist_large." + fmt)
            base = dict(kind="large", metric=metric, format=fmt, gen=gen, rebuild="large_b.c10_dataset(gen) -> X, Y")
            srs = np.random.RandomState(gen["seed"] ^ 0x5BD1E995)
            F = np.arange(N) if (not quick or N <= 640) else _stratified(srs, N, 300)          # rows of the file that are compared
            Mpos = np.arange(len(F)) if (not quick or len(F) <= 256) else _stratified(srs, len(F), 250)
            S = F[Mpos]                                                                        # rows the models may use
            try:
                direct = np.array([[float(fn(X[i].copy(), X[j].copy())) for j in range(N)] for i in F])
            except Exception:  # noqa  (the metric itself is not defined on this data: outside the property)
                ls["skipped"] += 1
                continue
            try:
                g.pre_compute_distance(X, fpath, metric)
            except ZeroDivisionError:
                ls["skipped"] += 1
                continue
            except Exception as ex:  # noqa
                viol("pre_compute_distance(data, 'dist_large.%s', %r) raised %r on %d rows x %d features (the metric evaluates on every pair compared)"
                     % (fmt, metric, ex, N, dim), base, "precompute_file")
                done = True
                continue
            try:
                D = np.loadtxt(fpath, delimiter="," if fmt == "csv" else " ")
            except Exception as ex:  # noqa
                viol("distance file written by pre_compute_distance(data, 'dist_large.%s', %r) for %d rows cannot be read back: %r"
                     % (fmt, metric, N, ex), dict(base, first_line_of_file=open(fpath).readline()[:200]), "precompute_file:" + fmt)
                done = True
                continue
            ls["file_entries"] += len(F) * N
            # ---- the file holds the metric on every ordered pair, exactly (text round trip included)
            if D.shape != (N, N):
                viol("pre_compute_distance file for %s on %d rows x %d features has shape %r, not %d x %d"
                     % (metric, N, dim, D.shape, N, N), dict(base, file_shape=list(D.shape)), "precompute_file")
                done = True
                continue
            DF = D[F]
            both_nan = np.isnan(DF) & np.isnan(direct)
            bad = np.argwhere(~((DF == direct) | both_nan))
            if len(bad):
                i, j = int(F[bad[0][0]]), int(bad[0][1])
                fv, mv = float(DF[bad[0][0], j]), float(direct[bad[0][0], j])
                viol("pre_compute_distance file (.%s) for %s on %d rows x %d features: entry (%d, %d) is %r, the metric on rows %d and %d is %r "
                     "(%d of the %d entries compared differ)" % (fmt, metric, N, dim, i, j, fv, i, j, mv, len(bad), len(F) * N),
                     dict(base, entry=[i, j], file_value=fv.hex(), metric_value=mv.hex(),
                          row_i=X[i].tolist(), row_j=X[j].tolist(), differing_entries=len(bad), rows_compared=len(F)), "precompute_file")
            if np.isnan(direct).any() or np.isnan(D).any():
                ls["skipped"] += 1
                continue
            done = True
            ls["datasets"] += 1
            ls["rows"][_bucket(N)] = ls["rows"].get(_bucket(N), 0) + 1
            ls["features"][_bucket(dim)] = ls["features"].get(_bucket(dim), 0) + 1
            ls["metrics"][metric] = ls["metrics"].get(metric, 0) + 1
            pct = rng.choice([0.5, 0.6, 0.7])
            rstate = rng.randint(0, 10 ** 6)
            Xtr, Xte, Ytr, Yte, Ltr, Lte = s.split_with_index(X[S], Y[S], pct, random_state=rstate)
            Itr, Ite = S[Ltr], S[Lte]            # row numbers of the file
            if len(set(Ytr.tolist())) < 2:
                ls["skipped"] += 1
                continue
            ls["max_row_index_used"] = max(ls["max_row_index_used"], int(max(Itr.max(), Ite.max())))
            for kname in ("sup", "unsup", "semi", "semi_arbitrary"):
                desc = dict(base, model=kname, split=dict(percentage=pct, random_state=rstate), I_train=Itr.tolist(), I_test=Ite.tolist())
                a_done = False
                try:
                    if kname == "sup":
                        a = SupervisedOPF(distance=metric); a.fit(Xtr, Ytr); pa = a.predict(Xte); a_done = True
                        b = SupervisedOPF(distance=metric, pre_computed_distance=fpath); b.fit(Xtr, Ytr, Itr); pb = b.predict(Xte, Ite)
                        ia = Itr
                    elif kname == "unsup":
                        mk = 3 if quick else rng.choice([3, 5, 8])
                        desc["max_k"] = mk
                        a = UnsupervisedOPF(min_k=1, max_k=mk, distance=metric); a.fit(Xtr, Ytr); pa = a.predict(Xte); a_done = True
                        b = UnsupervisedOPF(min_k=1, max_k=mk, distance=metric, pre_computed_distance=fpath); b.fit(Xtr, Ytr, Itr); pb = b.predict(Xte, Ite)
                        pa, pb = [list(map(int, q)) for q in pa], [list(map(int, q)) for q in pb]
                        ia = Itr
                    elif kname == "semi":
                        # layout the library supports: labeled rows are rows 0..nl-1 of the data file, unlabeled rows follow;
                        # the queries are the last (highest-numbered) rows of the file
                        nl, nu = (N // 2, N // 4) if len(S) == N else (120, 60)
                        q0 = nl + nu if len(S) == N else N - 80
                        desc.update(n_labeled=nl, n_unlabeled=nu, first_query_row=q0)
                        a = SemiSupervisedOPF(distance=metric); a.fit(X[:nl], Y[:nl], X[nl:nl + nu]); pa = a.predict(X[q0:]); a_done = True
                        b = SemiSupervisedOPF(distance=metric, pre_computed_distance=fpath); b.fit(X[:nl], Y[:nl], X[nl:nl + nu], np.arange(nl))
                        pb = b.predict(X[q0:], np.arange(q0, N))
                        ia = np.arange(nl + nu)
                    else:
                        # arbitrary split: the unlabeled rows are identified by their own index array
                        nu = max(1, len(Ite) // 2)
                        a = SemiSupervisedOPF(distance=metric); a.fit(Xtr, Ytr, Xte[:nu]); pa = a.predict(Xte[nu:]); a_done = True
                        b = SemiSupervisedOPF(distance=metric, pre_computed_distance=fpath); b.fit(Xtr, Ytr, Xte[:nu], Itr, Ite[:nu])
                        pb = b.predict(Xte[nu:], Ite[nu:])
                        ia = np.concatenate([Itr, Ite[:nu]])
                except (ZeroDivisionError, IndexError):
                    ls["skipped"] += 1
                    continue
                except Exception as ex:  # noqa
                    if not a_done:
                        ls["skipped"] += 1       # the on-the-fly run itself raises on this input: nothing to compare
                        continue
                    key = "semi_precomputed:arbitrary_split" if kname == "semi_arbitrary" else "precomputed:" + kname
                    viol("%s with %s via .%s on a %d-row x %d-feature file: the on-the-fly run completes, the run through the distance file raised %r"
                         % (kname, metric, fmt, N, dim, ex), desc, key)
                    continue
                if any(n_.cost != n_.cost or n_.density != n_.density for n_ in a.subgraph.nodes):
                    ls["skipped"] += 1
                    continue
                ls["model_runs"] += 1
                stats["runs"] += 1; stats["by_model"][kname] = stats["by_model"].get(kname, 0) + 1; stats["formats"][fmt] += 1
                rep.count_case(("large", kname, metric, fmt, repr(sorted(gen.items())), pct, rstate), True)
                fa, fb_ = c10.forest(a), c10.forest(b)
                msg = None
                if fa != fb_:
                    fields = [k for k in fa if fa[k] != fb_[k]]
                    msg = "forest state differs (fields %r)" % fields
                    if "nodes" in fields:
                        q = next(t for t in range(len(fa["nodes"])) if fa["nodes"][t] != fb_["nodes"][t])
                        na, nb = a.subgraph.nodes[q], b.subgraph.nodes[q]
                        msg += ("; first at node %d (row %d of the file): direct cost %r pred %d label %d cluster %d density %r, "
                                "pre-computed cost %r pred %d label %d cluster %d density %r"
                                % (q, int(ia[q]), float(na.cost), na.pred, na.predicted_label, na.cluster_label, float(na.density),
                                   float(nb.cost), nb.pred, nb.predicted_label, nb.cluster_label, float(nb.density)))
                        desc["first_differing_node"] = dict(node=q, file_row=int(ia[q]), features=X[int(ia[q])].tolist())
                elif list(map(str, pa)) != list(map(str, pb)):
                    q = next(t for t in range(len(pa)) if str(pa[t]) != str(pb[t]))
                    msg = "predictions differ at query %d of %d: direct %r, pre-computed %r" % (q, len(pa), pa[q], pb[q])
                    desc["first_differing_query"] = q
                if msg:
                    key = "semi_precomputed:arbitrary_split" if kname == "semi_arbitrary" else "precomputed:" + kname
                    viol("%s with %s via .%s on a %d-row x %d-feature file (%d training rows, highest row index %d): %s"
                         % (kname, metric, fmt, N, dim, len(ia), int(ia.max()), msg), desc, key)
                if kname == "sup":
                    # get_distances(): the metric on every ordered pair of the model's own training samples
                    G = a.get_distances()
                    want = direct[np.ix_(Mpos[Ltr], Itr)]
                    Gn = a.get_distances(normalize=True)
                    if G.tobytes() != want.tobytes():
                        viol("get_distances() of a model trained on %d samples differs from the metric on some ordered pair (%s)"
                             % (len(Itr), metric), desc, "get_distances")
                    elif want.max() > want.min() and not (Gn.min() == 0.0 and Gn.max() == 1.0 and
                                                           np.array_equal(Gn, (want - want.min()) / (want.max() - want.min()))):
                        viol("get_distances(normalize=True) of a model trained on %d samples is not the min-max rescaling to [0,1] (%s)"
                             % (len(Itr), metric), desc, "get_distances")
        ls["seconds_per_dataset"].append(round(time.time() - tds, 1))
        if quick and time.time() - t0 > 40:
            break           # budget guard of the quick tier (not reached on the unchanged tree)
    ls["seconds"] = round(time.time() - t0, 1)
    ls["started_at_s"] = round(t0 - rep.t0, 1)
    return nviol


# ========================================================================================
# C18: splitter on thousands of rows; converter -> loader -> parser on files of 1024 .. 4097 samples, wide rows, many classes

def c18_dataset(gen):
    """gen = dict(seed, n, nf, K, stream, id_mode) -> dataset dictionary of c18 (samples as (id, label, float32 bit patterns)).
    The first K samples carry the K classes, so every prefix of at least K samples of a `valid` dataset is valid."""
    import c18
    rng = random.Random(gen["seed"])
    n, nf, K = gen["n"], gen["nf"], gen["K"]
    if gen["stream"] == "valid":
        head = list(range(1, K + 1))
        rng.shuffle(head)
        labels = head + [rng.randint(1, K) for _ in range(n - K)]
    else:   # nonsequential: this (1-based) label never occurs, a larger one does
        gap = rng.randint(1, K - 1)
        pool = [c for c in range(1, K + 1) if c != gap]
        labels = [K] + [rng.choice(pool) for _ in range(n - 1)]
    id_mode = gen["id_mode"]
    if id_mode == "seq":
        ids = list(range(n))
    elif id_mode == "random":
        ids = [rng.randint(0, 10 ** 6) for _ in range(n)]
    elif id_mode == "dup":
        ids = [rng.randint(0, 3) for _ in range(n)]
    else:
        ids = [rng.randint(2 ** 31 - 1000, 2 ** 31 - 1) for _ in range(n)]
    samples = [(ids[i], labels[i], [c18.gen_feature_bits(rng) for _ in range(nf)]) for i in range(n)]
    return dict(n_classes=rng.choice([K, K, 0, 99]), nf=nf, samples=samples, stream=gen["stream"], id_mode=id_mode, extra=[], truncate=0)


def c18_prefix(ds, m):
    return dict(ds, samples=ds["samples"][:m])


def c18_split_case(gen):
    """gen = dict(seed, n, nf, mode, K, pct (hex), rstate) -> split case of c18 (X rows, Y, pct, seed)."""
    rng = random.Random(gen["seed"])
    n, nf, mode = gen["n"], gen["nf"], gen["mode"]
    if mode == "dups":
        pool = [[rng.gauss(0, 5) for _ in range(nf)] for _ in range(max(1, n // 3))]
        X = [list(rng.choice(pool)) for _ in range(n)]
    elif mode == "ints":
        X = [[float(rng.randint(0, 3)) for _ in range(nf)] for _ in range(n)]
    else:
        X = [[rng.gauss(0, 5) for _ in range(nf)] for _ in range(n)]
    K = gen["K"]
    Y = list(range(n)) if K == 0 else [rng.randrange(K) for _ in range(n)]      # K = 0: every sample has its own label
    return dict(X=X, Y=Y, pct=float.fromhex(gen["pct"]), seed=gen["rstate"], mode="large-" + mode)


def near_integer_pairs(n0, n1):
    """(n, k/100) whose binary64 product lies a hair below an integer (see c18.NEAR_INTEGER), for n0 <= n <= n1."""
    return [(n_, k_ / 100.0) for n_ in range(n0, n1 + 1) for k_ in range(1, 100)
            if int(n_ * (k_ / 100.0)) != int(round(n_ * (k_ / 100.0), 8))]


def c18_large(rep, seed, tier):
    import c18
    rng = sub_rng(seed, "C18-large")
    quick = tier == "quick"
    t0 = time.time()
    # ---- one split and one file of just over 1024 rows also go through the Coq model (run_c18_split_p / run_c18 under vm_compute,
    # 6-7 s each, evaluated by coqc while the oracles below run); both are judged by the oracles as well
    coq_split = dict(seed=rng.getrandbits(40), n=rng.randint(1025, 1040), nf=1, mode=rng.choice(["distinct", "dups"]), K=rng.choice([0, 3]),
                     pct=float(rng.choice([0.5, 0.29, 0.9, rng.random()])).hex(), rstate=rng.randrange(2 ** 32))
    coq_conv = dict(seed=rng.getrandbits(40), n=rng.randint(1025, 1040), nf=1, K=rng.randint(2, 5), stream="valid", id_mode=rng.choice(["seq", "random", "big"]))
    c = c18_split_case(coq_split)
    r = c18.run_split_impl(c)
    ds = c18_dataset(coq_conv)
    coq_terms = ["run_c18_split_p %s %s %s %s" % (zlist(c18.perm_and_halt(c)[0]), zlist(c18.fenc(c["pct"])), zlistlist(c18.bits_rows(c["X"])), zlist(c["Y"])),
                 "run_c18 %s" % zlist(c18.words_of(ds))]
    coq_expect = [None if "exc" in r else [len(r["index"][0])] + c18.expected_split(r), c18.expected_from_impl(c18.run_pipeline_impl(ds, "Lq"))]
    coq_what = ["split of %d rows (gen %r)" % (coq_split["n"], coq_split), "file of %d samples (gen %r)" % (coq_conv["n"], coq_conv)]
    job = CoqJob("C18L", coq_terms, requires=("Model.RunSM",), chunk=1)
    # ---- splits
    sizes = [(1025, 1200), (2048, 2048), (4097, 4400), (8193, 9000), (16385, 17000)] if quick else [(1025, 1200), (1024, 1024), (2048, 2048), (4097, 4400),
                                                                       (8193, 9000), (16385, 17000), (66000, 70000)] * 2
    sgens = []
    for (a, b) in sizes:
        n = rng.randint(a, b)
        sgens.append(dict(seed=rng.getrandbits(40), n=n, nf=rng.randint(1, 3) if n < 20000 else 1, mode=rng.choice(["distinct", "dups", "ints"]),
                          K=rng.choice([0, 3, 300]), pct=float(rng.choice(c18.PERCENTAGES[2:] + [rng.random()])).hex(),
                          rstate=rng.choice([0, 1, 42, 2 ** 32 - 1, rng.randrange(2 ** 32)])))
    # wide rows (> 64 and > 256 features)
    for nf in ((70, 300) if quick else (65, 129, 300, 1030)):
        sgens.append(dict(seed=rng.getrandbits(40), n=rng.randint(130, 300), nf=nf, mode="distinct", K=5,
                          pct=float(rng.random()).hex(), rstate=rng.randrange(2 ** 32)))
    near = near_integer_pairs(1025, 1100) + near_integer_pairs(4097, 4130)
    for (n_, p_) in (rng.sample(near, min(len(near), 2 if quick else 12))):
        sgens.append(dict(seed=rng.getrandbits(40), n=n_, nf=1, mode="distinct", K=3, pct=float(p_).hex(), rstate=rng.randrange(2 ** 32)))
    sgens.append(coq_split)
    sstats = dict(cases=0, n={}, features={}, violations=0)
    seen = set()
    for gen in sgens:
        c = c18_split_case(gen)
        r = c18.run_split_impl(c)
        n = gen["n"]
        h = int(n * c["pct"])
        sstats["cases"] += 1
        sstats["n"][_bucket(n)] = sstats["n"].get(_bucket(n), 0) + 1
        sstats["features"][_bucket(gen["nf"])] = sstats["features"].get(_bucket(gen["nf"]), 0) + 1
        rep.count_case(("large-split", repr(sorted(gen.items()))), 0 < h < n)
        v = c18.split_oracle(c, r)
        if not v:
            continue
        sstats["violations"] += 1
        if v[0] in seen:
            continue
        seen.add(v[0])

        def fails(m, c=c, key=v[0]):
            cm = dict(c, X=c["X"][:m], Y=c["Y"][:m])
            w = c18.split_oracle(cm, c18.run_split_impl(cm))
            return w is not None and w[0] == key
        m = smallest_failing_prefix(fails, 1, n)
        small = dict(c, X=c["X"][:m], Y=c["Y"][:m])
        v2 = c18.split_oracle(small, c18.run_split_impl(small)) or v
        if m <= 120 and gen["nf"] <= 4:
            replay = dict(kind="split", X=[[float(x).hex() for x in row] for row in small["X"]], Y=small["Y"],
                          percentage=float(small["pct"]).hex(), seed=small["seed"])
        else:
            replay = dict(kind="large-split", gen=gen, n_prefix=m, rebuild="large_b.c18_split_case(gen), first n_prefix rows")
        rep.violation("%s breaks C18 on %d samples x %d features (smallest failing row prefix of a %d-sample input): %s"
                      % (v2[0], m, gen["nf"], n, v2[1]), replay, key=v[0])
    # ---- converter -> loader -> parser -> Subgraph on large files
    if quick:
        shapes = [(1024, (1, 3), 5), (1025, (1, 3), 5), (2048, (0, 2), 3), (2500, (1, 2), 1100), (4097, (1, 2), 5), (8193, (1, 1), 70),
                  (rng.randint(70, 140), (65, 90), 5), (rng.randint(20, 40), (257, 300), 4), (rng.randint(600, 900), (1, 2), rng.randint(257, 300))]
        nonseq = [(rng.randint(1025, 1300), (1, 2), rng.randint(257, 300))]
    else:
        shapes = [(n_, (1, 4), rng.choice([2, 5, 70])) for n_ in (1023, 1024, 1025, 2047, 2048, 2049, 2500, 3072, 4096, 4097, 5000, 8193, 10000, 16385)]
        shapes += [(rng.randint(70, 300), (65, 90), 5), (rng.randint(130, 300), (129, 140), 9), (rng.randint(20, 80), (257, 300), 4),
                   (rng.randint(20, 40), (1025, 1100), 3), (2500, (1, 2), 1100), (5000, (1, 1), 4100), (rng.randint(600, 900), (1, 2), rng.randint(257, 300))]
        nonseq = [(rng.randint(1025, 1300), (1, 2), rng.randint(257, 300)), (rng.randint(4097, 4500), (1, 1), 1100), (2048, (1, 2), 3)]
    cgens = [dict(seed=rng.getrandbits(40), n=n_, nf=rng.randint(*f_), K=K_, stream="valid", id_mode=rng.choice(["seq", "seq", "random", "dup", "big"]))
             for (n_, f_, K_) in shapes]
    cgens += [dict(seed=rng.getrandbits(40), n=n_, nf=rng.randint(*f_), K=K_, stream="nonsequential", id_mode="seq") for (n_, f_, K_) in nonseq]
    cgens.append(coq_conv)
    cstats = dict(cases=0, n_samples={}, n_features={}, classes={}, feature_words=0, violations=0)
    seen = set()
    for k, gen in enumerate(cgens):
        ds = c18_dataset(gen)
        res = c18.run_pipeline_impl(ds, "L%d" % k)
        cstats["cases"] += 1
        cstats["n_samples"][_bucket(gen["n"])] = cstats["n_samples"].get(_bucket(gen["n"]), 0) + 1
        cstats["n_features"][_bucket(gen["nf"])] = cstats["n_features"].get(_bucket(gen["nf"]), 0) + 1
        cstats["classes"][_bucket(gen["K"])] = cstats["classes"].get(_bucket(gen["K"]), 0) + 1
        cstats["feature_words"] += gen["n"] * gen["nf"]
        rep.count_case(("large-convert", repr(sorted(gen.items()))), True)
        v = c18.convert_oracle(ds, res)
        if not v:
            continue
        cstats["violations"] += 1
        if v[0] in seen:
            continue
        seen.add(v[0])

        def fails(m, ds=ds, key=v[0]):
            dm = c18_prefix(ds, m)
            ys = [l - 1 for (_, l, _) in dm["samples"]]
            if dm["stream"] == "valid" and set(ys) != set(range(max(ys) + 1)):
                return False
            w = c18.convert_oracle(dm, c18.run_pipeline_impl(dm, "shrink"))
            return w is not None and w[0] == key
        m = smallest_failing_prefix(fails, 2, gen["n"])
        small = c18_prefix(ds, m)
        v2 = c18.convert_oracle(small, c18.run_pipeline_impl(small, "shrunk")) or v
        if m * (gen["nf"] + 2) <= 400:
            replay = dict(kind="convert", n_classes=small["n_classes"], nf=small["nf"], stream=small["stream"],
                          samples=[[i, l, list(fs)] for (i, l, fs) in small["samples"]])
        else:
            replay = dict(kind="large-convert", gen=gen, n_prefix=m, rebuild="large_b.c18_dataset(gen), first n_prefix samples",
                          last_samples=[[i, l, list(fs)[:8]] for (i, l, fs) in small["samples"][-2:]])
        rep.violation("%s breaks C18 on a file of %d samples x %d features, %d classes (smallest failing prefix of a %d-sample file): %s"
                      % (v2[0], m, gen["nf"], gen["K"], gen["n"], v2[1][:600]), replay, key=v[0])
    name = "correspondence Converter/Stream model vs implementation on inputs of more than 1024 samples (one file, one split; vm_compute)"
    dis, first = 0, None
    try:
        got = job.result()
        for w, g_, e_ in zip(coq_what, got, coq_expect):
            if g_ != e_:
                dis += 1
                k = next((t for t in range(min(len(g_), len(e_ or []))) if g_[t] != e_[t]), min(len(g_), len(e_ or [])))
                first = first or "%s: model and implementation differ from output word %d on (model %r / implementation %r)" % (
                    w, k, g_[k:k + 8], (e_ or ["exc"])[k:k + 8])
        rep.obligation(name, dis == 0, "" if dis == 0 else "%d disagreements; first: %s" % (dis, first))
    except RuntimeError as ex:
        rep.obligation(name, False, str(ex))
    rep.corr["large_coq"] = dict(cases=len(coq_terms), disagreements=dis, inputs=coq_what)
    rep.corr["large_split_merge"] = dict(cases=sstats["cases"], disagreements=sstats["violations"], distribution=sstats, judged_by="split_oracle")
    rep.corr["large_convert_load_parse"] = dict(cases=cstats["cases"], disagreements=cstats["violations"], distribution=cstats,
                                                formats_per_case=3, judged_by="convert_oracle")
    rep.extra["large_seconds"] = round(time.time() - t0, 1)
    rep.extra["large_started_at_s"] = round(t0 - rep.t0, 1)
    return sstats["violations"] + cstats["violations"]


def c18_replay(r):
    """Replay of the large kinds; returns (key, message) or None."""
    import c18
    if r["kind"] == "large-split":
        c = c18_split_case(r["gen"])
        c = dict(c, X=c["X"][:r["n_prefix"]], Y=c["Y"][:r["n_prefix"]])
        return c18.split_oracle(c, c18.run_split_impl(c))
    ds = c18_prefix(c18_dataset(r["gen"]), r["n_prefix"])
    return c18.convert_oracle(ds, c18.run_pipeline_impl(ds, "replay"))


# ========================================================================================
# C20: measures on long vectors / many classes, normalize on tall and wide arrays

def fast_definitions(labels, preds):
    """c20.definitions() through one pass over the pair counts (the original is O(N K^2)); same dictionary."""
    K = max(labels) + 1
    N = len(labels)
    pc = Counter(zip(labels, preds))
    n, FP, FN, TP = [0] * K, [0] * K, [0] * K, [0] * K
    cm = [[0] * K for _ in range(K)]
    groups = {}
    for (l, p), c in pc.items():
        n[l] += c
        cm[l][p] += c
        groups.setdefault(p, set()).add(l)
        if l == p:
            TP[l] += c
        else:
            FP[p] += c
            FN[l] += c
    s = Fraction(0)
    for c in range(K):
        if N - n[c] > 0:
            s += Fraction(FP[c], N - n[c])
        if n[c] > 0:
            s += Fraction(FN[c], n[c])
    acc = 1 - s / (2 * K)
    pur = Fraction(sum(max(cm[a][b] for a in range(K)) for b in range(K)), N)
    return dict(K=K, N=N, n=n, FP=FP, FN=FN, TP=TP, acc=acc, cm=cm, pure=all(len(v) == 1 for v in groups.values()), pur=pur,
                all_correct=all(l == p for (l, p) in pc))


MEASURE_KINDS = ["mostly_correct", "all_correct", "one_error_tail", "errors_in_tail", "pure_groups", "merged_groups", "random", "all_wrong"]
LAYOUTS = ["shuffled", "shuffled", "sorted", "rare_tail"]


def c20_vectors(gen):
    """gen = dict(seed, n, K, kind, layout) -> (labels, preds), every class 0..K-1 present, predictions in range."""
    rng = random.Random(gen["seed"])
    n, K, kind, layout = gen["n"], gen["K"], gen["kind"], gen["layout"]
    if layout == "rare_tail" and K >= 2:
        # the last class has a single sample, the last row of the file
        labels = list(range(K - 1)) + [rng.randrange(K - 1) for _ in range(n - K)]
        rng.shuffle(labels)
        labels.append(K - 1)
    else:
        labels = list(range(K)) + [rng.randrange(K) for _ in range(n - K)]
        if layout == "sorted":
            labels.sort()       # a file sorted by class: the tail rows all belong to the last classes
        else:
            rng.shuffle(labels)
    if kind == "all_correct" or K == 1:
        preds = list(labels)
    elif kind == "mostly_correct":
        preds = [l if rng.random() < 0.85 else rng.randrange(K) for l in labels]
    elif kind == "one_error_tail":
        preds = list(labels)
        preds[-1] = (labels[-1] + 1 + rng.randrange(K - 1)) % K
    elif kind == "errors_in_tail":
        preds = list(labels)
        for i in range(n - max(1, n // 50), n):
            preds[i] = rng.randrange(K)
    elif kind == "pure_groups":
        perm = list(range(K)); rng.shuffle(perm)
        preds = [perm[l] for l in labels]
    elif kind == "merged_groups":
        f = [rng.randrange(max(1, K - 1)) for _ in range(K)]
        preds = [f[l] for l in labels]
    elif kind == "random":
        preds = [rng.randrange(K) for _ in labels]
    elif kind == "all_wrong":
        preds = [(l + 1 + rng.randrange(K - 1)) % K for l in labels]
    else:
        raise AssertionError(kind)
    return labels, preds


NORM_KINDS = ["uniform", "sorted", "sorted_desc", "tail_outlier", "const_but_last", "const_but_one", "two_regimes", "drift",
              "ints", "shifted", "two_values", "tiny", "huge", "const"]


def c20_matrix(gen):
    """gen = dict(seed, rows, cols) -> (array rows x cols, column kinds)."""
    rs = np.random.RandomState(gen["seed"])
    r, c = gen["rows"], gen["cols"]
    M = np.empty((r, c))
    kinds = []
    for j in range(c):
        k = NORM_KINDS[j % len(NORM_KINDS)] if c >= len(NORM_KINDS) and j < len(NORM_KINDS) else NORM_KINDS[rs.randint(len(NORM_KINDS))]
        if k == "uniform":
            col = rs.uniform(-10, 10, r)
        elif k == "sorted":
            col = np.sort(rs.normal(0, 3, r))               # a file sorted by this column
        elif k == "sorted_desc":
            col = np.sort(rs.uniform(0, 100, r))[::-1]
        elif k == "tail_outlier":
            col = rs.normal(0, 1, r)
            col[r - rs.randint(1, 6):] += 10.0 ** rs.randint(2, 5)      # outliers in the last rows
        elif k == "const_but_last":
            col = np.full(r, rs.uniform(-10, 10))
            col[-1] += rs.choice([-1, 1]) * rs.uniform(1, 10)
        elif k == "const_but_one":
            col = np.full(r, rs.uniform(-10, 10))
            col[rs.randint(r)] += rs.choice([-1, 1]) * rs.uniform(1, 10)
        elif k == "two_regimes":
            cut = rs.randint(1, r)                           # level and spread change at an arbitrary row
            col = np.concatenate([rs.normal(0, 1, cut), rs.normal(rs.uniform(5, 50), rs.uniform(0.1, 5), r - cut)])
        elif k == "drift":
            col = np.linspace(0, rs.uniform(1, 100), r) + rs.normal(0, 1, r)
        elif k == "ints":
            col = rs.randint(-5, 6, r).astype(float)
        elif k == "shifted":
            col = rs.uniform(100, 1000) + rs.uniform(-1, 1, r)
        elif k == "two_values":
            a, b = rs.uniform(-10, 10, 2)
            col = np.where(rs.uniform(0, 1, r) < 0.5, a, b)
        elif k == "tiny":
            col = 10.0 ** rs.randint(-12, -6) * rs.uniform(1, 9, r)
        elif k == "huge":
            col = 10.0 ** rs.randint(6, 13) * rs.uniform(-9, 9, r)
        else:
            col = np.full(r, rs.choice([0.0, 1.0, 0.1, -3.5]))
        M[:, j] = col
        kinds.append(k)
    return M, kinds


def normalize_reference(M, out, tol, same_float):
    """(v - mean) / std per non-constant column with math.fsum moments; returns (message, details) of the first entry that is
    off by more than tol (relative, absolute below 1), or None; also the largest deviation seen."""
    r, c = M.shape
    if out.shape != M.shape:
        return "normalize changed the shape: %r -> %r" % (M.shape, out.shape), None, 0.0
    worst = 0.0
    for j in range(c):
        col = M[:, j].tolist()
        if min(col) == max(col):
            continue                     # constant columns are outside the property
        mean = math.fsum(col) / r
        dev = [v - mean for v in col]
        std = math.sqrt(math.fsum(x * x for x in dev) / r)
        got = out[:, j].tolist()
        for i in range(r):
            want = dev[i] / std
            g_ = got[i]
            if g_ == g_ and not math.isinf(g_):
                worst = max(worst, abs(g_ - want) / max(1.0, abs(want)))
            if not same_float(g_, want, tol):
                return ("column %d row %d of a %d x %d array: %r is not (v - mean)/std = %r (v = %r, column mean %r, column std %r)"
                        % (j, i, r, c, g_, want, col[i], mean, std)), dict(column=j, row=i, got=g_, want=want, value=col[i], mean=mean, std=std), worst
        m = math.fsum(got) / r
        ss = math.fsum(v * v for v in got)
        if abs(m) > tol * 10:
            return "column %d of a %d x %d array: normalised mean is %r, not 0" % (j, r, c, m), dict(column=j), worst
        if abs(ss - r) > tol * 10 * r:
            return "column %d of a %d x %d array: sum of squares of the normalised column is %r, not %d" % (j, r, c, ss, r), dict(column=j), worst
    return None, None, worst


def _run_normalize(M):
    import warnings
    import opfython.math.general as g
    with warnings.catch_warnings():
        warnings.simplefilter("ignore")
        with np.errstate(all="ignore"):
            try:
                return "ok", np.asarray(g.normalize(M.copy()), dtype=float)
            except Exception as ex:  # noqa
                return "exc", type(ex).__name__


def c20_large(rep, seed, tier):
    import c20
    rng = sub_rng(seed, "C20-large")
    quick = tier == "quick"
    t0 = time.time()
    # the one-pass definitions are the definitions of c20 (checked on small vectors at every run)
    for _ in range(40):
        l, p = c20.gen_measure_case(rng, rng.choice(c20.IN_DOMAIN_KINDS), 40)
        assert fast_definitions(l, p) == c20.definitions(l, p), ("large_b.fast_definitions differs from c20.definitions", l, p)
    # ---- measures
    lengths = [(1025, 1300), (4097, 5000), (16385, 17000), (70000, 70000)] if quick else [(1025, 1300), (2049, 2300), (4097, 5000), (16385, 17000),
                                                                          (66000, 70000), (140000, 140000)]
    class_ranges = [(2, 6), (65, 100), (257, 300)] if quick else [(2, 6), (65, 100), (129, 200), (257, 300), (1025, 1100)]
    combos = [(ln, kr) for ln in lengths for kr in class_ranges]
    mgens = []
    for ci, ((a, b), (k0, k1)) in enumerate(combos):
        for rep_ in range(1 if quick else 3):
            K = rng.randint(k0, k1)
            mgens.append(dict(seed=rng.getrandbits(40), n=max(rng.randint(a, b), K + 1), K=K,
                              kind=MEASURE_KINDS[(ci + rep_ * 3 + seed) % len(MEASURE_KINDS)], layout=rng.choice(LAYOUTS)))
    # the exactness clauses at size: accuracy 1 / purity 1 exactly on long vectors, a single error in the last position
    for kind in ("all_correct", "one_error_tail", "pure_groups"):
        K = rng.choice([3, 70, 260])
        mgens.append(dict(seed=rng.getrandbits(40), n=rng.randint(1025, 9000), K=K, kind=kind, layout=rng.choice(LAYOUTS)))
    # three of the long vector pairs and one single-column array of just over 1024 rows also go through the Coq model (run_c20: ~1 s
    # each; run_normalize under PrimFloat: ~5 s), evaluated by coqc while the oracles below run
    cq = [g_ for g_ in mgens if g_["n"] <= 5000 and g_["K"] <= 100][:3]
    cq_pairs = [c20_vectors(g_) for g_ in cq]
    mjob = CoqJob("C20L", ["run_c20 %s %s" % (zlist(l), zlist(p)) for l, p in cq_pairs], requires=("Model.RunSM",), chunk=1)
    coq_norm = dict(seed=rng.getrandbits(31), rows=rng.randint(1025, 1040), cols=1)
    while c20_matrix(coq_norm)[1][0] == "const":
        coq_norm["seed"] += 1
    njob = CoqJob("C20Ln", ["run_normalize [%s]" % "; ".join("[%s]" % zlist(c20.fenc(v)) for v in c20_matrix(coq_norm)[0][:, 0].tolist())],
                  requires=("Model.RunSM",), typ="list (list Z)")
    mstats = dict(cases=0, lengths={}, classes={}, kinds={}, layouts={}, violations=0, skipped_out_of_domain=0)
    seen = set()
    for gen in mgens:
        l, p = c20_vectors(gen)
        if not c20.in_domain(l, p):
            mstats["skipped_out_of_domain"] += 1
            continue
        im = c20.run_impl(l, p)
        mstats["cases"] += 1
        for nm, v in (("lengths", _bucket(gen["n"])), ("classes", _bucket(gen["K"])), ("kinds", gen["kind"]), ("layouts", gen["layout"])):
            mstats[nm][v] = mstats[nm].get(v, 0) + 1
        rep.count_case(("large-measures", repr(sorted(gen.items()))), gen["K"] >= 2 and gen["kind"] not in ("all_correct", "all_wrong"))
        for fn, msg in c20.oracle(l, p, im, fast_definitions(l, p)):
            mstats["violations"] += 1
            if fn in seen:
                continue
            seen.add(fn)

            def fails(m, l=l, p=p, fn=fn):
                lm, pm = l[:m], p[:m]
                if not c20.in_domain(lm, pm):
                    return False
                return any(f == fn for f, _ in c20.oracle(lm, pm, c20.run_impl(lm, pm), fast_definitions(lm, pm)))
            m = smallest_failing_prefix(fails, 1, len(l))
            l2, p2 = l[:m], p[:m]
            msgs = [mm for f, mm in c20.oracle(l2, p2, c20.run_impl(l2, p2), fast_definitions(l2, p2)) if f == fn]
            if m <= 400:
                replay = dict(kind="measures", function=fn, labels=l2, preds=p2)
            else:
                replay = dict(kind="large-measures", function=fn, gen=gen, n_prefix=m, rebuild="large_b.c20_vectors(gen), first n_prefix entries",
                              last_pairs=list(zip(l2[-5:], p2[-5:])))
            rep.violation("general.%s breaks C20 on %d entries, %d classes (smallest failing prefix of a %d-entry %s/%s vector pair): %s"
                          % (fn, m, max(l2) + 1, len(l), gen["kind"], gen["layout"], (msgs[0] if msgs else msg)[:600]), replay, key="general." + fn)
    name = "correspondence Measures model vs opfython.math.general on vectors of more than 1024 entries (vm_compute)"
    dis, first = 0, None
    try:
        got = mjob.result()
        for g_, (l, p), out in zip(cq, cq_pairs, got):
            bad = c20.compare(c20.parse_model(out), c20.run_impl(l, p))
            if bad:
                dis += 1
                first = first or "gen %r: %s" % (g_, "; ".join(b[:300] for b in bad))
        rep.obligation(name, dis == 0, "" if dis == 0 else "%d disagreements; first: %s" % (dis, first))
    except RuntimeError as ex:
        rep.obligation(name, False, str(ex))
    rep.corr["large_measures_coq"] = dict(cases=len(cq), disagreements=dis, inputs=cq)
    rep.corr["large_measures"] = dict(cases=mstats["cases"], disagreements=mstats["violations"], distribution=mstats,
                                      judged_by="c20.oracle with the exact rational definitions (one pass over the pair counts)")
    # ---- normalize
    nshapes = [(1025, (3, 6)), (1500, (3, 6)), (2048, (3, 6)), (2500, (3, 6)), (5000, (3, 6)), (rng.randint(1026, 1100), (3, 6)), (4097, (3, 6)),
               (10000, (3, 6)), (rng.randint(1030, 1400), (65, 90)), (rng.randint(1030, 1100), (257, 300))]
    if not quick:
        nshapes = nshapes * 2 + [(rng.randint(1026, 1100), (3, 6)), (4097, (3, 6)), (10000, (14, 20)), (20000, (3, 6)), (70000, (2, 3)),
                                 (rng.randint(1030, 1400), (257, 300)), (rng.randint(70, 300), (1025, 1100))]
    ngens = [dict(seed=rng.getrandbits(31), rows=r_, cols=rng.randint(*c_)) for (r_, c_) in nshapes]
    ngens.append(coq_norm)
    nstats = dict(cases=0, rows={}, cols={}, column_kinds={}, violations=0, raised=0, max_deviation=0.0)
    first = True
    for gen in ngens:
        M, kinds = c20_matrix(gen)
        st, out = _run_normalize(M)
        nstats["cases"] += 1
        nstats["rows"][_bucket(gen["rows"])] = nstats["rows"].get(_bucket(gen["rows"]), 0) + 1
        nstats["cols"][_bucket(gen["cols"])] = nstats["cols"].get(_bucket(gen["cols"]), 0) + 1
        for k in kinds:
            nstats["column_kinds"][k] = nstats["column_kinds"].get(k, 0) + 1
        rep.count_case(("large-normalize", repr(sorted(gen.items()))), True)
        if st != "ok":
            msg, det = "normalize raised %s on a %d x %d array" % (out, gen["rows"], gen["cols"]), None
            nstats["raised"] += 1
        else:
            msg, det, worst = normalize_reference(M, out, c20.NTOL, c20.same_float)
            nstats["max_deviation"] = max(nstats["max_deviation"], worst)
        if not msg:
            continue
        nstats["violations"] += 1
        if not first:
            continue
        first = False
        m = gen["rows"]
        if st == "ok":
            def fails(m_, M=M):
                s2, o2 = _run_normalize(M[:m_])
                return s2 == "ok" and normalize_reference(M[:m_], o2, c20.NTOL, c20.same_float)[0] is not None
            m = smallest_failing_prefix(fails, 2, gen["rows"])
            s2, o2 = _run_normalize(M[:m])
            msg, det, _ = normalize_reference(M[:m], o2, c20.NTOL, c20.same_float)
        replay = dict(kind="large-normalize", gen=gen, n_prefix=m, rebuild="large_b.c20_matrix(gen)[0][:n_prefix]", failing=det, column_kinds=kinds)
        if det and "row" in det:
            replay["failing_column_head_tail"] = dict(head=M[:3, det["column"]].tolist(), tail=M[max(0, m - 3):m, det["column"]].tolist())
        rep.violation("general.normalize breaks C20 (smallest failing row prefix %d of a %d x %d array): %s" % (m, gen["rows"], gen["cols"], msg),
                      replay, key="general.normalize")
    name = "correspondence normalize model under binary64 (vm_compute, PrimFloat) vs general.normalize on an array of more than 1024 rows (rel. 1e-9)"
    try:
        M = c20_matrix(coq_norm)[0]
        st, out = _run_normalize(M)
        got = njob.result()[0]
        ok = st == "ok" and len(got) == len(M)
        k = None
        if ok:
            vals = [c20.fdec(g_[0:4]) for g_ in got]
            k = next((t for t in range(len(vals)) if not c20.same_float(vals[t], float(out[t, 0]), c20.NTOL)), None)
        rep.obligation(name, ok and k is None, "" if (ok and k is None) else "gen %r: %s" % (
            coq_norm, ("implementation answered %s" % st) if not ok else "row %d: model %r, implementation %r" % (k, vals[k], float(out[k, 0]))))
        rep.corr["large_normalize_coq"] = dict(cases=1, disagreements=0 if (ok and k is None) else 1, inputs=[coq_norm])
    except RuntimeError as ex:
        rep.obligation(name, False, str(ex))
    rep.corr["large_normalize"] = dict(cases=nstats["cases"], disagreements=nstats["violations"], distribution=nstats,
                                       judged_by="(v - mean)/std with math.fsum moments, relative 1e-9")
    rep.extra["large_seconds"] = round(time.time() - t0, 1)
    rep.extra["large_started_at_s"] = round(t0 - rep.t0, 1)
    return mstats["violations"] + nstats["violations"]


def c20_replay(r):
    """Replay of the large kinds of C20; returns a list of messages."""
    import c20
    if r["kind"] == "large-normalize":
        M = c20_matrix(r["gen"])[0][:r["n_prefix"]]
        st, out = _run_normalize(M)
        if st != "ok":
            return ["normalize raised %s" % out]
        msg = normalize_reference(M, out, c20.NTOL, c20.same_float)[0]
        return [msg] if msg else []
    l, p = c20_vectors(r["gen"])
    l, p = l[:r["n_prefix"]], p[:r["n_prefix"]]
    return ["general.%s: %s" % (f, m[:600]) for f, m in c20.oracle(l, p, c20.run_impl(l, p), fast_definitions(l, p))
            if f == r.get("function", f)]
