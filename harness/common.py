"""Common machinery for every property check (see DESIGN.md section 2).

A check (`bin/check Cxx --tier T`) does, in this order:
  1. regenerate  - translator over /repo's working tree -> coq/theories/Gen/*_gen.v
  2. re-prove    - `bin/build -k` (full .vo), then `Print Assumptions` of every theorem of Props/Cxx.v
  3. correspond  - run the implementation (imported from /repo) and the Coq model
                   (vm_compute inside coqc on a generated cases file) on the same cases and diff
  4. oracle      - evaluate the property itself on the implementation's own outputs
  5. verdict + evidence/<id>.json
"""
import hashlib
import json
import os
import random
import re
import struct
import subprocess
import sys
import time

VERIF = os.path.dirname(os.path.dirname(os.path.abspath(__file__)))
REPO = os.environ.get("VERIF_REPO", "/repo")
COQ = os.path.join(VERIF, "coq")
BUILD = os.path.join(VERIF, "build")
os.makedirs(BUILD, exist_ok=True)

ALLOWED_AXIOMS = {
    # declared by Coq's standard library (Reals, FunctionalExtensionality, Classical)
    "ClassicalDedekindReals.sig_forall_dec",
    "ClassicalDedekindReals.sig_not_dec",
    "FunctionalExtensionality.functional_extensionality_dep",
    "functional_extensionality_dep",
    "sig_forall_dec",
    "sig_not_dec",
    "Classical_Prop.classic",
    "classic",
    # declared by Coq's standard library (Floats/FloatAxioms.v): the specification of the primitive binary64
    # comparisons and of the decoding Prim2SF, used by Proofs/FloatOrder.v (Props/C01_float_order.v, C17_float.v).
    # The primitive types/operations themselves (PrimFloat.float, PrimFloat.ltb, PrimFloat.eqb, PrimInt63.int, ...)
    # are listed by Print Assumptions too and are accepted by prefix in standard_proof_phase.
    "FloatAxioms.ltb_spec",
    "FloatAxioms.eqb_spec",
    "FloatAxioms.SF2Prim_Prim2SF",
    "FloatAxioms.Prim2SF_valid",
}


def setup_impl_env():
    """Make `import opfython` resolve to /repo's working tree and silence its logging."""
    if REPO not in sys.path:
        sys.path.insert(0, REPO)
    os.environ.setdefault("NUMBA_CACHE_DIR", os.path.join(VERIF, ".cache", "numba"))
    os.environ.setdefault("PYTHONHASHSEED", "0")
    import logging
    import warnings
    logging.disable(logging.CRITICAL)
    warnings.simplefilter("ignore")      # numpy RuntimeWarnings of the library (0/0 in nansum paths etc.) are not check output
    cwd = os.path.join(BUILD, "cwd")
    os.makedirs(cwd, exist_ok=True)
    os.chdir(cwd)  # opfython writes opfython.log into the cwd
    import opfython  # noqa
    assert os.path.abspath(opfython.__file__).startswith(os.path.abspath(REPO)), opfython.__file__


# ----------------------------------------------------------------------------------------
# float -> Z order encodings

def enc(x):
    """Order isomorphism from non-NaN doubles to integers (-0.0 and 0.0 both -> 0)."""
    x = float(x)
    if x != x:
        raise ValueError("NaN has no order encoding")
    b = struct.unpack(">Q", struct.pack(">d", x))[0]
    return b if b < (1 << 63) else -(b - (1 << 63))


def dec(z):
    b = z if z >= 0 else ((-z) + (1 << 63))
    return struct.unpack(">d", struct.pack(">Q", b))[0]


class Ranker:
    """Dense rank encoding of the finite set of float values occurring in a case.

    rank is an order isomorphism from that set onto 0..m-1, so a model that uses the
    values only through comparisons / max / min computes on ranks exactly what the code
    computes on floats."""

    def __init__(self, values):
        vs = sorted(set(enc(v) for v in values))
        self.to_rank = {v: i for i, v in enumerate(vs)}
        self.from_rank = [dec(v) for v in vs]

    def r(self, x):
        return self.to_rank[enc(x)]

    def back(self, i):
        return self.from_rank[i]


# ----------------------------------------------------------------------------------------
# Coq side

def sh(cmd, timeout=None, cwd=None, env=None):
    p = subprocess.run(cmd, shell=isinstance(cmd, str), cwd=cwd, env=env, timeout=timeout,
                       stdout=subprocess.PIPE, stderr=subprocess.STDOUT, text=True)
    return p.returncode, p.stdout


_build_cache = {}


def regenerate():
    """Run the translator; returns (ok, message). Writes Gen files only when their text changes."""
    tr = os.path.join(VERIF, "translator", "py2coq.py")
    if not os.path.exists(tr):
        return True, "no translator yet"
    rc, out = sh([sys.executable, tr, "--repo", REPO, "--out", os.path.join(COQ, "theories", "Gen")], timeout=300)
    return rc == 0, out[-4000:]


def coq_build():
    """Incremental full build with -k. Returns (rc, log)."""
    if "build" in _build_cache:
        return _build_cache["build"]
    t0 = time.time()
    rc, out = sh([os.path.join(VERIF, "bin", "build"), "-k"], timeout=3300)
    out = "\n".join(l for l in out.splitlines() if "conda.cli.condarc" not in l)
    _build_cache["build"] = (rc, out, time.time() - t0)
    return _build_cache["build"]


def stale_after_build():
    """theories/<path> (no extension) that `make` would still compile: files that failed, and files skipped by
    `make -k` because a dependency failed.  Their old .vo (if any) is left on disk by make, so the mtime test
    of vo_ok alone would accept a stale .vo whose regenerated dependency changed."""
    if "stale" not in _build_cache:
        try:
            rc, out = sh(["make", "-n", "-k"], cwd=COQ, timeout=300)
            _build_cache["stale"] = set(re.findall(r"COQC (theories/\S+)\.v\b", out))
        except Exception:  # noqa
            _build_cache["stale"] = set()
    return _build_cache["stale"]


def vo_ok(relpath):
    """True iff theories/<relpath>.vo exists, is newer than its source and make considers it up to date."""
    v = os.path.join(COQ, "theories", relpath + ".v")
    vo = os.path.join(COQ, "theories", relpath + ".vo")
    return (os.path.exists(vo) and os.path.getmtime(vo) >= os.path.getmtime(v)
            and ("theories/" + relpath) not in stale_after_build())


def failed_files(build_log):
    """Names of .v files whose compilation failed, as reported by make -k."""
    bad = []
    for m in re.finditer(r"\*\*\* \[[^\]]*?(theories/[^\s:\]]+)\.vo", build_log):
        bad.append(m.group(1))
    for m in re.finditer(r'File "\./(theories/[^"]+)\.v", line (\d+)', build_log):
        bad.append(m.group(1))
    return sorted(set(bad))


def prop_files(pid):
    """Props/<pid>.v and Props/<pid>_*.v (a property's theorems may be split over several files)."""
    d = os.path.join(COQ, "theories", "Props")
    out = []
    for fn in sorted(os.listdir(d)):
        if fn == pid + ".v" or (fn.startswith(pid + "_") and fn.endswith(".v")):
            out.append(fn[:-2])
    return out


def theorems_of(pid):
    """Theorem names stated in Props/<pid>.v and Props/<pid>_*.v (the obligations of the property)."""
    names = []
    for f in prop_files(pid):
        src = open(os.path.join(COQ, "theories", "Props", f + ".v")).read()
        src = re.sub(r"\(\*.*?\*\)", " ", src, flags=re.S)
        if f in ("C08_basic", "C08_triangle"):
            continue   # C08.v re-states these as conjunctions
        names += re.findall(r"^\s*Theorem\s+([A-Za-z0-9_']+)", src, flags=re.M)
    return names


def print_assumptions(pid, names):
    """Compile a throw-away file printing the assumptions of each theorem.

    Returns dict name -> list of axiom names ([] = closed under the global context),
    or None for the whole dict if the property file does not load."""
    if not names:
        return {}
    d = os.path.join(BUILD, "assume")
    os.makedirs(d, exist_ok=True)
    f = os.path.join(d, "Assume_%s.v" % pid)
    with open(f, "w") as fh:
        for pf in prop_files(pid):
            if vo_ok("Props/" + pf):
                fh.write("From OPF Require Import Props.%s.\n" % pf)
        for n in names:
            fh.write('Goal True. idtac "@@BEGIN %s". Abort.\nPrint Assumptions %s.\n' % (n, n))
        fh.write('Goal True. idtac "@@END". Abort.\n')
    rc, out = sh(["coqc", "-Q", os.path.join(COQ, "theories"), "OPF", f], timeout=600)
    if rc != 0:
        return None
    res = {}
    blocks = re.split(r"@@BEGIN (\S+)", out)
    for i in range(1, len(blocks), 2):
        name = blocks[i]
        body = blocks[i + 1].split("@@END")[0]
        if "Closed under the global context" in body:
            res[name] = []
        else:
            axs = re.findall(r"^([A-Za-z_][A-Za-z0-9_.']*)\s*:", body, flags=re.M)
            res[name] = [a for a in axs if a != "Axioms"]   # "Axioms:" is the header line of the listing
    return res


def forbidden_tokens():
    """grep the development for anything that would declare an axiom or disable a check."""
    pat = r"\b(Admitted|admit|Axiom|Axioms|Parameter|Parameters|Conjecture|Abort All|Unset Guard Checking|Unset Positivity Checking|Unset Universe Checking|bypass_check|Admit Obligations|give_up)\b|type-in-type|impredicative-set|native_compute"
    hits = []
    root = os.path.join(COQ, "theories")
    for dp, _, fs in os.walk(root):
        for fn in fs:
            if not fn.endswith(".v"):
                continue
            p = os.path.join(dp, fn)
            txt = open(p).read()
            # strip comments (non-nested approximation good enough for keyword search)
            txt_nc = re.sub(r"\(\*.*?\*\)", " ", txt, flags=re.S)
            for m in re.finditer(pat, txt_nc):
                hits.append("%s: %s" % (os.path.relpath(p, root), m.group(0)))
    return hits


def zlit(v):
    v = int(v)
    return "(%d)" % v if v < 0 else "%d" % v


def flit(x):
    """binary64 literal for Coq's float_scope (hex, exact)"""
    x = float(x)
    if x != x:
        return "(0/0)%float"
    if x in (float("inf"), float("-inf")):
        return "(1/0)%float" if x > 0 else "(-1/0)%float"
    h = x.hex()
    return "(%s)%%float" % h


def flist(vs):
    return "[" + "; ".join(flit(v) for v in vs) + "]"


def zlist(vs):
    return "[" + "; ".join(zlit(v) for v in vs) + "]"


def zlistlist(vss):
    return "[" + "; ".join(zlist(v) for v in vss) + "]"


_PARSE_TOKEN = re.compile(r"\[|\]|;|neg_infinity|infinity|nan|-?\d+(?:\.\d+)?(?:e[+-]?\d+)?")


def parse_nested(text, as_float=False):
    """Parse Coq's printing of a nested list of Z ("[[1; -2]; []]") into Python lists."""
    toks = _PARSE_TOKEN.findall(text)
    pos = 0

    def rec():
        nonlocal pos
        if toks[pos] == "[":
            pos += 1
            out = []
            while toks[pos] != "]":
                if toks[pos] == ";":
                    pos += 1
                    continue
                out.append(rec())
            pos += 1
            return out
        t = toks[pos]
        pos += 1
        if t == "nan":
            return float("nan")
        if t == "infinity":
            return float("inf")
        if t == "neg_infinity":
            return float("-inf")
        if "." in t or "e" in t or as_float:
            return float(t)
        return int(t)

    return rec()


def run_cases(tag, terms, requires=("Model.Run",), chunk=250, jobs=16, typ="list Z", preamble=""):
    """Evaluate each Coq term (of type `typ`, default list Z) with vm_compute.

    Returns the list of results (Python nested lists), in order. Raises RuntimeError when coqc fails."""
    d = os.path.join(BUILD, "cases", tag)
    if os.path.isdir(d):
        for fn in os.listdir(d):
            os.unlink(os.path.join(d, fn))
    os.makedirs(d, exist_ok=True)
    files = []
    for ci in range(0, len(terms), chunk):
        f = os.path.join(d, "cases_%s_%05d.v" % (re.sub(r"\W", "_", tag), ci // chunk))
        with open(f, "w") as fh:
            fh.write("From Coq Require Import ZArith List PrimFloat.\nImport ListNotations.\n")
            for r in requires:
                fh.write("From OPF Require Import %s.\n" % r)
            fh.write("Open Scope Z_scope.\nSet Printing Depth 100000000.\nSet Printing Width 1000000.\n")
            fh.write(preamble + "\n")
            fh.write("Definition cases : list (%s) := [\n" % typ)
            fh.write(";\n".join(terms[ci:ci + chunk]))
            fh.write("].\n")
            fh.write('Goal True. idtac "@@RESULT". Abort.\nEval vm_compute in cases.\n')
        files.append(f)
    procs = []
    results = []
    env = dict(os.environ)

    def launch(f):
        return subprocess.Popen("ulimit -s unlimited 2>/dev/null; exec timeout 900 coqc -Q %s OPF %s" % (os.path.join(COQ, "theories"), f),
                                shell=True, cwd=d, stdout=subprocess.PIPE, stderr=subprocess.STDOUT, text=True, env=env)

    outs = [None] * len(files)
    running = []
    idx = 0
    while idx < len(files) or running:
        while idx < len(files) and len(running) < jobs:
            running.append((idx, launch(files[idx])))
            idx += 1
        i, p = running.pop(0)
        out, _ = p.communicate()
        if p.returncode != 0:
            for _, q in running:
                q.kill()
            raise RuntimeError("coqc failed on %s:\n%s" % (files[i], out[-3000:]))
        outs[i] = out
    for out in outs:
        body = out.split("@@RESULT", 1)[1]
        body = body.split("=", 1)[1]
        body = body.rsplit(": list", 1)[0]
        results.extend(parse_nested(body, as_float="float" in typ))
    return results


# ----------------------------------------------------------------------------------------
# findings, verdicts, evidence

def known_findings():
    p = os.path.join(VERIF, "known_findings.json")
    if not os.path.exists(p):
        return {"known": [], "fixed": []}
    return json.load(open(p))


class Report:
    """Collects what one check run did and renders the verdict + evidence file."""

    def __init__(self, pid, tier, seed):
        self.pid, self.tier, self.seed = pid, tier, seed
        self.t0 = time.time()
        self.obligations = []      # (name, ok, detail)
        self.axioms = {}
        self.corr = {}             # stream -> dict(cases=, disagreements=, ...)
        self.samples = []
        self.violations = []       # dict(kind=, what=, replay=..., key=...)
        self.known_hits = []
        self.assumptions = []
        self.trusted = []
        self.extra = {}
        self.distinct = set()
        self.evaluations = 0
        self.rule = ""
        rd = os.path.join(BUILD, "replay")
        if os.path.isdir(rd):
            for fn in os.listdir(rd):
                if fn.startswith(pid + "_"):
                    os.unlink(os.path.join(rd, fn))

    def obligation(self, name, ok, detail=""):
        self.obligations.append((name, bool(ok), detail))

    def count_case(self, key, nontrivial=True):
        self.evaluations += 1
        if nontrivial:
            self.distinct.add(hashlib.sha1(repr(key).encode()).hexdigest()[:16])

    def violation(self, what, replay_obj, key=None, found_input=True):
        """Record a violation. `key` identifies the call site / input class for known_findings matching."""
        kf = known_findings()
        for k in kf.get("known", []):
            if k["property"] == self.pid and key is not None and k["key"] == key:
                if key not in [h[0] for h in self.known_hits]:
                    self.known_hits.append((key, k["what"]))
                return
        self.violations.append(dict(what=what, replay=replay_obj, key=key, found_input=found_input))

    def finish(self):
        # evaluations of seeded / benign patches (VERIF_EVIDENCE_DIR set) must not overwrite the evidence of /repo itself
        ev_dir = os.environ.get("VERIF_EVIDENCE_DIR") or os.path.join(VERIF, "evidence")
        os.makedirs(ev_dir, exist_ok=True)
        try:
            import drive as _drive
            for st in _drive.STUCK[:2]:
                self.violation(st["what"], st["context"], key="rejected_assignment")
            del _drive.STUCK[:]
        except ImportError:
            pass
        n_obl = len(self.obligations)
        n_ok = sum(1 for _, ok, _ in self.obligations if ok)
        broken = [(n, d) for n, ok, d in self.obligations if not ok]
        lines = []
        rc = 0
        replay_dir = os.path.join(BUILD, "replay")
        os.makedirs(replay_dir, exist_ok=True)
        if broken and not any(v["found_input"] for v in self.violations):
            # a proof obligation / correspondence no longer checks and no failing input was found
            path = os.path.join(replay_dir, "%s_broken_obligation.json" % self.pid)
            json.dump(dict(property=self.pid, broken=[dict(name=n, detail=d[-3000:]) for n, d in broken],
                           note="no concrete failing input found by the search; the named theorem(s)/correspondence no longer check"),
                      open(path, "w"), indent=1)
            lines.append("VIOLATION property=%s replay=%s no-failing-input-found" % (self.pid, path))
            rc = 1
        shown = 0
        for i, v in enumerate(self.violations):
            if not v["found_input"]:
                continue
            path = os.path.join(replay_dir, "%s_%d.json" % (self.pid, i))
            json.dump(dict(property=self.pid, what=v["what"], key=v["key"], replay=v["replay"],
                           broken_obligations=[n for n, _ in broken]), open(path, "w"), indent=1, default=str)
            if shown < 5:
                lines.append("VIOLATION property=%s replay=%s" % (self.pid, path))
                print("  " + v["what"][:300])
            shown += 1
            rc = 1
        for key, what in self.known_hits:
            print("KNOWN-FINDING: property=%s %s" % (self.pid, what))
        cov = dict(
            obligations=max(n_obl, 1) if n_obl else 0,
            discharged=n_ok,
            obligation_list=[dict(name=n, ok=ok, detail=(d[-400:] if not ok else d[:200])) for n, ok, d in self.obligations],
            checker_cmd="cd /verif && bin/build -k && coqc Print Assumptions (harness/common.py:print_assumptions); correspondence: coqc vm_compute on build/cases/*",
            trusted_base=self.trusted,
            axioms=self.axioms,
            evaluations=self.evaluations,
            distinct_nontrivial=len(self.distinct),
            traces_validated_against_impl=sum(c.get("cases", 0) for c in self.corr.values()),
            correspondence=self.corr,
            rule=self.rule,
            samples=self.samples[:6],
            known_findings_hit=[k for k, _ in self.known_hits],
        )
        cov.update(self.extra)
        ev = dict(property_id=self.pid, tier=self.tier, seed=self.seed, level="proof", coverage=cov,
                  assumptions=self.assumptions, wall_s=round(time.time() - self.t0, 2),
                  violations=sum(1 for l in lines))
        json.dump(ev, open(os.path.join(ev_dir, self.pid + ".json"), "w"), indent=1, default=str)
        for l in lines:
            print(l)
        if rc == 0:
            print("OK property=%s tier=%s obligations=%d/%d cases=%d wall=%.1fs" % (
                self.pid, self.tier, n_ok, n_obl, self.evaluations, time.time() - self.t0))
        return rc


def standard_proof_phase(rep, pid, needed_files, extra_trusted=()):
    """Steps 1-2 of the protocol: regenerate, build, list obligations of Props/<pid>.v."""
    ok, msg = regenerate()
    rep.obligation("translator(fail-closed) regenerates Gen/*.v from %s" % REPO, ok, msg)
    rc, log, dt = coq_build()
    bad = failed_files(log)
    rep.extra["build_s"] = round(dt, 1)
    hits = forbidden_tokens()
    rep.obligation("no Admitted/Axiom/Parameter/guard switches in coq/theories", not hits, "; ".join(hits[:10]))
    for f in needed_files:
        rep.obligation("compiles: %s.v" % f, vo_ok(f), _excerpt(log, f))
    names = theorems_of(pid)
    for pf in prop_files(pid):
        if pf != pid:
            rep.obligation("compiles: Props/%s.v" % pf, vo_ok("Props/" + pf), _excerpt(log, "Props/" + pf))
    if all(vo_ok("Props/" + pf) for pf in prop_files(pid)):
        ax = print_assumptions(pid, names)
        if ax is None:
            rep.obligation("Print Assumptions loads Props/%s" % pid, False, "coqc failed")
            ax = {}
        for n in names:
            a = ax.get(n)
            bad_ax = [x for x in (a or []) if x.split(".")[-1] not in {y.split(".")[-1] for y in ALLOWED_AXIOMS} and not x.startswith(("PrimFloat", "Uint63", "PrimInt63", "FloatAxioms", "FloatOps"))]
            rep.obligation("theorem %s (Print Assumptions: %s)" % (n, "closed" if a == [] else ", ".join(a or ["?"])),
                           a is not None and not bad_ax, "non-stdlib axioms: %s" % bad_ax if bad_ax else "")
            rep.axioms[n] = a
    else:
        for n in names or ["Props/%s.v" % pid]:
            rep.obligation("theorem %s" % n, False, _excerpt(log, "Props/" + pid) or "Props/%s.vo not built (a dependency failed): %s" % (pid, bad))
    if rep.tier == "thorough" and all(vo_ok("Props/" + pf) for pf in prop_files(pid)):
        # independent re-check of the compiled files (and everything they depend on) with coqchk
        mods = ["OPF.Props." + pf for pf in prop_files(pid)]
        t0 = time.time()
        rc2, out2 = sh(["coqchk", "-silent", "-o", "-Q", os.path.join(COQ, "theories"), "OPF"] + mods, timeout=3000)
        summ = out2[out2.find("CONTEXT SUMMARY"):] if "CONTEXT SUMMARY" in out2 else out2[-1500:]
        axs = re.findall(r"^\s{4}([A-Za-z_][A-Za-z0-9_.']*)\s*$", summ, flags=re.M)
        clean = all(("%s: <none>" % k) in summ for k in ("relying on type-in-type", "relying on unsafe (co)fixpoints", "whose positivity is assumed"))
        bad2 = [a for a in axs if a.split(".")[-1] not in {y.split(".")[-1] for y in ALLOWED_AXIOMS}
                and not a.startswith(("Coq.Floats", "Coq.Numbers.Cyclic.Int63", "Coq.Reals", "Coq.Logic"))]
        rep.obligation("coqchk re-checks %s (%.0f s; axioms: %s)" % (", ".join(mods), time.time() - t0, ", ".join(axs) or "none"),
                       rc2 == 0 and clean and not bad2, summ[-1500:] if (rc2 or not clean or bad2) else "")
        rep.extra["coqchk_axioms"] = axs
    rep.trusted += ["Coq 8.16.1 kernel + vm_compute (no native_compute)", "bin/build (coq_makefile full .vo build)",
                    "harness/common.py (case-file emission, output parsing, rank/IEEE order encoding)"] + list(extra_trusted)


def _excerpt(log, f):
    i = log.find("theories/%s.v" % f)
    if i < 0:
        return ""
    return log[max(0, i - 100): i + 1500]
