"""C20 - evaluation measures match their definitions and stay within bounds (opfython/math/general.py)."""
import math
import random
import warnings
from fractions import Fraction

from common import *  # noqa

NEEDED = ["Model/Measures", "Model/RunSM", "Proofs/MeasuresCount", "Proofs/MeasuresQ", "Proofs/MeasuresR",
          "Proofs/MeasuresC20", "Props/C20"]
TOL = 1e-12
NTOL = 1e-9


def drop_axioms_header(rep):
    """common.print_assumptions reads the header line "Axioms:" of Coq's output as an axiom called
    `Axioms` (needed change in common.py: skip that line).  Until then: remove the pseudo-entry and
    re-judge the affected theorem obligations against ALLOWED_AXIOMS here."""
    allowed = {y.split(".")[-1] for y in ALLOWED_AXIOMS}
    for n, a in list(rep.axioms.items()):
        if a and "Axioms" in a:
            rep.axioms[n] = [x for x in a if x != "Axioms"]
    fixed = []
    for (name, ok, detail) in rep.obligations:
        m = re.match(r"theorem (\S+) \(Print Assumptions: (.*)\)$", name)
        if m and m.group(1) in rep.axioms and rep.axioms[m.group(1)] is not None and "Axioms" in m.group(2):
            ax = rep.axioms[m.group(1)]
            bad = [x for x in ax if x.split(".")[-1] not in allowed]
            fixed.append(("theorem %s (Print Assumptions: %s)" % (m.group(1), ", ".join(ax) or "closed"), not bad,
                          "non-stdlib axioms: %s" % bad if bad else ""))
        else:
            fixed.append((name, ok, detail))
    rep.obligations = fixed


# ----------------------------------------------------------------------------------------
# generation

def _with_all_classes(rng, K, n):
    """A label vector of length n >= K in which every class 0..K-1 occurs."""
    lab = list(range(K)) + [rng.randrange(K) for _ in range(n - K)]
    rng.shuffle(lab)
    return lab


def gen_measure_case(rng, kind, max_len):
    K = rng.randint(1, 6)
    n = rng.randint(K, max(K, max_len))
    if kind == "many_classes":
        # many classes; run_impl hands such vectors over as narrow unsigned integer arrays (uint8), as label files
        # read from compact datasets are
        K = rng.randint(17, 24) if rng.random() < 0.75 else rng.choice([64, 100, 127, 128, 130, 200, 255, 256])
        n = rng.randint(K, K + 40) if K < 60 else rng.randint(2 * K, 2 * K + 20)
        labels = _with_all_classes(rng, K, n)
        r = rng.random()
        preds = list(labels) if r < 0.3 else [l if rng.random() < 0.7 else rng.randrange(K) for l in labels]
        return labels, preds
    if kind == "single_class":
        K = 1
        n = rng.randint(1, max_len)
    if kind in ("all_wrong", "swap2") and K == 1:
        K = 2
        n = max(n, 2)
    if kind == "swap2":
        K = 2
    labels = _with_all_classes(rng, K, n)
    if kind in ("random", "single_class"):
        preds = [rng.randrange(K) for _ in labels]
    elif kind == "all_correct":
        preds = list(labels)
    elif kind == "all_wrong":
        preds = [rng.choice([c for c in range(K) if c != l]) for l in labels]
    elif kind == "swap2":
        preds = [1 - l for l in labels]
    elif kind == "one_error":
        preds = list(labels)
        if K > 1:
            i = rng.randrange(n)
            preds[i] = rng.choice([c for c in range(K) if c != labels[i]])
    elif kind == "pure_groups":
        # every predicted group holds one true class: preds = an injective renaming of the labels
        perm = list(range(K)); rng.shuffle(perm)
        preds = [perm[l] for l in labels]
    elif kind == "merged_groups":
        # several true classes share a predicted group (purity < 1 unless K == 1)
        f = [rng.randrange(max(1, K - 1)) for _ in range(K)]
        preds = [f[l] for l in labels]
    elif kind == "mostly_correct":
        preds = [l if rng.random() < 0.85 else rng.randrange(K) for l in labels]
    elif kind == "ood_missing":
        # out of the property's domain: some class below the maximum never occurs among the labels
        K = rng.randint(2, 6)
        missing = rng.randrange(K - 1)
        pool = [c for c in range(K) if c != missing]
        labels = [K - 1] + [rng.choice(pool) for _ in range(rng.randint(0, max_len - 1))]
        rng.shuffle(labels)
        preds = [rng.randrange(K) for _ in labels]
    elif kind == "ood_pred":
        # out of domain: a prediction >= K (numpy raises IndexError)
        preds = [rng.randrange(K) for _ in labels]
        preds[rng.randrange(n)] = K + rng.randrange(3)
    else:
        raise AssertionError(kind)
    return labels, preds


IN_DOMAIN_KINDS = ["many_classes", "random", "random", "random", "mostly_correct", "all_correct", "all_wrong", "swap2", "one_error",
                   "single_class", "pure_groups", "merged_groups"]
OOD_KINDS = ["ood_missing", "ood_pred"]


def in_domain(labels, preds):
    if not labels or len(labels) != len(preds):
        return False
    K = max(labels) + 1
    return set(labels) == set(range(K)) and all(0 <= p < K for p in preds)


# ----------------------------------------------------------------------------------------
# implementation

def _call(fn, *a):
    import numpy as np
    with warnings.catch_warnings():
        warnings.simplefilter("ignore")
        with np.errstate(all="ignore"):
            try:
                r = fn(*a)
            except Exception as ex:  # noqa
                return ("exc", type(ex).__name__)
    if isinstance(r, np.ndarray):
        return ("ok", r.tolist())
    return ("ok", float(r))


def label_dtype(labels, preds):
    """label vectors with many classes arrive as the narrow integer arrays compact label files are read into: any integer
    type that can hold the values (the measures are functions of the label VALUES)"""
    import numpy as np
    dt = int
    if len(labels) and max(labels) >= 16 and min(list(labels) + list(preds)) >= 0:
        M = max(list(labels) + list(preds))
        cands = [t for t, top in ((np.uint8, 255), (np.int8, 127), (np.int16, 32767), (np.uint16, 65535), (np.int32, 2 ** 31 - 1)) if M <= top]
        dt = cands[(len(labels) + M) % len(cands)]
    return dt


def run_impl(labels, preds):
    import numpy as np
    import opfython.math.general as g
    dt = label_dtype(labels, preds)
    l = np.asarray(labels, dtype=dt)
    p = np.asarray(preds, dtype=dt)
    return dict(cm=_call(g.confusion_matrix, l, p), acc=_call(g.opf_accuracy, l, p),
                pl=_call(g.opf_accuracy_per_label, l, p), pur=_call(g.purity, l, p))


# ----------------------------------------------------------------------------------------
# model output

def parse_model(out):
    """run_c20's list Z -> dict(oob, K, cm, acc, pl, pur) with Fractions."""
    oob, K = out[0], out[1]
    pos = 2
    cm = [out[pos + a * K: pos + (a + 1) * K] for a in range(K)]
    pos += K * K
    acc = Fraction(out[pos], out[pos + 1]); pos += 2
    if out[pos] == -1:
        pl = None; pos += 1
    else:
        m = out[pos]; pos += 1
        pl = [Fraction(out[pos + 2 * i], out[pos + 2 * i + 1]) for i in range(m)]
        pos += 2 * m
    pur = Fraction(out[pos], out[pos + 1]); pos += 2
    assert pos == len(out), (pos, len(out))
    return dict(oob=oob, K=K, cm=cm, acc=acc, pl=pl, pur=pur)


def close(x, q, tol=TOL):
    return isinstance(x, float) and x == x and abs(x - float(q)) <= tol


def compare(model, impl):
    """Correspondence model <-> implementation. Returns a list of disagreement strings."""
    bad = []
    if model["oob"]:
        for k in ("cm", "acc", "pur"):
            if impl[k] != ("exc", "IndexError"):
                bad.append("%s: model says prediction out of range (IndexError), implementation gave %r" % (k, impl[k]))
    else:
        if impl["cm"][0] != "ok" or [[int(v) for v in r] for r in impl["cm"][1]] != model["cm"] \
                or any(v != int(v) for r in impl["cm"][1] for v in r):
            bad.append("confusion_matrix: model %r, implementation %r" % (model["cm"], impl["cm"]))
        if impl["acc"][0] != "ok" or not close(impl["acc"][1], model["acc"]):
            bad.append("opf_accuracy: model %s, implementation %r" % (model["acc"], impl["acc"]))
        if impl["pur"][0] != "ok" or not close(impl["pur"][1], model["pur"]):
            bad.append("purity: model %s, implementation %r" % (model["pur"], impl["pur"]))
    if model["pl"] is None:
        if impl["pl"][0] != "exc":
            bad.append("opf_accuracy_per_label: model says shapes do not broadcast, implementation gave %r" % (impl["pl"],))
    else:
        if impl["pl"][0] != "ok" or len(impl["pl"][1]) != len(model["pl"]) or \
                not all(close(x, q) for x, q in zip(impl["pl"][1], model["pl"])):
            bad.append("opf_accuracy_per_label: model %r, implementation %r" % ([str(q) for q in model["pl"]], impl["pl"]))
    return bad


# ----------------------------------------------------------------------------------------
# oracle: the property, recomputed from the definitions, on the implementation's outputs

def definitions(labels, preds):
    K = max(labels) + 1
    N = len(labels)
    pairs = list(zip(labels, preds))
    n = [sum(1 for l in labels if l == c) for c in range(K)]
    FP = [sum(1 for l, p in pairs if p == c and l != c) for c in range(K)]
    FN = [sum(1 for l, p in pairs if l == c and p != c) for c in range(K)]
    TP = [sum(1 for l, p in pairs if l == c and p == c) for c in range(K)]
    s = Fraction(0)
    for c in range(K):
        if N - n[c] > 0:
            s += Fraction(FP[c], N - n[c])
        if n[c] > 0:
            s += Fraction(FN[c], n[c])
    acc = 1 - s / (2 * K)
    cm = [[sum(1 for l, p in pairs if l == a and p == b) for b in range(K)] for a in range(K)]
    groups = {}
    for l, p in pairs:
        groups.setdefault(p, set()).add(l)
    pure = all(len(v) == 1 for v in groups.values())
    pur = Fraction(sum(max(cm[a][b] for a in range(K)) for b in range(K)), N)
    return dict(K=K, N=N, n=n, FP=FP, FN=FN, TP=TP, acc=acc, cm=cm, pure=pure, pur=pur,
                all_correct=all(l == p for l, p in pairs))


def oracle(labels, preds, impl, d=None):
    """Returns [(function, message)] - the ways in which the implementation's answers break C20 (in-domain input).
    `d`: the dictionary of definitions() when the caller computed it already (large_b.fast_definitions for long vectors)."""
    if d is None:
        d = definitions(labels, preds)
    out = []
    # confusion matrix
    if impl["cm"][0] != "ok":
        out.append(("confusion_matrix", "raised %s on an in-domain input" % impl["cm"][1]))
    else:
        cm = impl["cm"][1]
        if len(cm) != d["K"] or any(len(r) != d["K"] for r in cm):
            out.append(("confusion_matrix", "shape is not K x K"))
        elif cm != [[float(v) for v in r] for r in d["cm"]]:
            out.append(("confusion_matrix", "entries %r are not the pair counts %r" % (cm, d["cm"])))
        elif sum(sum(r) for r in cm) != d["N"]:
            out.append(("confusion_matrix", "entries do not sum to N"))
    # accuracy
    if impl["acc"][0] != "ok":
        out.append(("opf_accuracy", "raised %s on an in-domain input" % impl["acc"][1]))
    else:
        a = impl["acc"][1]
        if not (a == a) or not close(a, d["acc"]):
            out.append(("opf_accuracy", "value %r differs from 1 - (1/2K) sum(FP/(N-n) + FN/n) = %s = %r"
                        % (a, d["acc"], float(d["acc"]))))
        elif not (0.0 <= a <= 1.0):
            out.append(("opf_accuracy", "value %r outside [0, 1]" % a))
        elif (a == 1.0) != d["all_correct"]:
            out.append(("opf_accuracy", "value %r but all-predictions-correct is %r" % (a, d["all_correct"])))
    # per label = recall
    if impl["pl"][0] != "ok":
        out.append(("opf_accuracy_per_label", "raised %s on an in-domain input" % impl["pl"][1]))
    else:
        pl = impl["pl"][1]
        rec = [Fraction(d["TP"][c], d["n"][c]) for c in range(d["K"])]
        if len(pl) != d["K"] or not all(close(x, q) for x, q in zip(pl, rec)):
            out.append(("opf_accuracy_per_label", "values %r are not the per-class recalls %r" % (pl, [str(q) for q in rec])))
    # purity
    if impl["pur"][0] != "ok":
        out.append(("purity", "raised %s on an in-domain input" % impl["pur"][1]))
    else:
        u = impl["pur"][1]
        if not (u == u) or not (0.0 < u <= 1.0):
            out.append(("purity", "value %r outside (0, 1]" % u))
        elif (u == 1.0) != d["pure"]:
            out.append(("purity", "value %r but every-predicted-group-has-one-true-class is %r" % (u, d["pure"])))
        elif not close(u, d["pur"]):
            out.append(("purity", "value %r differs from sum_b max_a C[a][b] / N = %s" % (u, d["pur"])))
    return out


def shrink(labels, preds, fn):
    """Greedy removal of positions while the input stays in the domain and `fn` still violates."""
    cur = (list(labels), list(preds))

    def still(l, p):
        return in_domain(l, p) and any(f == fn for f, _ in oracle(l, p, run_impl(l, p)))

    changed = True
    while changed and len(cur[0]) > 1:
        changed = False
        for i in range(len(cur[0])):
            l = cur[0][:i] + cur[0][i + 1:]
            p = cur[1][:i] + cur[1][i + 1:]
            if l and still(l, p):
                cur = (l, p); changed = True
                break
    return cur


# ----------------------------------------------------------------------------------------
# normalize

def fenc(x):
    """double -> [kind, sign, mantissa, exponent] (see RunSM.float_in)."""
    x = float(x)
    if x != x:
        return [2, 0, 0, 0]
    s = 1 if math.copysign(1.0, x) < 0 else 0
    if x == 0:
        return [0, s, 0, 0]
    if math.isinf(x):
        return [1, s, 0, 0]
    m, e = math.frexp(abs(x))
    mi = int(m * (1 << 53))
    assert math.ldexp(mi, e - 53) == abs(x)
    return [3, s, mi, e - 53]


def fdec(c):
    k, s, m, e = c
    sg = -1.0 if s else 1.0
    if k == 0:
        return sg * 0.0
    if k == 1:
        return sg * math.inf
    if k == 2:
        return math.nan
    return sg * math.ldexp(m, e)


def gen_matrix(rng, max_rows, max_cols):
    r = rng.randint(2, max_rows)
    c = rng.randint(1, max_cols)
    cols = []
    kinds = []
    for _ in range(c):
        k = rng.choice(["uniform", "uniform", "ints", "const", "two_values", "shifted", "tiny", "huge"])
        if k == "uniform":
            col = [rng.uniform(-10, 10) for _ in range(r)]
        elif k == "ints":
            col = [float(rng.randint(-5, 5)) for _ in range(r)]
        elif k == "const":
            v = rng.choice([0.0, 1.0, 0.1, -3.5, rng.uniform(-10, 10)])
            col = [v] * r
        elif k == "two_values":
            a, b = rng.uniform(-10, 10), rng.uniform(-10, 10)
            col = [a if rng.random() < 0.5 else b for _ in range(r)]
        elif k == "tiny":
            sc = 10.0 ** rng.randint(-12, -7)          # non-constant columns on a very small scale
            col = [sc * rng.uniform(1, 9) for _ in range(r)]
        elif k == "huge":
            sc = 10.0 ** rng.randint(6, 12)
            col = [sc * rng.uniform(-9, 9) for _ in range(r)]
        else:
            base = rng.uniform(100, 1000)
            col = [base + rng.uniform(-1, 1) for _ in range(r)]
        cols.append(col); kinds.append(k)
    rows = [[cols[j][i] for j in range(c)] for i in range(r)]
    return rows, kinds


def run_normalize_impl(rows):
    import numpy as np
    import opfython.math.general as g
    with warnings.catch_warnings():
        warnings.simplefilter("ignore")
        with np.errstate(all="ignore"):
            try:
                return ("ok", g.normalize(np.asarray(rows, dtype=float)).tolist())
            except Exception as ex:  # noqa
                return ("exc", type(ex).__name__)


def same_float(a, b, tol):
    if a != a or b != b:
        return a != a and b != b
    if math.isinf(a) or math.isinf(b):
        return a == b
    return abs(a - b) <= tol * max(1.0, abs(a), abs(b))


def normalize_oracle(rows, impl):
    """Property on the implementation's output: (v - mean)/std per non-constant column, mean 0, sum sq = n."""
    if impl[0] != "ok":
        return "normalize raised %s" % impl[1]
    out = impl[1]
    r, c = len(rows), len(rows[0])
    if len(out) != r or any(len(o) != c for o in out):
        return "normalize changed the shape"
    for j in range(c):
        col = [Fraction(rows[i][j]) for i in range(r)]
        if len(set(col)) == 1:
            continue
        mean = sum(col) / r
        var = sum((v - mean) ** 2 for v in col) / r
        std = math.sqrt(var)   # float sqrt of the exact variance
        ncol = [out[i][j] for i in range(r)]
        for i in range(r):
            want = float(col[i] - mean) / std
            if not same_float(ncol[i], want, NTOL):
                return "column %d row %d: %r is not (v - mean)/std = %r" % (j, i, ncol[i], want)
        m = math.fsum(ncol) / r
        ss = math.fsum(v * v for v in ncol)
        if abs(m) > NTOL * 10:
            return "column %d: normalised mean is %r, not 0" % (j, m)
        if abs(ss - r) > NTOL * 10 * r:
            return "column %d: sum of squares of the normalised column is %r, not %d" % (j, ss, r)
    return None


# ----------------------------------------------------------------------------------------

def main(tier, seed):
    setup_impl_env()
    rep = Report("C20", tier, seed)
    rep.rule = ("label/prediction vectors with every class 0..K-1 present, K in 1..6, length K..60 (quick) / ..200 (thorough); "
                "streams: random, mostly-correct, all-correct, all-wrong, 2-class swap (accuracy 0), one error, single class (K=1), "
                "pure groups (purity 1), merged groups; plus an out-of-domain stream (missing class; prediction >= K) that is "
                "only compared with the model, never judged; a case is non-trivial when K >= 2 and it has both a correct and a "
                "wrong prediction; distinct = distinct (labels, preds). normalize: matrices 2..30 x 1..6 with uniform, integer, "
                "two-valued, shifted (mean >> spread) and constant columns; large-size stream (oracle only): vector pairs of 1025-1300, "
                "4097-5000 and 70000 entries x 2-6, 65-100 and 257-300 classes (shuffled, class-sorted, rare last class; errors in the "
                "tail), arrays of 1025, 1500, 2048, 2500, 5000 rows x 3-6 columns and > 1024 rows x 65-90 columns (sorted, tail "
                "outliers, constant but one entry, two regimes, drift)")
    standard_proof_phase(rep, "C20", NEEDED)
    drop_axioms_header(rep)
    rng = random.Random(seed)
    n_in = 500 if tier == "quick" else 12000
    n_ood = 120 if tier == "quick" else 2000
    max_len = 60 if tier == "quick" else 200
    cases = []
    # exhaustive small scope: every in-domain (labels, preds) with N <= 4 (quick) / 5 (thorough), K <= 3
    import itertools
    exh_n = 4 if tier == "quick" else 5
    for n in range(1, exh_n + 1):
        for labels in itertools.product(range(3), repeat=n):
            K = max(labels) + 1
            if set(labels) != set(range(K)):
                continue
            for preds in itertools.product(range(K), repeat=n):
                cases.append(("exhaustive_small", list(labels), list(preds)))
    exh = len(cases)
    for i in range(n_in):
        kind = IN_DOMAIN_KINDS[i % len(IN_DOMAIN_KINDS)]
        l, p = gen_measure_case(rng, kind, max_len)
        cases.append((kind, l, p))
    for i in range(n_ood):
        kind = OOD_KINDS[i % len(OOD_KINDS)]
        l, p = gen_measure_case(rng, kind, max_len)
        cases.append((kind, l, p))
    stats = dict(kinds={}, K={}, length_buckets={}, in_domain=0, out_of_domain=0)
    terms, impls = [], []
    for kind, l, p in cases:
        terms.append("run_c20 %s %s" % (zlist(l), zlist(p)))
        impls.append(run_impl(l, p))
        stats["kinds"][kind] = stats["kinds"].get(kind, 0) + 1
        K = max(l) + 1
        stats["K"][K] = stats["K"].get(K, 0) + 1
        b = "%d-%d" % (len(l) // 20 * 20, len(l) // 20 * 20 + 19)
        stats["length_buckets"][b] = stats["length_buckets"].get(b, 0) + 1
        dom = in_domain(l, p)
        stats["in_domain" if dom else "out_of_domain"] += 1
        nontriv = dom and K >= 2 and any(a == b_ for a, b_ in zip(l, p)) and any(a != b_ for a, b_ in zip(l, p))
        rep.count_case((l, p), nontriv)
    dis, first = 0, None
    try:
        got = run_cases("C20", terms, requires=("Model.RunSM",))
        for (kind, l, p), g, im in zip(cases, got, impls):
            bad = compare(parse_model(g), im)
            if bad:
                dis += 1
                if first is None:
                    first = "kind=%s labels=%r preds=%r: %s" % (kind, l, p, "; ".join(bad))
        rep.obligation("correspondence Measures model vs opfython.math.general (counts exact, rationals within 1e-12)",
                       dis == 0, "" if dis == 0 else "%d disagreements; first: %s" % (dis, first))
    except RuntimeError as ex:
        rep.obligation("correspondence Measures model vs opfython.math.general", False, str(ex))
    rep.corr["measures"] = dict(cases=len(terms), disagreements=dis, distribution=stats, exhaustive_small=exh)

    # oracle on the implementation's own answers (in-domain cases only)
    nviol = 0
    seen_fn = set()
    for (kind, l, p), im in zip(cases, impls):
        if not in_domain(l, p):
            continue
        for fn, msg in oracle(l, p, im):
            nviol += 1
            if fn in seen_fn:
                continue
            seen_fn.add(fn)
            l2, p2 = shrink(l, p, fn)
            msgs = [m for f, m in oracle(l2, p2, run_impl(l2, p2)) if f == fn]
            rep.violation("general.%s breaks C20 on labels=%r preds=%r: %s" % (fn, l2, p2, msgs[0] if msgs else msg),
                          dict(kind="measures", function=fn, labels=l2, preds=p2, array_dtype=__import__("numpy").dtype(label_dtype(l2, p2)).name), key="general." + fn)
    import drive_streams
    nviol += drive_streams.reused_label_buffers(rep, rng, tier)
    # float level (Props/C20_rounding.v, C20_binary64.v): the binary64 value against the exact rational, with the proved bound
    import c20_rounding
    rst, rvs = c20_rounding.run(rep, 300 if tier == "quick" else 6000, seed)
    rep.corr["accuracy_rounding_bound"] = rst
    for v in rvs[:2]:
        nviol += 1
        rep.violation("opf_accuracy at binary64 against Props/C20_binary64.v: " + v["msg"], dict(kind="measures", function="opf_accuracy", labels=list(map(int, v["labels"])), preds=list(map(int, v["preds"]))), key="general.opf_accuracy")
    rep.extra["oracle_violations"] = nviol

    # ---- normalize
    n_norm = 120 if tier == "quick" else 3000
    mats = [gen_matrix(rng, 30 if tier == "quick" else 80, 6) for _ in range(n_norm)]
    nterms = ["run_normalize [%s]" % "; ".join("[%s]" % "; ".join(zlist(fenc(v)) for v in row) for row in rows)
              for rows, _ in mats]
    nimpl = [run_normalize_impl(rows) for rows, _ in mats]
    ndis, nfirst, exact, total_entries, const_cols = 0, None, 0, 0, 0
    nstats = dict(column_kinds={}, rows={}, cols={})
    for rows, kinds in mats:
        for k in kinds:
            nstats["column_kinds"][k] = nstats["column_kinds"].get(k, 0) + 1
        nstats["cols"][len(rows[0])] = nstats["cols"].get(len(rows[0]), 0) + 1
        b = "%d-%d" % (len(rows) // 10 * 10, len(rows) // 10 * 10 + 9)
        nstats["rows"][b] = nstats["rows"].get(b, 0) + 1
        rep.count_case(("normalize", rows), any(k != "const" for k in kinds))
    try:
        ngot = run_cases("C20n", nterms, requires=("Model.RunSM",), typ="list (list Z)", chunk=40)
        for (rows, kinds), g, im in zip(mats, ngot, nimpl):
            ok = im[0] == "ok" and len(g) == len(im[1])
            # constant columns are outside the property (0/0, or rounding noise over rounding noise): not compared
            const = [len(set(r[j] for r in rows)) == 1 for j in range(len(rows[0]))]
            const_cols += sum(const)
            if ok:
                for grow, irow in zip(g, im[1]):
                    vals = [fdec(grow[4 * j: 4 * j + 4]) for j in range(len(grow) // 4)]
                    if len(vals) != len(irow):
                        ok = False; break
                    for j, (a, b) in enumerate(zip(vals, irow)):
                        if const[j]:
                            continue
                        total_entries += 1
                        if a == b or (a != a and b != b):
                            exact += 1
                        elif not same_float(a, b, NTOL):
                            ok = False
            if not ok:
                ndis += 1
                if nfirst is None:
                    nfirst = "matrix %r: model/implementation differ (implementation %r)" % (rows, im)
        rep.obligation("correspondence normalize model under binary64 (vm_compute, PrimFloat) vs general.normalize (non-constant columns, rel. 1e-9)",
                       ndis == 0, "" if ndis == 0 else "%d disagreements; first: %s" % (ndis, nfirst[:1500]))
    except RuntimeError as ex:
        rep.obligation("correspondence normalize model vs general.normalize", False, str(ex))
    rep.corr["normalize"] = dict(cases=len(nterms), disagreements=ndis, entries=total_entries, entries_bit_exact=exact, constant_columns_not_compared=const_cols,
                                 distribution=nstats)
    nv = 0
    for (rows, kinds), im in zip(mats, nimpl):
        msg = normalize_oracle(rows, im)
        if msg:
            nv += 1
            if nv == 1:
                rep.violation("general.normalize breaks C20: " + msg, dict(kind="normalize", rows=rows), key="general.normalize")
    rep.extra["normalize_oracle_violations"] = nv

    # ---- large-size stream: vectors of > 1024 / > 4096 / 70000 entries, > 64 / > 256 classes; arrays of 1025 .. 5000 rows and
    # > 64 columns (harness/large_b.py)
    import large_b
    rep.extra["large_oracle_violations"] = large_b.c20_large(rep, seed, tier)

    rep.samples = [dict(kind=k, labels=l[:20], preds=p[:20]) for (k, l, p) in cases[exh:exh + 4]] + \
                  [dict(kind="normalize", rows=mats[0][0][:4])]
    rep.assumptions = [
        "labels and predictions are integer arrays (numpy int), class ids >= 0; |labels| = |preds| >= 1",
        "in-domain = every class 0..max(labels) occurs among the labels and every prediction <= max(labels)",
        "numpy float64 arithmetic of the measures is compared with the exact rational value within 1e-12 (rounding is outside the theorems)",
        "numpy's 0/0 = nan followed by np.nansum is the convention x/0 = 0 of Coq's Q (x/0 with x > 0 cannot occur: FN_c <= n_c, FP_c <= N - n_c, proved)",
        "normalize: theorems are over the reals; the binary64 run of the same Gallina term is compared with numpy within 1e-9 (np.mean/np.std over axis 0 add row by row)",
        "np.bincount / np.unique(return_counts) return occurrence counts (modelled by counting)",
    ]
    return rep.finish()


def replay(path):
    path = os.path.abspath(path)
    setup_impl_env()
    r = json.load(open(path))["replay"]
    if str(r.get("kind", "")).startswith("large-"):
        import large_b
        msgs = large_b.c20_replay(r)
        for m in msgs:
            print("replay:", m)
        if not msgs:
            print("replay: property holds on this input")
        return 1 if msgs else 0
    if r.get("kind") == "normalize":
        msg = normalize_oracle(r["rows"], run_normalize_impl(r["rows"]))
        print("replay:", msg or "property holds on this matrix")
        return 1 if msg else 0
    l, p = r["labels"], r["preds"]
    msgs = oracle(l, p, run_impl(l, p))
    if r.get("function"):
        msgs = [(f, m) for f, m in msgs if f == r["function"]] or msgs
    for f, m in msgs:
        print("replay: general.%s: %s" % (f, m))
    if not msgs:
        print("replay: property holds on this input")
    return 1 if msgs else 0
