"""C04 - training samples receive their own labels (zero resubstitution error)."""
import random

from supcommon import *  # noqa
import supcheck
import axiom_table as T
import knncommon as K
import knncheck as KC

ELIGIBLE = [m for m in T.ALL if "sym" in T.claims(m) and "nonneg" in T.claims(m) and "zero_self" in T.claims(m)]


def tie_free_instance(rng, metric, nmax, want_zeros=None):
    n = rng.randint(3, nmax)
    dom = T.domain(metric)
    dim = rng.randint(1, 4) if not want_zeros else rng.randint(2, 4)
    zeros = (dim >= 2 and rng.random() < 0.4) if want_zeros is None else want_zeros
    for _ in range(60):
        if dom == "real" and metric != "hamming":
            X = [[rng.uniform(-10, 10) for _ in range(dim)] for _ in range(n)]
        else:
            X = [[rng.uniform(0.05, 9) for _ in range(dim)] for _ in range(n)]
        if zeros:
            # exact zeros in the rows (raw counts, sparse features): legal for every non-negative domain
            X = [[0.0 if rng.random() < 0.3 else v for v in r] for r in X]
            if any(sum(r) == 0 for r in X):
                continue
        if dom == "prob":
            X = [[v / sum(r) for v in r] for r in X]
        try:
            D = metric_matrix(metric, X)
        except ZeroDivisionError:
            continue
        offd = [D[a][b] for a in range(n) for b in range(a + 1, n)]
        sym = all(D[a][b] == D[b][a] for a in range(n) for b in range(a + 1, n))
        # eligibility (symmetric, non-negative, zero self-distance) is the axiom table's claim about the metric, not a
        # measurement: only the tie-freeness of the DATA is filtered here, on the off-diagonal entries
        if all(v == v for v in offd) and len(set(offd)) == len(offd) and min(offd) > 0 and sym:
            return Instance("feat", X, gen_labels(rng, n), D, 0, 0, metric)
    return None


def main(tier, seed):
    setup_impl_env()
    import warnings
    warnings.simplefilter("ignore")
    rep = Report("C04", tier, seed)
    standard_proof_phase(rep, "C04", supcheck.MODEL_FILES + KC.KNN_FILES + ["Props/C04_knn"])
    rng = random.Random(seed + 4)
    nviol = 0
    per_metric = 4 if tier == "quick" else 250
    terms, expect, insts = [], [], []
    stats = dict(sup=0, knn=0, metrics_used={}, rejected=0)
    for metric in ELIGIBLE:
        if metric == "hamming":
            continue    # integer-valued: distinct pairwise distances essentially never occur
        for rep_i in range(per_metric):
            # every metric on a non-negative class sees sparse rows (exact zeros) in half of its instances, whatever the seed
            wz = None if T.domain(metric) in ("real", "posonly") else (rep_i % 2 == 1)
            it = tie_free_instance(rng, metric, 8 if tier == "quick" else 12, want_zeros=wz)
            if it is None:
                stats["rejected"] += 1
                continue
            try:
                opf, st = impl_fit(it)
                X = np.array(it.X, dtype=float)
                preds = [int(p) for p in opf.predict(X.copy())]
            except Exception as ex:
                nviol += 1
                if nviol <= 3:
                    rep.violation("supervised fit/predict raised %r" % (ex,), it.desc(), key="resub:sup")
                continue
            stats["sup"] += 1; stats["metrics_used"][metric] = stats["metrics_used"].get(metric, 0) + 1
            rep.count_case(it.key(), True)
            nan_self = [a for a in range(it.n) if it.D[a][a] != it.D[a][a]]
            if not nan_self:
                rk = ranker_for(it)
                terms.append(term_fit(it, rk)); expect.append(supcheck.safe_dump(st, rk)); insts.append(it)
            msg = None
            if nan_self:
                msg = "d(x, x) is NaN for training row %d (the axiom table lists %s as a dissimilarity with zero self-distance)" % (nan_self[0], metric)
            if st["plabel"] != it.labels:
                q = [i for i in range(it.n) if st["plabel"][i] != it.labels[i]][0]
                msg = "training sample %d was assigned label %d, its true label is %d" % (q, st["plabel"][q], it.labels[q])
            elif preds != it.labels:
                q = [i for i in range(it.n) if preds[i] != it.labels[i]][0]
                msg = "predicting training row %d returns %d, its label is %d" % (q, preds[q], it.labels[q])
            if msg:
                nviol += 1
                if nviol <= 3:
                    rep.violation("tie-free supervised training (%s): %s" % (metric, msg), it.desc(), key="resub:sup")
            if not msg and not nan_self and stats["sup"] % 2 == 0:
                # the same tie-free distances as a pre-computed matrix (attribute or file), the training rows scattered in a
                # larger matrix through index arrays, predicted back through their indexes
                it2 = Instance("tiefree-matrix", None, it.labels, it.D, 0, 0, None)
                try:
                    opf2, st2 = impl_fit(it2)
                    preds2, _ = impl_predict(opf2, it2, rows=list(range(it2.n)))
                    stats["sup_matrix"] = stats.get("sup_matrix", 0) + 1
                    if st2["plabel"] != it.labels or preds2 != it.labels:
                        q = [i for i in range(it.n) if st2["plabel"][i] != it.labels[i] or preds2[i] != it.labels[i]][0]
                        msg = "sample %d (label %d) was assigned %d by training and %d when predicted back through its index" % (q, it.labels[q], st2["plabel"][q], preds2[q])
                except Exception as ex:
                    msg = "raised %r" % (ex,)
                if msg:
                    nviol += 1
                    if nviol <= 3:
                        d2 = it2.desc(); d2["metric_of_the_matrix"] = metric
                        rep.violation("tie-free supervised training on a pre-computed matrix with index arrays: " + msg, d2, key="resub:sup")
    bad = supcheck.corr(rep, "correspondence Model/Sup.sup_fit vs SupervisedOPF.fit on tie-free instances of every eligible metric", "C04", terms, expect, insts)
    rep.corr["sup_tie_free"] = dict(cases=len(terms), disagreements=None if bad is None else len(bad), distribution=stats)
    # ---- the classifier `learn` leaves in the object is a supervised training too: on tie-free data it must give its own
    #      stored training samples their labels (the samples it was fitted on, not rows exchanged afterwards)
    from opfython.models.supervised import SupervisedOPF
    NL = 40 if tier == "quick" else 1500
    stats["learn"] = 0
    for i in range(NL):
        metric = rng.choice(["euclidean", "manhattan", "squared_euclidean", "chebyshev", "canberra"])
        n, m = rng.randint(5, 9), rng.randint(2, 5)
        dim = rng.randint(2, 3)
        X = np.array([[rng.uniform(0.05, 9) for _ in range(dim)] for _ in range(n + m)])
        Dl = metric_matrix(metric, X.tolist())
        offd = [Dl[a][b] for a in range(n + m) for b in range(a + 1, n + m)]
        if len(set(offd)) != len(offd) or min(offd) <= 0:
            continue
        Yall = np.array([1 + (j % 2) for j in range(n + m)]); rng.shuffle(Yall)
        if len(set(Yall[:n].tolist())) < 2:
            continue
        n_it = rng.randint(1, 3)
        opf = SupervisedOPF(distance=metric)
        d = dict(metric=metric, X=X.tolist(), Y=Yall.tolist(), n_train=n, n_iterations=n_it)
        try:
            np.random.seed(rng.randint(0, 10 ** 6))
            opf.learn(X[:n].copy(), Yall[:n].copy(), X[n:].copy(), Yall[n:].copy(), n_iterations=n_it)
            feats = np.array([np.array(nd.features, dtype=float) for nd in opf.subgraph.nodes])
            labs = [int(nd.label) for nd in opf.subgraph.nodes]
            preds = [int(p) for p in opf.predict(feats.copy())]
        except Exception:
            continue      # e.g. the exchanged training set lost a class: outside C04
        stats["learn"] += 1
        rep.count_case(("learn", metric, X.tobytes(), n_it), True)
        if preds != labs:
            q = [j for j in range(len(labs)) if preds[j] != labs[j]][0]
            nviol += 1
            if nviol <= 3:
                rep.violation("after learn (%s, tie-free): the kept classifier predicts %d for its own training sample %d, stored label %d" % (metric, preds[q], q, labs[q]),
                              d, key="resub:learn")
    # ---- KNN-supervised: any data, ties included, any max_k
    NK = 80 if tier == "quick" else 6000
    for i in range(NK):
        it = K.gen_split_inst(rng, nmax=11 if tier == "quick" else 15)
        d = it.desc()
        from opfython.models.knn_supervised import KNNSupervisedOPF
        ntr = it.ntr
        max_k = rng.randint(1, min(5, ntr - 1))
        d["max_k"] = max_k
        opf, X, I = K.make_knn_model(it, KNNSupervisedOPF, max_k=max_k)
        tr = list(range(ntr)); va = list(range(ntr, it.n))
        try:
            opf.fit(X[tr].copy(), np.array([it.labels[j] for j in tr]), X[va].copy(), np.array([it.labels[j] for j in va]))
        except Exception as ex:
            nviol += 1
            if nviol <= 3:
                rep.violation("KNN-supervised fit raised %r" % (ex,), d, key="resub:knn")
            continue
        stats["knn"] += 1
        rep.count_case((it.key(), max_k), True)
        pl = [int(nd.predicted_label) for nd in opf.subgraph.nodes]
        want = [it.labels[j] for j in tr]
        if pl != want:
            q = [j for j in range(ntr) if pl[j] != want[j]][0]
            nviol += 1
            if nviol <= 3:
                rep.violation("KNN-supervised training assigned label %d to training sample %d (true label %d)" % (pl[q], q, want[q]), d, key="resub:knn")
    import large
    nviol += large.sup_large(rep, rng, tier, {"resub_offset"})
    rep.corr["knn_any_data"] = dict(cases=stats["knn"])
    rep.extra["oracle_violations"] = nviol
    rep.extra["eligible_metrics"] = ELIGIBLE
    rep.samples = [it.desc() for it in insts[:2]]
    rep.rule = ("supervised: for each of the %d metrics the axiom table marks symmetric + non-negative + zero-self (hamming excluded: integer-valued), random feature sets re-drawn until all "
                "pairwise distances are distinct, positive and symmetric; KNN-supervised: lattice/duplicate/random sets (heavy ties), max_k 1-5; distinct = distinct instance" % len(ELIGIBLE))
    rep.assumptions = supcheck.COMMON_ASSUMPTIONS + ["'distinct' is read as: off-diagonal distances pairwise distinct and distinct from the zero self-distance"]
    return rep.finish()


def replay(path):
    print(open(path).read()[:2000])
    return 0
