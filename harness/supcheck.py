"""Checks C01, C02, C03, C15 (supervised / semi-supervised training and prediction)."""
import random

from supcommon import *  # noqa

MODEL_FILES = ["Model/Heap", "Model/Sup", "Model/RunSup"]

COMMON_ASSUMPTIONS = [
    "all distances are finite, non-NaN and strictly below FLOAT_MAX (the 'not reached' sentinel)",
    "float values enter the model through a dense rank encoding (order isomorphism on the values that occur)",
    "the implementation is driven either through a metric on feature rows or through an in-memory pre-computed matrix",
]


def corr(rep, name, tag, terms, expect, metas):
    """Run the model on `terms`, compare with `expect`; returns list of indices that disagree."""
    import supcommon
    for ge in supcommon.GEN_ERRORS[:2]:
        rep.violation(ge["what"], dict(metric=ge["metric"], X=ge["X"], array_kind=ge["array_kind"]), key="typed_rows:" + ge["metric"])
    del supcommon.GEN_ERRORS[:]
    for pk in supcommon.POKED[:2]:
        rep.violation("%s: %s" % (pk["model"], pk["what"]), pk["instance"], key="rejected_assignment")
    del supcommon.POKED[:]
    try:
        got = run_cases(tag, terms, requires=("Model.Run", "Model.RunSup"))
    except RuntimeError as ex:
        rep.obligation(name, False, str(ex))
        return None
    bad = [i for i, (g, e) in enumerate(zip(got, expect)) if g != e]
    det = ""
    if bad:
        i = bad[0]
        det = "%d disagreements; first: %s\n model=%r\n impl =%r" % (len(bad), json.dumps(metas[i].desc())[:1500], got[i], expect[i])
    rep.obligation(name, not bad, det)
    return bad


def safe_dump(st, rk):
    if "error" in st:
        return ["error", st["error"]]
    try:
        return dump_expected(st, rk)
    except KeyError as ex:   # a cost that is not one of the arc weights / sentinels: cannot come from max/min selection
        return ["value outside the weight set", repr(ex)]


def dist_stats(insts):
    st = dict(kinds={}, sizes={}, metrics={}, classes={}, tied=0)
    for it in insts:
        st["kinds"][it.kind] = st["kinds"].get(it.kind, 0) + 1
        st["sizes"][it.n] = st["sizes"].get(it.n, 0) + 1
        st["metrics"][str(it.metric)] = st["metrics"].get(str(it.metric), 0) + 1
        k = len(set(it.labels)); st["classes"][k] = st["classes"].get(k, 0) + 1
        offd = [it.D[a][b] for a in range(it.n) for b in range(a + 1, it.n)]
        if len(set(offd)) < len(offd):
            st["tied"] += 1
    return st


def symmetric(inst, N):
    return all(inst.D[a][b] == inst.D[b][a] for a in range(N) for b in range(N))


def main_c01(tier, seed):
    setup_impl_env()
    rep = Report("C01", tier, seed)
    standard_proof_phase(rep, "C01", MODEL_FILES + ["Props/C01"])
    rng = random.Random(seed)
    N = 300 if tier == "quick" else 30000
    insts = [gen_instance(rng, nmax=10 if tier == "quick" else 16) for _ in range(N)]
    terms, expect, sts = [], [], []
    for it in insts:
        rk = ranker_for(it)
        try:
            _, st = impl_fit(it, reuse=(len(terms) % 2 == 1))   # every other training re-uses an already trained object
        except Exception as ex:  # implementation crashed
            st = dict(error=repr(ex))
        exp = safe_dump(st, rk)
        terms.append(term_fit(it, rk)); expect.append(exp); sts.append(st)
        rep.count_case(it.key(), it.n >= 3)
    bad = corr(rep, "correspondence Model/Sup.sup_fit vs SupervisedOPF.fit (cost, pred, labels, status, order)", "C01", terms, expect, insts)
    rep.corr["sup_fit"] = dict(cases=len(terms), disagreements=None if bad is None else len(bad), distribution=dist_stats(insts))
    nviol = 0
    for it, st in zip(insts, sts):
        if "error" in st:
            msg = "fit raised " + st["error"]
        else:
            protos = {q for q in range(it.n) if st["status"][q] == 1}
            msg = oracle_forest(st, it.D, it.n, it.labels, protos)
        if msg:
            nviol += 1
            if nviol <= 3:
                rep.violation("SupervisedOPF.fit result is not an optimum-path forest: " + msg, it.desc(), key="fit")
    import large
    nviol += large.sup_large(rep, rng, tier, {"forest"})
    rep.extra["oracle_violations"] = nviol
    rep.samples = [it.desc() for it in insts[:2]]
    rep.rule = ("training sets generated from (a) random/lattice feature rows under a metric from a pool of 19, (b) pre-computed symmetric "
                "matrices over alphabets of 1,2,3 weights (heavy ties, optional zero distances) or distinct weights; 2-4 classes; "
                "non-trivial = n >= 3; distinct = distinct (labels, distance matrix)")
    rep.assumptions = COMMON_ASSUMPTIONS
    return rep.finish()


def main_c02(tier, seed):
    setup_impl_env()
    rep = Report("C02", tier, seed)
    standard_proof_phase(rep, "C02", MODEL_FILES + ["Props/C02"])
    rng = random.Random(seed + 2)
    N = 300 if tier == "quick" else 24000
    insts = [gen_instance(rng, nmax=10 if tier == "quick" else 16, tie_free=(i % 4 == 0), m=(2 if i % 3 == 2 else 0)) for i in range(N)]
    terms, expect, sts = [], [], []
    semi_msgs = []
    for it in insts:
        rk = ranker_for(it)
        try:
            st = impl_prim(it, reuse=(len(terms) % 2 == 1))
            _, fst = impl_fit(it, reuse=(len(terms) % 2 == 1))
        except Exception as ex:
            st, fst = dict(error=repr(ex)), None
        exp = safe_dump(st, rk)
        terms.append(term_prim(it, rk)); expect.append(exp); sts.append((st, fst))
        rep.count_case(it.key(), it.n >= 3)
        # the property also covers semi-supervised training: same prototypes (among the labeled samples), each keeping cost 0,
        # no predecessor and its own label - with unlabeled samples, and with an EMPTY unlabeled set
        if "error" not in st and len(terms) % 3 == 0 and it.X is not None and getattr(it, "Xarr", None) is None:
            for nu_ in (0, min(2, it.m)):
                its = Instance(it.kind, it.X, it.labels, it.D, nu_, it.m - nu_, it.metric)
                try:
                    _, sst = impl_semi_fit(its)
                except Exception as ex:
                    semi_msgs.append((its, "semi-supervised fit with %d unlabeled samples raised %r" % (nu_, ex))); continue
                want = [q for q in range(it.n) if st["status"][q] == 1]
                got = [q for q in range(it.n + nu_) if sst["status"][q] == 1]
                msg = None
                if got != want:
                    msg = "semi-supervised prototypes %r differ from the class-crossing MST endpoints %r of the labeled samples" % (got, want)
                else:
                    for q in got:
                        if sst["cost"][q] != 0 or sst["pred"][q] != -1 or sst["plabel"][q] != it.labels[q] or sst["label"][q] != it.labels[q]:
                            msg = "prototype %d has cost %r, predecessor %d, label %d/%d after semi-supervised training with %d unlabeled samples" % (
                                q, sst["cost"][q], sst["pred"][q], sst["plabel"][q], sst["label"][q], nu_); break
                if msg:
                    semi_msgs.append((its, msg))
    for its, msg in semi_msgs[:3]:
        d_ = its.desc(); d_["unlabeled"] = its.nu
        rep.violation("prototype selection (semi-supervised): " + msg, d_, key="prototypes:semi")
    bad = corr(rep, "correspondence Model/Sup.find_prototypes vs SupervisedOPF._find_prototypes (keys, pred, status)", "C02", terms, expect, insts)
    rep.corr["find_prototypes"] = dict(cases=len(terms), disagreements=None if bad is None else len(bad), distribution=dist_stats(insts))
    nviol = 0
    for it, (st, fst) in zip(insts, sts):
        if not symmetric(it, it.n):
            continue
        msg = ("raised " + st["error"]) if "error" in st else oracle_prototypes(st, fst, it.D, it.n, it.labels)
        if msg:
            nviol += 1
            if nviol <= 3:
                rep.violation("prototype selection: " + msg, it.desc(), key="prototypes")
    import large
    nviol += large.sup_large(rep, rng, tier, {"prototypes"})
    rep.extra["oracle_violations"] = nviol
    rep.samples = [it.desc() for it in insts[:2]]
    rep.rule = "as C01; every 4th instance has pairwise distinct weights (uniqueness clause); non-trivial = n >= 3"
    rep.assumptions = COMMON_ASSUMPTIONS + ["symmetric weights"]
    return rep.finish()


def main_c03(tier, seed):
    setup_impl_env()
    rep = Report("C03", tier, seed)
    standard_proof_phase(rep, "C03", MODEL_FILES + ["Props/C03"])
    rng = random.Random(seed + 3)
    N = 250 if tier == "quick" else 20000
    insts = []
    for i in range(N):
        semi = (i % 5 == 4)
        insts.append((semi, gen_instance(rng, nmax=9 if tier == "quick" else 14, nu=rng.randint(0, 4) if semi else 0, m=rng.randint(1, 6),
                                         kinds=("feat", "mat", "lattice", "feat", "mat", "lattice", "tiny", "sparse", "asym", "asym", "literal", "gridcut", "zeroarcs", "nondiss", "nondiss", "tiny", "tiny", "bootstrap"))))
    terms, expect, recs = [], [], []
    prev = {}
    for ci, (semi, it) in enumerate(insts):
        rk = ranker_for(it)
        # every other case re-trains one long-lived object per class (fit, predict, fit on other data, predict ...):
        # the scan must use the forest of the latest training only
        reuse = (ci % 2 == 0)
        it.history = prev.get(semi) if reuse else None
        try:
            opf, st = impl_semi_fit(it, reuse=reuse) if semi else impl_fit(it, reuse=reuse)
            preds, rel = impl_predict(opf, it)
            exp = preds + rel
        except Exception as ex:
            st, preds, exp = dict(error=repr(ex)), None, ["error", repr(ex)]
        if reuse:
            prev[semi] = it
        terms.append(term_predict(it, rk, semi=semi)); expect.append(exp); recs.append((st, preds))
        rep.count_case(it.key(), it.n >= 3)
    bad = corr(rep, "correspondence Model/Sup.predict_batch vs SupervisedOPF/SemiSupervisedOPF.predict (labels, relevant flags)", "C03", terms, expect, [it for _, it in insts])
    rep.corr["predict"] = dict(cases=len(terms), queries=sum(it.m for _, it in insts), disagreements=None if bad is None else len(bad),
                               distribution=dist_stats([it for _, it in insts]), semi=sum(1 for s, _ in insts if s))
    nviol = 0
    for (semi, it), (st, preds) in zip(insts, recs):
        if preds is None:
            msg = "raised " + st["error"]
            nviol += 1
            if nviol <= 3:
                d = it.desc()
                if getattr(it, "history", None) is not None:
                    d["same_object_previously_fitted_and_queried_on"] = it.history.desc()
                rep.violation("predict " + msg, d, key="predict")
            continue
        nt = it.n + it.nu
        for qi in range(it.m):
            r = nt + qi
            msg = oracle_predict(st, [it.D[k][r] for k in range(nt)], preds[qi])
            if msg:
                nviol += 1
                if nviol <= 3:
                    d = it.desc(); d["query_row"] = qi; d["semi"] = semi
                    if getattr(it, "history", None) is not None:
                        d["same_object_previously_fitted_and_queried_on"] = it.history.desc()
                    rep.violation("prediction is not an exhaustive minimiser: " + msg, d, key="predict")
                break
    import large
    nviol += large.sup_large(rep, rng, tier, {"predict_big_batch"})
    import drive_streams
    nviol += drive_streams.bigint_matrix_predict(rep, rng, tier)
    rep.extra["oracle_violations"] = nviol
    rep.samples = [it.desc() for _, it in insts[:2]]
    rep.rule = "fitted models as in C01 (+ semi-supervised every 5th), 1-6 queries each: copies of training rows, midpoints, far points, random; non-trivial = n >= 3"
    rep.assumptions = COMMON_ASSUMPTIONS
    return rep.finish()


def main_c15(tier, seed):
    setup_impl_env()
    rep = Report("C15", tier, seed)
    standard_proof_phase(rep, "C15", MODEL_FILES + ["Props/C15"])
    rng = random.Random(seed + 15)
    N = 250 if tier == "quick" else 20000
    C15_KINDS = ("feat", "mat", "lattice", "feat", "mat", "lattice", "tiny", "sparse", "literal", "gridcut", "zeroarcs", "asym", "asym", "bootstrap")
    insts = [gen_instance(rng, nmax=8 if tier == "quick" else 12, nu=rng.choice([0, 0, 1, 2, 3, 5]), kinds=C15_KINDS) if i % 8 else gen_mixed_dtype_instance(rng)
             for i in range(N)]
    # tie-heavy grids with class-structured labels and an EMPTY unlabeled set (labeled samples conquered by another class): the
    # result must be the supervised one, labels included
    insts += [gen_instance(rng, nmax=8 if tier == "quick" else 12, nu=0, kinds=("gridcut",)) for _ in range(20 if tier == "quick" else 800)]
    terms, expect, sts = [], [], []
    for it in insts:
        rk = ranker_for(it)
        try:
            _, st = impl_semi_fit(it)
        except Exception as ex:
            st = dict(error=repr(ex))
        exp = safe_dump(st, rk)
        terms.append(term_semi_fit(it, rk)); expect.append(exp); sts.append(st)
        rep.count_case(it.key(), it.n + it.nu >= 3)
    bad = corr(rep, "correspondence Model/Sup.semi_fit vs SemiSupervisedOPF.fit (all node fields, order)", "C15", terms, expect, insts)
    rep.corr["semi_fit"] = dict(cases=len(terms), disagreements=None if bad is None else len(bad), distribution=dist_stats(insts),
                                unlabeled_sizes={str(k): sum(1 for it in insts if it.nu == k) for k in range(6)})
    nviol = 0
    for it, st in zip(insts, sts):
        if "error" in st:
            msg = "semi-supervised fit raised " + st["error"]
        else:
            Nn = it.n + it.nu
            protos = {q for q in range(Nn) if st["status"][q] == 1}
            true_label = it.labels + [None] * it.nu
            msg = None
            if any(q >= it.n for q in protos):
                msg = "an unlabeled sample is a prototype"
            msg = msg or oracle_forest(st, it.D, Nn, true_label, protos)
            if not msg:
                # unlabeled nodes carry (label and predicted_label) the true label of their root prototype
                for q in range(it.n, Nn):
                    r = q
                    while st["pred"][r] != -1:
                        r = st["pred"][r]
                    if st["label"][q] != it.labels[r]:
                        msg = "unlabeled sample %d has label %d, root prototype %d has %d" % (q, st["label"][q], r, it.labels[r]); break
            if not msg and it.nu == 0:
                _, sst = impl_fit(it)
                for f in ("cost", "pred", "plabel", "label", "status", "order"):
                    if sst[f] != st[f]:
                        msg = "empty unlabeled set: field %s differs from supervised training" % f; break
        if msg:
            nviol += 1
            if nviol <= 3:
                rep.violation("SemiSupervisedOPF.fit: " + msg, it.desc(), key="semi_fit:label_overwritten" if "field label" in msg else "semi_fit")
    import large
    nviol += large.sup_large(rep, rng, tier, {"semi"})
    rep.extra["oracle_violations"] = nviol
    rep.samples = [it.desc() for it in insts[:2]]
    rep.rule = "labeled sets as in C01 plus 0,1,2,3,5 unlabeled samples (a third of the cases have an empty unlabeled set); non-trivial = n_l+n_u >= 3"
    rep.assumptions = COMMON_ASSUMPTIONS
    return rep.finish()
