"""Shared generators, implementation runners and oracles for the supervised / semi-supervised
properties (C01, C02, C03, C04, C09-sup, C15)."""
import itertools
import math
import random
import sys

import numpy as np

from common import *  # noqa

FLOAT_MAX = sys.float_info.max

PLAIN_METRICS = ["log_squared_euclidean", "euclidean", "squared_euclidean", "manhattan", "chebyshev",
                 "gower", "lorentzian", "log_euclidean", "average_euclidean", "non_intersection"]
POS_METRICS = ["canberra", "chi_squared", "soergel", "bray_curtis", "squared", "clark", "jeffreys", "topsoe", "hellinger"]


# ----------------------------------------------------------------------------------------
# instances

class Instance:
    """n training samples (+ nu unlabeled, + m queries) with the full ordered distance matrix D over all points.

    points are numbered: 0..n-1 labeled training, n..n+nu-1 unlabeled, n+nu.. queries.
    D[a][b] = d(point a, point b) in the argument order the code uses (first argument = a)."""

    def __init__(self, kind, X, labels, D, nu=0, m=0, metric=None):
        self.kind, self.X, self.labels, self.D, self.nu, self.m, self.metric = kind, X, list(labels), D, nu, m, metric
        self.n = len(labels)
        self.Xarr = None
        self.forms = []      # how the arguments of this instance were handed to the library (harness/drive.py)

    def key(self):
        return (self.kind, self.metric, tuple(self.labels), tuple(map(tuple, self.D)), self.nu, self.m)

    def desc(self):
        return dict(kind=self.kind, metric=self.metric, n=self.n, nu=self.nu, m=self.m, labels=self.labels,
                    X=None if self.X is None else [list(map(float, r)) for r in self.X],
                    D=None if self.X is not None else [list(map(float, r)) for r in self.D],
                    argument_forms=list(self.forms))


def gen_labels(rng, n, kmax=4):
    k = rng.randint(2, min(kmax, n))
    while True:
        lab = [rng.randrange(k) for _ in range(n)]
        if len(set(lab)) == k:
            return lab


def metric_matrix(metric, X, arr=None):
    """D[a][b] = metric(row a, row b). With `arr` (a typed / strided numpy array) the very same row views the
    implementation will see are used, so dtype- or layout-dependent arithmetic is reproduced exactly."""
    import opfython.math.distance as d
    fn = d.DISTANCES[metric]
    N = len(X)
    D = [[0.0] * N for _ in range(N)]
    for a in range(N):
        for b in range(N):
            if arr is None:
                D[a][b] = float(fn(np.array(X[a], dtype=float), np.array(X[b], dtype=float)))
            else:
                D[a][b] = float(fn(arr[a], arr[b]))
    return D


def typed_array(rng, X, kind):
    """kind 'int': int64 rows (X must be integral); 'strided': a non-contiguous float64 view (every other column of a
    wider buffer, Fortran-ordered base)."""
    if kind == "int":
        return np.array(X, dtype=np.int64)
    base = np.asfortranarray(np.zeros((len(X), 2 * len(X[0]))))
    base[:, ::2] = np.array(X, dtype=float)
    base[:, 1::2] = 7.5
    return base[:, ::2]


GEN_ERRORS = []     # exceptions raised by the library while an instance was being prepared (flushed by supcheck.corr)


def gen_features(rng, n, nu, m, metric=None, lattice=False, tie_free=False, literal=False):
    dim = rng.randint(1, 4)
    N = n + nu + m
    pos = metric in POS_METRICS
    for _ in range(50):
        if lattice:
            # decorated ratio metrics accept exact zeros (the EPSILON shift), undecorated sqrt-based ones too
            X = [[float(rng.randint(0 if pos else -2, 4)) for _ in range(dim)] for _ in range(N)]
        else:
            X = [[(rng.random() * 9 + 0.5) if pos else (rng.random() * 20 - 10) for _ in range(dim)] for _ in range(N)]
            if pos and dim >= 2 and rng.random() < 0.5:
                # sparse non-negative rows (histograms, counts): exact zeros are in the domain of the decorated metrics
                X = [[0.0 if rng.random() < 0.3 else v for v in r] for r in X]
        if not lattice and (literal or rng.random() < 0.2):
            # data written as literals: some rows in whole numbers (the first row among them), the others with fractions
            X = [[float(round(v)) for v in r] if (i == 0 or rng.random() < 0.5) else [round(v) + rng.choice([0.25, 0.4, 0.5, 0.75]) for v in r]
                 for i, r in enumerate(X)]
        if m and not lattice:
            # some queries are copies of training rows, midpoints, or far away
            for i in range(n + nu, N):
                r = rng.random()
                if r < 0.3:
                    X[i] = list(X[rng.randrange(n)])
                elif r < 0.5:
                    a, b = X[rng.randrange(n)], X[rng.randrange(n)]
                    X[i] = [(u + v) / 2 for u, v in zip(a, b)]
                elif r < 0.6:
                    X[i] = [u * 50 + 100 for u in X[i]] if not pos else [u * 50 for u in X[i]]
        D = metric_matrix(metric, X)
        if any(v != v for r in D for v in r):
            continue
        if tie_free:
            offd = [D[a][b] for a in range(n + nu) for b in range(a + 1, n + nu)]
            sym = all(D[a][b] == D[b][a] for a in range(N) for b in range(N))
            if len(set(offd)) != len(offd) or min(offd, default=1) <= 0 or not sym:
                continue
        return X, D
    return None, None


def gen_matrix(rng, N, alphabet=None, symmetric=True, tie_free=False):
    D = [[0.0] * N for _ in range(N)]
    used = set()
    for a in range(N):
        for b in range(a + 1, N):
            if alphabet:
                v = rng.choice(alphabet)
            else:
                while True:
                    v = round(rng.random() * 100 + 0.001, 6)
                    if v not in used:
                        used.add(v)
                        break
            D[a][b] = v
            D[b][a] = v if symmetric else (rng.choice(alphabet) if alphabet else round(rng.random() * 100 + 0.001, 6))
    return D


def gen_instance(rng, nmax=10, nu=0, m=0, tie_free=False, kinds=("feat", "mat", "lattice", "feat", "mat", "lattice", "tiny", "sparse", "literal", "gridcut", "gridcut", "zeroarcs", "bootstrap", "tiny")):
    kind = rng.choice(kinds)
    if kind in ("gridcut", "zeroarcs") and tie_free:
        kind = "feat"
    if kind == "zeroarcs":
        # a symmetric matrix of distinct positive weights in which a few pairs of DIFFERENT samples are at distance exactly 0
        # (thresholded / quantised dissimilarities): zero does not mean "interchangeable"
        n = rng.randint(4, nmax)
        N = n + nu + m
        labels = gen_labels(rng, n)
        vals = rng.sample(range(1, 10 * N * N), N * (N - 1) // 2)
        D = [[0.0] * N for _ in range(N)]
        for a in range(N):
            for b in range(a + 1, N):
                D[a][b] = D[b][a] = float(vals.pop())
        order = list(range(N)); rng.shuffle(order)
        small = [0.05 * (j + 1) for j in range(4 * N)]
        rng.shuffle(small)
        for t in range(rng.randint(1, max(1, N // 3))):
            a, b = order[2 * t], order[2 * t + 1]
            D[a][b] = D[b][a] = 0.0
            # ... and are far from interchangeable: b is close to a few samples that are far from a (mostly of their own class)
            for s_ in rng.sample([v for v in range(N) if v not in (a, b)], min(N - 2, rng.randint(1, 3))):
                D[b][s_] = D[s_][b] = small.pop()
                if rng.random() < 0.7 and a < n and b < n and s_ < n:
                    labels[b] = labels[s_] = labels[a]
        if len(set(labels)) < 2:
            labels[order[-1] % n] = (labels[0] + 1) % 2 if max(labels) < 1 else [l for l in range(max(labels) + 1) if l != labels[0]][0]
        labels = [sorted(set(labels)).index(l) for l in labels]
        return Instance("zeroarcs", None, labels, D, nu, m, None)
    if kind == "bootstrap":
        # a resample with replacement over a pre-computed matrix: one or two samples occur twice (distance 0 between the two
        # copies, identical rows, same label); embed_matrix lets the copies share one row index
        for _ in range(20):
            n0 = rng.randint(3, max(3, nmax - 2))
            base = gen_matrix(rng, n0, None, tie_free=True)
            lab0 = gen_labels(rng, n0)
            extra_ = [rng.randrange(n0) for _ in range(rng.randint(1, 2))]
            src = list(range(n0)) + extra_
            rng.shuffle(src)
            n = len(src)
            N = n + nu + m
            D = [[0.0] * N for _ in range(N)]
            tail = gen_matrix(rng, N, None, tie_free=True)
            for a in range(N):
                for b in range(N):
                    if a < n and b < n:
                        D[a][b] = 0.0 if src[a] == src[b] else base[src[a]][src[b]]
                    elif a != b:
                        # unlabeled / query points: their own distinct weights, copies of a sample see them alike
                        ra, rb = (src[a] if a < n else n0 + a), (src[b] if b < n else n0 + b)
                        D[a][b] = tail[min(ra, N - 1) if ra < N else a][min(rb, N - 1) if rb < N else b] if False else tail[a][b]
            # make copies agree on their distances to the other points
            for a in range(n):
                for b in range(a):
                    if src[a] == src[b]:
                        for c_ in range(n, N):
                            D[a][c_] = D[b][c_]; D[c_][a] = D[c_][b]
            labels = [lab0[j] for j in src]
            if len(set(labels)) >= 2:
                labels = [sorted(set(labels)).index(l) for l in labels]
                return Instance("bootstrap", None, labels, D, nu, m, None)
        kind = "mat"
    if kind == "nondiss":
        # a "distance" that is not a dissimilarity (gaussian: d(x, x) = 1 is its LARGEST value); the scan rule of C03 is about
        # whatever function the model was given. Queries include exact copies of training rows.
        n = rng.randint(3, nmax)
        labels = gen_labels(rng, n)
        dim = rng.randint(1, 3)
        X = [[rng.uniform(-2, 2) for _ in range(dim)] for _ in range(n + nu + m)]
        for i in range(n + nu, n + nu + m):
            if rng.random() < 0.6:
                X[i] = list(X[rng.randrange(n)])
        D = metric_matrix("gaussian", X)
        return Instance("nondiss", X, labels, D, nu, m, "gaussian")
    if kind == "gridcut":
        # partially filled integer grid, classes split by diagonal lines (zero-based labels): many equal arc weights AND
        # class-structured labels, so some training samples are conquered by another class's tree and conquer others in turn
        for _ in range(20):
            gw, gh = rng.randint(2, 4), rng.randint(2, 4)
            cells = [[float(x), float(y)] for x in range(gw) for y in range(gh) if rng.random() < 0.75]
            rng.shuffle(cells)
            cells = cells[:nmax + 2]
            cut, three = rng.uniform(0.5, gw + gh - 2.5), rng.random() < 0.4
            labs = [(0 if c_[0] + c_[1] <= cut else (1 if (not three or c_[0] + c_[1] <= cut + 1.5) else 2)) for c_ in cells]
            if len(cells) >= 4 and sorted(set(labs)) == list(range(len(set(labs)))) and len(set(labs)) >= 2:
                break
        else:
            return gen_instance(rng, nmax, nu, m, tie_free, kinds=("lattice",))
        extra = [[float(rng.randint(-1, gw)), float(rng.randint(-1, gh))] for _ in range(nu + m)]
        metric = rng.choice(["euclidean", "manhattan", "squared_euclidean", "chebyshev", "log_squared_euclidean"])
        X = cells + extra
        return Instance("gridcut", X, labs, metric_matrix(metric, X), nu, m, metric)
    if kind == "literal":
        # rows as a user types them (whole numbers in some rows, fractions in others), handed over as lists / tuples / a list
        # of per-row arrays (see _rows)
        n = rng.randint(2, nmax)
        labels = gen_labels(rng, n)
        metric = rng.choice(["log_squared_euclidean", "euclidean", "manhattan", "canberra"])
        X, D = gen_features(rng, n, nu, m, metric, tie_free=tie_free, literal=True)
        if X is not None:
            return Instance("literal", X, labels, D, nu, m, metric)
        kind = "feat"
    if kind == "asym":
        # non-symmetric dissimilarities (C03 quantifies over every distance function): d(train, query) is what counts
        n = rng.randint(2, nmax)
        labels = gen_labels(rng, n)
        metric = rng.choice(["pearson", "neyman", "kullback_leibler", "k_divergence", "statistic"])
        dim = rng.randint(2, 4)
        X = [[rng.uniform(0.05, 9) for _ in range(dim)] for _ in range(n + nu + m)]
        if metric in ("kullback_leibler", "k_divergence"):
            X = [[v / sum(r) for v in r] for r in X]
        D = metric_matrix(metric, X)
        if not any(v != v for r in D for v in r):
            if rng.random() < 0.5:
                return Instance("asym-matrix", None, labels, D, nu, m, None)     # the same directed weights as a pre-computed matrix
            return Instance("asym", X, labels, D, nu, m, metric)
        kind = "feat"
    if kind == "sparse":
        # histogram-like rows: 5-8 non-negative bins, many of them exactly 0, under the decorated ratio metrics; somewhat
        # larger sets, since shared empty bins are what makes such data special
        n = rng.randint(max(2, min(8, nmax)), nmax + 8)
        labels = gen_labels(rng, n)
        metric = rng.choice(["canberra", "chi_squared", "soergel", "bray_curtis", "clark", "squared"])
        dim = rng.randint(5, 8)
        for _ in range(20):
            X = [[0.0 if rng.random() < 0.45 else float(rng.randint(1, 9)) + (0.0 if rng.random() < 0.5 else rng.random()) for _ in range(dim)]
                 for _ in range(n + nu + m)]
            D = metric_matrix(metric, X)
            if any(v != v for r in D for v in r):
                continue
            if tie_free:
                offd = [D[a][b] for a in range(n + nu) for b in range(a + 1, n + nu)]
                if len(set(offd)) != len(offd) or min(offd, default=1) <= 0 or any(D[a][b] != D[b][a] for a in range(n + nu + m) for b in range(n + nu + m)):
                    continue
            return Instance("sparse", X, labels, D, nu, m, metric)
        kind = "feat"
    if kind == "tiny":
        # features of very small magnitude: costs of order 1e-22 under squared metrics (the algorithms are order-only,
        # so the scale must not matter)
        n = rng.randint(2, nmax)
        labels = gen_labels(rng, n)
        metric = rng.choice(["squared_euclidean", "euclidean", "manhattan", "log_squared_euclidean"])
        sc = 10.0 ** rng.choice([-9, -11, -12])
        dim = rng.randint(1, 3)
        X = [[sc * rng.uniform(-10, 10) for _ in range(dim)] for _ in range(n + nu + m)]
        D = metric_matrix(metric, X)
        if not tie_free or len(set(D[a][b] for a in range(n + nu) for b in range(a + 1, n + nu))) == (n + nu) * (n + nu - 1) // 2:
            return Instance("tiny", X, labels, D, nu, m, metric)
        kind = "feat"
    n = rng.randint(2, nmax)
    labels = gen_labels(rng, n)
    if kind == "mat" and not tie_free and rng.random() < 0.2 and n >= 3:
        # bootstrap resample of a smaller base set: some points are exact copies of others (distance 0, equal rows)
        N = n + nu + m
        nb = max(2, N - rng.randint(1, 2))
        base = gen_matrix(rng, nb, [float(v) for v in rng.sample(range(1, 9), rng.choice([2, 3]))] if rng.random() < 0.6 else None)
        mp = list(range(nb)) + [rng.randrange(nb) for _ in range(N - nb)]
        rng.shuffle(mp)
        D = [[base[mp[a]][mp[b]] for b in range(N)] for a in range(N)]
        return Instance("boot", None, labels, D, nu, m, None)
    if kind == "mat":
        if tie_free:
            alphabet = None
            if rng.random() < 0.3:
                # distinct weights that are ALMOST equal (a few 1e-10 apart, relative): the algorithms compare exactly,
                # a tolerance would merge them
                base_ = [float(v) for v in rng.sample(range(1, 9), 2)]
                N_ = n + nu + m
                vals = [b_ * (1.0 + j_ * rng.choice([7e-11, 2e-10, 3e-10])) for b_ in base_ for j_ in range(N_ * N_)]
                vals = sorted(set(vals)); rng.shuffle(vals)
                D = [[0.0] * N_ for _ in range(N_)]
                for a_ in range(N_):
                    for b_ in range(a_ + 1, N_):
                        D[a_][b_] = D[b_][a_] = vals.pop()
                return Instance("neartie", None, labels, D, nu, m, None)
        else:
            k = rng.choice([1, 2, 3, 0])
            alphabet = [float(v) for v in rng.sample(range(1, 9), k)] if k else None
            if alphabet and rng.random() < 0.2:
                alphabet.append(0.0)   # zero distances between distinct samples
            if alphabet and rng.random() < 0.25:
                alphabet = alphabet + [v * (1.0 + 2e-10) for v in alphabet if v > 0]   # near-ties next to exact ties
        D = gen_matrix(rng, n + nu + m, alphabet)
        return Instance("mat", None, labels, D, nu, m, None)
    metric = rng.choice(PLAIN_METRICS + POS_METRICS) if (kind == "feat" or rng.random() < 0.4) else rng.choice(PLAIN_METRICS)
    X, D = gen_features(rng, n, nu, m, metric, lattice=(kind == "lattice") and not tie_free, tie_free=tie_free)
    if X is None:
        return gen_instance(rng, nmax, nu, m, tie_free, kinds=("mat",))
    inst = Instance(kind if not tie_free else "feat", X, labels, D, nu, m, metric)
    r = rng.random()
    if r < 0.25 and not tie_free:
        # the caller's array need not be a C-contiguous float64 array: integer dtype (lattice data) or a strided view
        tk = "int" if (kind == "lattice" and r < 0.12) else "strided"
        inst.Xarr = typed_array(rng, X, tk)
        try:
            inst.D = metric_matrix(metric, X, inst.Xarr)
        except Exception as ex:     # noqa - the metric refuses rows it accepts as float64 copies: reported by the caller's check
            GEN_ERRORS.append(dict(what="DISTANCES[%r] raised %r on %s rows of a caller array (the same values as float64 are accepted)" % (metric, ex, tk),
                                   metric=metric, X=X, array_kind=tk))
            inst.Xarr = None
            return inst
        inst.kind = inst.kind + "/" + tk
        if any(v != v for row in inst.D for v in row):
            inst.Xarr = None
            inst.D = D
    return inst


# ----------------------------------------------------------------------------------------
# running the implementation

def embed_matrix(D):
    """Embed the N x N matrix D into a larger matrix through a random row map idx (point a -> row idx[a]),
    all other entries being garbage, so that a node's position and its row index differ (the code must go through
    nodes[.].idx on both axes). Points that are copies of one another (identical rows/columns, distance 0 - a
    bootstrap resample) may share one row. Deterministic in D."""
    N = len(D)
    r = random.Random(hash(tuple(map(tuple, D))) & 0xFFFFFFFF)
    twins = {}
    for a in range(N):
        for b in range(a):
            if D[a][b] == 0 and D[b][a] == 0 and D[a][a] == D[b][b] == 0 and all(D[a][c] == D[b][c] and D[c][a] == D[c][b] for c in range(N)):
                twins[a] = twins.get(b, b)
                break
    M = N + r.randint(0, 3)
    idx = r.sample(range(M), N)
    if r.random() < 0.25:
        idx = list(range(N)); M = N          # the identity layout stays in the mix
    elif twins and r.random() < 0.7:
        for a, b in twins.items():
            idx[a] = idx[b]                   # a repeated index (the same underlying sample drawn twice)
    big = [[float(r.randint(0, 9)) + 0.5 for _ in range(M)] for _ in range(M)]
    for a in range(N):
        for b in range(N):
            big[idx[a]][idx[b]] = D[a][b]
    return np.array(big, dtype=float), np.array(idx)


import drive as _drive

_DRV = random.Random(20261001)       # argument forms / pokes / file-or-attribute: deterministic in the call sequence
FORM_METRICS = ("log_squared_euclidean", "euclidean", "manhattan", "canberra")   # dtype-changing forms only here (numba specialisations)
LAYOUT_FORMS = ("c", "c", "fortran", "strided", "readonly")
POKED = []                            # rejected assignments that left something behind (flushed by the checks)


def make_model(inst, cls):
    """Construct the model in the branch matching the instance (metric on features, or pre-computed matrix)."""
    if inst.X is not None:
        opf = cls(distance=inst.metric)
        X = np.array(inst.X, dtype=float) if inst.Xarr is None else inst.Xarr
        _drive.poke_report(opf, _DRV, 0.3, inst.desc())
        return opf, X, None
    big, idx = embed_matrix(inst.D)
    if _DRV.random() < 0.35:
        # through a file that re-uses one name for every matrix (a model built on the name sees the current content)
        path = _drive.matrix_file(big, _DRV)
        opf = cls(pre_computed_distance=path)
        inst.forms.append("matrix:" + os.path.basename(path))
    else:
        opf = cls()
        opf.pre_computed_distance = True
        opf.pre_distances = big
        inst.forms.append("matrix:attribute")
    _drive.poke_report(opf, _DRV, 0.3, inst.desc())
    N = len(inst.D)
    X = np.zeros((N, 1))
    return opf, X, idx


def _rows(inst, X, a, b):
    """rows a..b-1 as handed to the library: a copy normally, the raw (typed / strided) view for Xarr instances"""
    if getattr(inst, "Xarr", None) is not None:
        return X[a:b]
    if inst.X is None:
        return X[a:b].copy()
    obj, form = _drive.present(X[a:b], _DRV, ("lists", "tuples", "rowlist") if inst.kind == "literal" else _drive.FORMS if inst.metric in FORM_METRICS else LAYOUT_FORMS)
    inst.forms.append("X:" + form)
    return obj


def node_state(sg):
    return dict(cost=[float(x.cost) for x in sg.nodes], pred=[int(x.pred) for x in sg.nodes],
                plabel=[int(x.predicted_label) for x in sg.nodes], label=[int(x.label) for x in sg.nodes],
                status=[int(x.status) for x in sg.nodes], relevant=[int(x.relevant) for x in sg.nodes],
                order=[int(i) for i in sg.idx_nodes])


def _reconfigure(opf_new, inst, key):
    """one long-lived object per key, re-configured through its public attributes for this instance"""
    import opfython.math.distance as dmod
    if key in _REUSE:
        old = _REUSE[key]
        if inst.X is None:
            old.pre_computed_distance = True
            old.pre_distances = opf_new.pre_distances
        else:
            old.pre_computed_distance = False          # a matrix of an earlier training may stay attached
            old.distance = inst.metric
            old.distance_fn = dmod.DISTANCES[inst.metric]
        return old
    _REUSE[key] = opf_new
    return opf_new


def impl_prim(inst, reuse=False):
    from opfython.models.supervised import SupervisedOPF
    from opfython.core import Subgraph
    opf, X, I = make_model(inst, SupervisedOPF)
    if reuse:
        opf = _reconfigure(opf, inst, "prim")
    n = inst.n
    opf.subgraph = Subgraph(_rows(inst, X, 0, n), np.array(inst.labels), I=None if I is None else I[:n])
    opf._find_prototypes()
    return node_state(opf.subgraph)


_REUSE = {}


def impl_fit(inst, cls=None, reuse=False):
    """reuse=True: train an object that has already been trained on other data (same metric / same branch) -
    the property is about every training, not only the first one of an object."""
    from opfython.models.supervised import SupervisedOPF
    opf, X, I = make_model(inst, cls or SupervisedOPF)
    if reuse:
        # ONE object per model class, re-configured through its public attributes between trainings: metric,
        # pre-computed flag and matrix change from one training to the next (a matrix of an earlier training may
        # stay attached while the flag is off)
        import opfython.math.distance as dmod
        key = cls or SupervisedOPF
        if key in _REUSE:
            old = _REUSE[key]
            if inst.X is None:
                old.pre_computed_distance = True
                old.pre_distances = opf.pre_distances
            else:
                old.pre_computed_distance = False
                old.distance = inst.metric
                old.distance_fn = dmod.DISTANCES[inst.metric]
            opf = old
        _REUSE[key] = opf
    n = inst.n
    opf.fit(_rows(inst, X, 0, n), np.array(inst.labels), None if I is None else I[:n])
    return opf, node_state(opf.subgraph)


def gen_mixed_dtype_instance(rng, nmax=8):
    """labeled rows in an int64 array (grid features), unlabeled rows in a float64 array with fractional parts:
    the two arrays a caller passes to SemiSupervisedOPF.fit need not share a dtype."""
    import opfython.math.distance as d
    n, nu = rng.randint(2, nmax), rng.randint(1, 4)
    dim = rng.randint(1, 3)
    metric = rng.choice(["euclidean", "manhattan", "squared_euclidean", "chebyshev", "log_squared_euclidean"])
    Xl = np.array([[rng.randint(-3, 4) for _ in range(dim)] for _ in range(n)], dtype=np.int64)
    Xu = np.array([[rng.randint(-3, 4) + rng.choice([0.25, 0.5, 0.75]) for _ in range(dim)] for _ in range(nu)], dtype=float)
    rows = [Xl[i] for i in range(n)] + [Xu[j] for j in range(nu)]
    fn = d.DISTANCES[metric]
    D = [[float(fn(rows[a], rows[b])) for b in range(n + nu)] for a in range(n + nu)]
    inst = Instance("mixed_dtype", [list(map(float, r)) for r in rows], gen_labels(rng, n), D, nu, 0, metric)
    inst.mixed = (Xl, Xu)
    return inst


def impl_semi_fit(inst, reuse=False):
    """reuse=True: one long-lived SemiSupervisedOPF object is trained again and again (with predictions in between)"""
    from opfython.models.semi_supervised import SemiSupervisedOPF
    if getattr(inst, "mixed", None) is not None:
        opf = SemiSupervisedOPF(distance=inst.metric)
        opf.fit(inst.mixed[0], np.array(inst.labels), inst.mixed[1])
        return opf, node_state(opf.subgraph)
    opf, X, I = make_model(inst, SemiSupervisedOPF)
    if reuse:
        opf = _reconfigure(opf, inst, SemiSupervisedOPF)
    n, nu = inst.n, inst.nu
    if I is None:
        opf.fit(_rows(inst, X, 0, n), np.array(inst.labels), _rows(inst, X, n, n + nu))
    else:
        opf.fit(_rows(inst, X, 0, n), np.array(inst.labels), _rows(inst, X, n, n + nu), I[:n], I[n:n + nu])
    return opf, node_state(opf.subgraph)


def impl_predict(opf, inst, rows=None):
    """predict the query rows (default all m queries, in order); returns (preds, relevant flags after)"""
    n, nu, m = inst.n, inst.nu, inst.m
    rows = list(range(n + nu, n + nu + m)) if rows is None else rows
    if inst.X is not None:
        Xq = np.array([inst.X[r] for r in rows], dtype=float) if inst.Xarr is None else inst.Xarr[np.array(rows, dtype=int)]
        if inst.Xarr is None and len(rows):
            Xq, form = _drive.present(Xq, _DRV, ("lists", "tuples", "rowlist") if inst.kind == "literal" else _drive.FORMS if inst.metric in FORM_METRICS else LAYOUT_FORMS)
            inst.forms.append("Xq:" + form)
        preds = opf.predict(Xq) if _DRV.random() < 0.7 else opf.predict(X_val=Xq, I_val=None)
    else:
        Xq = np.zeros((len(rows), 1))
        _, idx = embed_matrix(inst.D)
        Iq = idx[np.array(rows, dtype=int)]
        preds = opf.predict(Xq, Iq) if _DRV.random() < 0.5 else opf.predict(Xq, I_val=Iq)
    return [int(p) for p in preds], [int(x.relevant) for x in opf.subgraph.nodes]


# ----------------------------------------------------------------------------------------
# encoding for the Coq model

def ranker_for(inst):
    vals = [0.0, FLOAT_MAX] + [v for r in inst.D for v in r]
    return Ranker(vals)


def wflat(inst, rk, N):
    return [rk.r(inst.D[a][b]) for a in range(N) for b in range(N)]


def dump_expected(st, rk):
    return ([rk.r(c) for c in st["cost"]] + st["pred"] + st["plabel"] + st["label"] + st["status"]
            + st["relevant"] + st["order"])


def term_prim(inst, rk):
    return "run_prim %d %d %s %s" % (rk.r(0.0), rk.r(FLOAT_MAX), zlist(inst.labels), zlist(wflat(inst, rk, inst.n)))


def term_fit(inst, rk):
    return "run_sup_fit %d %d %s %s" % (rk.r(0.0), rk.r(FLOAT_MAX), zlist(inst.labels), zlist(wflat(inst, rk, inst.n)))


def term_semi_fit(inst, rk):
    N = inst.n + inst.nu
    return "run_semi_fit %d %d %s %d %s" % (rk.r(0.0), rk.r(FLOAT_MAX), zlist(inst.labels), inst.nu, zlist(wflat(inst, rk, N)))


def term_predict(inst, rk, rows=None, semi=False):
    n, nu, m = inst.n, inst.nu, inst.m
    nt = n + nu if semi else n
    rows = list(range(n + nu, n + nu + m)) if rows is None else rows
    dfl = [rk.r(inst.D[k][r]) for r in rows for k in range(nt)]
    if semi:
        return "run_semi_predict %d %d %s %d %s %d %s" % (rk.r(0.0), rk.r(FLOAT_MAX), zlist(inst.labels), nu,
                                                        zlist(wflat(inst, rk, nt)), len(rows), zlist(dfl))
    return "run_sup_predict %d %d %s %s %d %s" % (rk.r(0.0), rk.r(FLOAT_MAX), zlist(inst.labels),
                                                   zlist(wflat(inst, rk, n)), len(rows), zlist(dfl))


# ----------------------------------------------------------------------------------------
# oracles: the properties themselves, evaluated on the implementation's own outputs

def minimax_costs(D, N, protos):
    """Exact optimum max-arc path costs from the prototype set over the complete directed graph on 0..N-1."""
    INF = float("inf")
    cost = [0.0 if i in protos else INF for i in range(N)]
    done = [False] * N
    for _ in range(N):
        u = min((i for i in range(N) if not done[i]), key=lambda i: cost[i], default=None)
        if u is None or cost[u] == INF:
            break
        done[u] = True
        for v in range(N):
            if not done[v]:
                c = max(cost[u], D[u][v])
                if c < cost[v]:
                    cost[v] = c
    return cost


def oracle_forest(st, D, N, true_label, protos, check_labels=True):
    """C01 / C15: optimum-path forest under the max-arc cost. Returns None or a message."""
    cost, pred, plabel, order = st["cost"], st["pred"], st["plabel"], st["order"]
    if not protos:
        return "no prototype"
    opt = minimax_costs(D, N, protos)
    for q in range(N):
        if cost[q] != opt[q]:
            return "cost of sample %d is %r, optimum max-arc path cost is %r" % (q, cost[q], opt[q])
    for q in range(N):
        if q in protos:
            if cost[q] != 0 or pred[q] != -1:
                return "prototype %d has cost %r pred %d" % (q, cost[q], pred[q])
            if check_labels and plabel[q] != true_label[q]:
                return "prototype %d carries label %d, true label %d" % (q, plabel[q], true_label[q])
        else:
            p = pred[q]
            if not (0 <= p < N) or p == q:
                return "sample %d has predecessor %d" % (q, p)
            if cost[q] != max(cost[p], D[p][q]):
                return "link equation fails at %d: cost %r, parent %d cost %r, arc %r" % (q, cost[q], p, cost[p], D[p][q])
    for q in range(N):
        seen, r = set(), q
        while pred[r] != -1:
            if r in seen:
                return "predecessor links cycle through %d" % r
            seen.add(r)
            r = pred[r]
        if r not in protos:
            return "sample %d reaches non-prototype root %d" % (q, r)
        if check_labels and plabel[q] != true_label[r]:
            return "sample %d has label %d, its root prototype %d has true label %d" % (q, plabel[q], r, true_label[r])
    if sorted(order) != list(range(N)):
        return "conquest order %r is not a permutation of all samples" % order
    if any(cost[order[i]] > cost[order[i + 1]] for i in range(N - 1)):
        return "conquest order is not non-decreasing in cost"
    return None


def kruskal_weights(D, n):
    edges = sorted((D[a][b], a, b) for a in range(n) for b in range(a + 1, n))
    parent = list(range(n))
    def find(x):
        while parent[x] != x:
            parent[x] = parent[parent[x]]
            x = parent[x]
        return x
    ws, tree = [], []
    for w, a, b in edges:
        ra, rb = find(a), find(b)
        if ra != rb:
            parent[ra] = rb
            ws.append(w); tree.append((a, b))
    return ws, tree


def oracle_prototypes(prim_st, fit_st, D, n, labels):
    """C02: prototypes = class-crossing endpoints of an MST (the one Prim built); every class has one;
    prototypes keep cost 0 and own label after training."""
    pred = prim_st["pred"]
    arcs = [(pred[q], q) for q in range(n) if pred[q] != -1]
    if len(arcs) != n - 1 or pred[0] != -1:
        return "Prim predecessor map is not a spanning tree rooted at sample 0: %r" % pred
    for q in range(n):
        seen, r = set(), q
        while pred[r] != -1:
            if r in seen:
                return "Prim predecessor links cycle"
            seen.add(r); r = pred[r]
        if r != 0:
            return "sample %d does not reach the Prim root" % q
    kw, _ = kruskal_weights(D, n)
    if sorted(D[a][b] for a, b in arcs) != sorted(kw):
        return "Prim tree is not a minimum spanning tree: weights %r vs MST weights %r" % (sorted(D[a][b] for a, b in arcs), sorted(kw))
    expect = set()
    for a, b in arcs:
        if labels[a] != labels[b]:
            expect.add(a); expect.add(b)
    got = {q for q in range(n) if prim_st["status"][q] == 1}
    if got != expect:
        return "prototypes %r are not the class-crossing endpoints %r of the spanning tree" % (sorted(got), sorted(expect))
    if len(set(labels)) >= 2:
        for c in set(labels):
            if not any(labels[q] == c for q in got):
                return "class %d has no prototype" % c
    if fit_st is not None:
        gotf = {q for q in range(n) if fit_st["status"][q] == 1}
        if gotf != got:
            return "prototype set after fit differs from the one chosen by the MST pass"
        for q in got:
            if fit_st["cost"][q] != 0 or fit_st["plabel"][q] != labels[q]:
                return "prototype %d has cost %r / label %d after training" % (q, fit_st["cost"][q], fit_st["plabel"][q])
    # uniqueness under distinct weights: the prototype set equals the one derived from the unique MST
    offd = [D[a][b] for a in range(n) for b in range(a + 1, n)]
    if len(set(offd)) == len(offd):
        _, tree = kruskal_weights(D, n)
        uniq = set()
        for a, b in tree:
            if labels[a] != labels[b]:
                uniq.add(a); uniq.add(b)
        if uniq != got:
            return "distinct weights: prototypes %r differ from the unique MST's %r" % (sorted(got), sorted(uniq))
    return None


def oracle_predict(fit_st, dcol, pred_label):
    """C03: the label is that of a training sample minimising max(cost, d)."""
    cost, plabel = fit_st["cost"], fit_st["plabel"]
    vals = [max(cost[t], dcol[t]) for t in range(len(cost))]
    best = min(vals)
    ok = {plabel[t] for t in range(len(cost)) if vals[t] == best}
    if pred_label not in ok:
        return "predicted label %d; the minimisers of max(cost, d) (value %r) carry labels %r" % (pred_label, best, sorted(ok))
    return None
