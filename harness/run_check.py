import argparse, importlib, os, sys, traceback
ap = argparse.ArgumentParser()
ap.add_argument("pid")
ap.add_argument("--tier", default=os.environ.get("VERIF_TIER", "quick"))
ap.add_argument("--replay")
a = ap.parse_args()
seed = int(os.environ.get("VERIF_SEED", "20260930"))
mod = importlib.import_module(a.pid.lower())
if a.replay:
    sys.exit(mod.replay(a.replay))
sys.exit(mod.main(a.tier, seed))
