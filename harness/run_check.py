import argparse, importlib, json, os, sys, traceback
ap = argparse.ArgumentParser()
ap.add_argument("pid")
ap.add_argument("--tier", default=os.environ.get("VERIF_TIER", "quick"))
ap.add_argument("--replay")
a = ap.parse_args()
seed = int(os.environ.get("VERIF_SEED", "20260930"))
mod = importlib.import_module(a.pid.lower())
if a.replay:
    sys.exit(mod.replay(a.replay))
try:
    rc = mod.main(a.tier, seed)
except SystemExit:
    raise
except BaseException:   # noqa
    # The implementation (or the harness driving it) raised where the unchanged tree never does: the correspondence of
    # this property could not be completed. That is reported like any other obligation that no longer checks.
    import common
    tb = traceback.format_exc()
    d = os.path.join(common.BUILD, "replay")
    os.makedirs(d, exist_ok=True)
    path = os.path.join(d, "%s_correspondence_aborted.json" % a.pid.upper())
    json.dump(dict(property=a.pid.upper(), broken=[dict(name="correspondence run of %s (tier %s, seed %d) aborted by an exception" % (a.pid.upper(), a.tier, seed),
                                                     detail=tb[-4000:])],
                   note="no concrete failing input isolated: the run aborted before the search finished"), open(path, "w"), indent=1)
    sys.stderr.write(tb)
    print("VIOLATION property=%s replay=%s no-failing-input-found" % (a.pid.upper(), path))
    rc = 1
sys.exit(rc)
