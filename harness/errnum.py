"""Number systems shared by the IR interpreter (translator/eval_ir.py) and the reference closed forms
(harness/metric_ref.py).  A formula is written once against an `ops` object and evaluated

  * FloatOps  - plain Python floats (`math`), the way the formula reads
  * DecOps    - `decimal` at 60 significant digits: the "exact" value (inputs are converted exactly)
  * ErrOps    - floats carrying a running bound on the accumulated rounding error (first-order running
                error analysis, u = 2^-53).  The bound is what makes the comparison with numpy
                conditioning-aware: |numpy - exact| is allowed to be rtol*|exact| + K*bound.  A
                `Straddle` is raised when the bound cannot separate an argument from the edge of an
                operation's domain or from a branch point (sqrt/log near 0, division by ~0, a
                comparison whose sides are closer than their error): the real-number value and the
                float value may then differ discontinuously, and such inputs are skipped and counted.
"""
import decimal
import math
from decimal import Decimal

U = 2.0 ** -53


class DomainError(ArithmeticError):
    """outside the domain of the real-number formula (log of a non-positive, ...)"""


class Straddle(ArithmeticError):
    """the rounding-error bound reaches a domain edge or a branch point"""


class FloatOps:
    name = "float"

    def const(self, num, den=1):
        return num / den

    def of_float(self, v):
        return float(v)

    def sqrt(self, a):
        if a < 0:
            raise DomainError("sqrt of a negative")
        return math.sqrt(a)

    def log(self, a):
        if a <= 0:
            raise DomainError("log of a non-positive")
        return math.log(a)

    def exp(self, a):
        return math.exp(a)

    def div(self, a, b):
        if b == 0:
            raise DomainError("division by zero")
        return a / b

    def abs(self, a):
        return abs(a)

    def min(self, a, b):
        return a if a <= b else b

    def max(self, a, b):
        return a if a >= b else b

    def ne(self, a, b):
        return a != b

    def le(self, a, b):
        return a <= b

    def lt(self, a, b):
        return a < b

    def value(self, a):
        return float(a)


class DecOps(FloatOps):
    name = "decimal"

    def __init__(self, prec=60):
        self.ctx = decimal.Context(prec=prec, Emax=decimal.MAX_EMAX, Emin=decimal.MIN_EMIN)
        decimal.setcontext(self.ctx)      # + - * / on Decimal use the thread's context

    def const(self, num, den=1):
        return self.ctx.divide(Decimal(num), Decimal(den))

    def of_float(self, v):
        return Decimal(float(v))          # exact

    def sqrt(self, a):
        if a < 0:
            raise DomainError("sqrt of a negative")
        return a.sqrt(self.ctx)

    def log(self, a):
        if a <= 0:
            raise DomainError("log of a non-positive")
        return a.ln(self.ctx)

    def exp(self, a):
        return a.exp(self.ctx)


class EF:
    """float value with an absolute error bound"""
    __slots__ = ("v", "e")

    def __init__(self, v, e=0.0):
        self.v, self.e = float(v), float(e)

    @staticmethod
    def lift(o):
        return o if isinstance(o, EF) else EF(o)

    def _r(self, v, e):
        return EF(v, e + U * abs(v))

    def __add__(self, o):
        o = EF.lift(o)
        return self._r(self.v + o.v, self.e + o.e)

    __radd__ = __add__

    def __sub__(self, o):
        o = EF.lift(o)
        return self._r(self.v - o.v, self.e + o.e)

    def __rsub__(self, o):
        return EF.lift(o).__sub__(self)

    def __mul__(self, o):
        o = EF.lift(o)
        return self._r(self.v * o.v, abs(self.v) * o.e + abs(o.v) * self.e + self.e * o.e)

    __rmul__ = __mul__

    def __neg__(self):
        return EF(-self.v, self.e)

    def __pow__(self, k):
        assert k == 2
        return self * self

    def __repr__(self):
        return "EF(%r, %.3g)" % (self.v, self.e)


class ErrOps(FloatOps):
    name = "err"

    def const(self, num, den=1):
        v = num / den
        return EF(v, 0.0 if den == 1 or (den & (den - 1)) == 0 else U * abs(v))

    def of_float(self, v):
        return EF(v, 0.0)

    def sqrt(self, a):
        a = EF.lift(a)
        if a.v - a.e <= 0:
            if a.v == 0 and a.e == 0:
                return EF(0.0)
            raise Straddle("sqrt near 0")
        r = math.sqrt(a.v)
        return EF(r, a.e / (2 * math.sqrt(a.v - a.e)) + U * r)

    def log(self, a):
        a = EF.lift(a)
        if a.v - a.e <= 0:
            raise Straddle("log near/below 0")
        r = math.log(a.v)
        return EF(r, a.e / (a.v - a.e) + U * abs(r))

    def exp(self, a):
        a = EF.lift(a)
        r = math.exp(a.v)
        return EF(r, r * math.expm1(a.e) + 2 * U * r)

    def div(self, a, b):
        a, b = EF.lift(a), EF.lift(b)
        lo = abs(b.v) - b.e
        if lo <= 0:
            raise Straddle("division by ~0")
        r = a.v / b.v
        return EF(r, (a.e + abs(r) * b.e) / lo + U * abs(r))

    def abs(self, a):
        a = EF.lift(a)
        return EF(abs(a.v), a.e)

    def _sep(self, a, b):
        a, b = EF.lift(a), EF.lift(b)
        if a.e == 0 and b.e == 0:
            return a, b
        if abs(a.v - b.v) <= a.e + b.e:
            raise Straddle("comparison within the error bound")
        return a, b

    def min(self, a, b):
        a, b = EF.lift(a), EF.lift(b)
        if a.v + a.e < b.v - b.e:
            return a
        if b.v + b.e < a.v - a.e:
            return b
        return EF(min(a.v, b.v), max(a.e, b.e))

    def max(self, a, b):
        a, b = EF.lift(a), EF.lift(b)
        if a.v - a.e > b.v + b.e:
            return a
        if b.v - b.e > a.v + a.e:
            return b
        return EF(max(a.v, b.v), max(a.e, b.e))

    def ne(self, a, b):
        a, b = self._sep(a, b)
        return a.v != b.v

    def le(self, a, b):
        a, b = self._sep(a, b)
        return a.v <= b.v

    def lt(self, a, b):
        a, b = self._sep(a, b)
        return a.v < b.v

    def value(self, a):
        return EF.lift(a).v


def total(ops, terms):
    """left-to-right sum in the number system of `ops`"""
    acc = ops.const(0)
    for t in terms:
        acc = acc + t
    return acc
