"""C17 - learning conserves samples and keeps the best model; relevance marking; pruning only discards."""
import copy
import itertools
import random

from supcommon import *  # noqa
from supcheck import MODEL_FILES, corr, dist_stats, COMMON_ASSUMPTIONS
import learnfull


def path_to_root(pred, t):
    out = [t]
    seen = {t}
    while pred[t] != -1:
        t = pred[t]
        if t in seen:
            break
        seen.add(t); out.append(t)
    return out


def oracle_relevant(st, D, nt, rows, relevant):
    """relevant == union over queries of the root path of a training sample that won the query
    (with ties any minimiser of max(cost, d) may be the winner)."""
    cost, pred = st["cost"], st["pred"]
    options = []
    for r in rows:
        vals = [max(cost[t], D[t][r]) for t in range(nt)]
        best = min(vals)
        options.append([frozenset(path_to_root(pred, t)) for t in range(nt) if vals[t] == best])
    R = frozenset(i for i in range(nt) if relevant[i] == 1)
    total = 1
    for o in options:
        total *= len(set(o))
        if total > 5000:
            break
    if total <= 5000:
        for choice in itertools.product(*[sorted(set(o), key=sorted) for o in options]):
            if frozenset().union(*choice) == R:
                return None
        return "relevant set %r is not the union of root paths of winners (winner options per query: %r)" % (
            sorted(R), [[sorted(p) for p in set(o)] for o in options])
    allowed = frozenset().union(*[p for o in options for p in o])
    if not R <= allowed:
        return "sample(s) %r flagged relevant but on no winner's root path" % sorted(R - allowed)
    for o in options:
        if not any(p <= R for p in o):
            return "a query's winner path is not fully flagged"
    return None


def run_learn(it_tr, Xtr, Ytr, Xva, Yva, n_iter, draws_seed):
    """Runs SupervisedOPF.learn on copies; returns (arrays after, per-iteration records, final state, object, trace)
    or raises.  trace = dict(draws=[every j drawn, in call order], best_calls=[iteration index at each deepcopy(self)])."""
    import types
    import opfython.math.general as g
    import opfython.math.random as r
    import opfython.models.supervised as sup_mod
    from opfython.models.supervised import SupervisedOPF
    opf = SupervisedOPF(distance=it_tr)
    Xtr, Ytr, Xva, Yva = Xtr.copy(), Ytr.copy(), Xva.copy(), Yva.copy()
    if draws_seed % 3 == 2:
        # the caller's feature matrices need not be C-contiguous: column-strided views of wider buffers
        def strided(A):
            wide = np.full((A.shape[0], 2 * A.shape[1]), 7.5)
            wide[:, ::2] = A
            return wide[:, ::2]
        Xtr, Xva = strided(Xtr), strided(Xva)
    recs = []
    trace = dict(draws=[], best_calls=[])
    orig_acc, orig_rand, orig_copy = g.opf_accuracy, r.generate_uniform_random_number, sup_mod.copy

    def wacc(labels, preds):
        v = orig_acc(labels, preds)
        recs.append(dict(acc=float(v), state=node_state(opf.subgraph), Xtr=Xtr.copy(), Ytr=Ytr.copy(),
                         Xva=Xva.copy(), Yva=Yva.copy(),
                         errs=[int(e) for e in np.argwhere(np.asarray(labels) != np.asarray(preds)).ravel()]))
        return v

    def wrand(*a, **k):
        v = orig_rand(*a, **k)
        trace["draws"].append(int(v[0]))
        return v

    def wdeepcopy(x, *a, **k):
        if x is opf:
            trace["best_calls"].append(len(recs) - 1)
        return orig_copy.deepcopy(x, *a, **k)
    np.random.seed(draws_seed)
    g.opf_accuracy = wacc
    r.generate_uniform_random_number = wrand
    sup_mod.copy = types.SimpleNamespace(deepcopy=wdeepcopy, copy=orig_copy.copy)
    try:
        opf.learn(Xtr, Ytr, Xva, Yva, n_iterations=n_iter)
    finally:
        g.opf_accuracy = orig_acc
        r.generate_uniform_random_number = orig_rand
        sup_mod.copy = orig_copy
    return (Xtr, Ytr, Xva, Yva), recs, node_state(opf.subgraph), opf, trace


class RowIds:
    """Every distinct feature row of a case gets an integer id (rows are only moved by learn / prune)."""

    def __init__(self, *arrays):
        self.ids = {}
        for A in arrays:
            for x in A:
                self.ids.setdefault(tuple(map(float, x)), len(self.ids))

    def of(self, A):
        return [self.ids.get(tuple(map(float, x)), -1) for x in A]


def learn_term(desc, recs, trace):
    """The Coq term running Model/Learn.learn on what the real run saw, or None when an accuracy is NaN."""
    ids = desc["_ids"]
    accs, smalls, prev = [], [], 0
    for rcd in recs:
        a = rcd["acc"]
        if a != a:
            return None
        accs.append(enc(a))
        smalls.append(1 if np.fabs(a - prev) < 0.0001 else 0)
        prev = a
    errss = [rcd["errs"] for rcd in recs]
    protos = [[1 if s == 1 else 0 for s in rcd["state"]["status"]] for rcd in recs]
    return "run_learn %d %s %s %s %s %s %s %s %s %s" % (
        desc["n_iterations"], zlist(ids.of(desc["Xtr"])), zlist(desc["Ytr"]), zlist(ids.of(desc["Xva"])), zlist(desc["Yva"]),
        zlist(accs), zlist(smalls), zlistlist(errss), zlistlist(protos), zlist(trace["draws"]))


def learn_expected(desc, arrays, recs, opf, trace):
    ids = desc["_ids"]
    Xt2, Yt2, Xv2, Yv2 = arrays
    best_t = trace["best_calls"][-1] if trace["best_calls"] else -1
    snapX = ids.of([nd.features for nd in opf.subgraph.nodes])
    snapY = [int(nd.label) for nd in opf.subgraph.nodes]
    return ([best_t, len(recs), 0] + ids.of(Xt2) + [int(y) for y in Yt2] + ids.of(Xv2) + [int(y) for y in Yv2]
            + snapX + snapY)


def run_prune(metric, Xtr, Ytr, Xva, Yva, n_iter):
    """Runs SupervisedOPF.prune; returns (object, relevance flags after each predict call)."""
    from opfython.models.supervised import SupervisedOPF
    opf = SupervisedOPF(distance=metric)
    flagss = []
    orig_predict = SupervisedOPF.predict

    def wpredict(self, *a, **k):
        out = orig_predict(self, *a, **k)
        flagss.append([1 if int(nd.relevant) != 0 else 0 for nd in self.subgraph.nodes])
        return out
    SupervisedOPF.predict = wpredict
    try:
        opf.prune(Xtr, Ytr, Xva, Yva, n_iterations=n_iter)
    finally:
        SupervisedOPF.predict = orig_predict
    return opf, flagss


class _Meta:
    def __init__(self, d):
        self.d = d

    def desc(self):
        return {k: v for k, v in self.d.items() if not k.startswith("_")}


def multiset(X, Y):
    return sorted((tuple(map(float, x)), int(y)) for x, y in zip(X, Y))


def corr_learn(rep, name, tag, terms, expect, metas):
    if not terms:
        rep.obligation(name, True, "no cases")
        return []
    try:
        got = run_cases(tag, terms, requires=("Model.Run", "Model.RunLearn"))
    except RuntimeError as ex:
        rep.obligation(name, False, str(ex))
        return None
    bad = [i for i, (g_, e_) in enumerate(zip(got, expect)) if g_ != e_]
    det = ""
    if bad:
        i = bad[0]
        det = "%d disagreements; first: %s\n model=%r\n impl =%r" % (len(bad), json.dumps(metas[i].desc())[:1500], got[i], expect[i])
    rep.obligation(name, not bad, det)
    return bad


def main(tier, seed):
    setup_impl_env()
    from opfython.models.supervised import SupervisedOPF
    rep = Report("C17", tier, seed)
    standard_proof_phase(rep, "C17", MODEL_FILES + ["Model/Learn", "Model/RunLearn", "Proofs/Predict", "Proofs/PredictRel",
                                                    "Proofs/Learn", "Props/C17"] + learnfull.MODEL_FILES)
    rng = random.Random(seed + 17)
    nviol = 0
    # ---- (a) relevance marking: correspondence (through run_sup_predict) + oracle
    N = 200 if tier == "quick" else 16000
    terms, expect, insts = [], [], []
    for i in range(N):
        it = gen_instance(rng, nmax=8 if tier == "quick" else 12, m=rng.randint(1, 4))
        rk = ranker_for(it)
        try:
            opf, st = impl_fit(it)
            preds, rel = impl_predict(opf, it)
        except Exception as ex:
            nviol += 1
            if nviol <= 3:
                rep.violation("fit/predict raised " + repr(ex), it.desc(), key="relevant")
            continue
        terms.append(term_predict(it, rk)); expect.append(preds + rel); insts.append(it)
        rep.count_case(it.key(), it.n >= 3)
        rows = list(range(it.n, it.n + it.m))
        msg = oracle_relevant(st, it.D, it.n, rows, rel)
        if msg:
            nviol += 1
            if nviol <= 3:
                rep.violation("relevance marking after predict: " + msg, it.desc(), key="relevant:first_in_order_wins")
    bad = corr(rep, "correspondence Model/Sup.predict_batch (mark_nodes) vs SupervisedOPF.predict: relevant flags after a prediction pass", "C17rel", terms, expect, insts)
    rep.corr["relevant"] = dict(cases=len(terms), disagreements=None if bad is None else len(bad))
    # ---- (b) learn: conservation + best model kept (oracle on the real arrays)
    NL = 60 if tier == "quick" else 4000
    lstats = dict(runs=0, draws=0, iterations=0, crashed=0)
    lterms, lexpect, lmetas = [], [], []
    for i in range(NL):
        metric = rng.choice(["euclidean", "squared_euclidean", "manhattan", "log_squared_euclidean"])
        ntr, nva, dim = rng.randint(4, 9), rng.randint(2, 6), rng.randint(1, 3)
        k = rng.randint(2, min(3, ntr, nva))
        def lab(cnt):
            while True:
                l = [rng.randrange(k) for _ in range(cnt)]
                if len(set(l)) == k:
                    return l
        centers = [[rng.random() * 10 for _ in range(dim)] for _ in range(k)]
        Ytr, Yva = lab(ntr), lab(nva)
        noise = rng.choice([0.5, 3.0, 8.0])
        Xtr = np.array([[c + rng.gauss(0, noise) for c in centers[y]] for y in Ytr])
        Xva = np.array([[c + rng.gauss(0, noise) for c in centers[y]] for y in Yva])
        Ytr, Yva = np.array(Ytr), np.array(Yva)
        n_iter = rng.randint(1, 4)
        desc = dict(metric=metric, Xtr=Xtr.tolist(), Ytr=Ytr.tolist(), Xva=Xva.tolist(), Yva=Yva.tolist(), n_iterations=n_iter, np_seed=i)
        before = multiset(np.vstack([Xtr, Xva]), np.hstack([Ytr, Yva]))
        try:
            (Xt2, Yt2, Xv2, Yv2), recs, final, opf, trace = run_learn(metric, Xtr, Ytr, Xva, Yva, n_iter, i)
        except IndexError as ex:
            # swaps can empty a class out of the validation labels; opf_accuracy then indexes out of range
            # (its domain is 'every class present among the true labels', C20) - not a C17 matter
            lstats["out_of_domain_accuracy"] = lstats.get("out_of_domain_accuracy", 0) + 1
            continue
        except Exception as ex:
            lstats["crashed"] += 1
            nviol += 1
            key = "learn:raises:" + type(ex).__name__
            rep.violation("SupervisedOPF.learn raised %r" % (ex,), desc, key=key)
            continue
        lstats["runs"] += 1; lstats["iterations"] += len(recs); lstats["draws"] += len(trace["draws"])
        lstats["runs_with_exchange"] = lstats.get("runs_with_exchange", 0) + (1 if (Xt2 != Xtr).any() or (Yt2 != Ytr).any() else 0)
        cd = dict(desc); cd["_ids"] = RowIds(Xtr, Xva)
        term = learn_term(cd, recs, trace)
        if term is None:
            lstats["nan_accuracy"] = lstats.get("nan_accuracy", 0) + 1
        else:
            lterms.append(term); lexpect.append(learn_expected(cd, (Xt2, Yt2, Xv2, Yv2), recs, opf, trace)); lmetas.append(_Meta(cd))
        rep.count_case(("learn", i, metric), len(recs) > 1)
        after = multiset(np.vstack([Xt2, Xv2]), np.hstack([Yt2, Yv2]))
        if Xt2.shape != Xtr.shape or Xv2.shape != Xva.shape:
            rep.violation("learn changed the set sizes", desc, key="learn:sizes"); nviol += 1
        elif after != before:
            lost = [p for p in before if p not in after]
            rep.violation("learn does not conserve the samples: %d (features,label) pairs lost, e.g. %r" % (len(lost), lost[:1]), desc, key="learn:conservation"); nviol += 1
        accs = [r["acc"] for r in recs]
        if accs:
            b = max(range(len(accs)), key=lambda t: (accs[t], -t))
            want = recs[b]["state"]
            if any(final[f] != want[f] for f in ("cost", "pred", "plabel", "label", "order")):
                # is the object left equal to some other iteration's classifier?
                which = [t for t, r in enumerate(recs) if all(final[f] == r["state"][f] for f in ("cost", "pred", "plabel", "label", "order"))]
                rep.violation("learn leaves the classifier of iteration %r, the best accuracy %r was achieved at iteration %d (accuracies %r)" % (which, accs[b], b, accs),
                              desc, key="learn:keeps_best"); nviol += 1
    # ---- (b') learn on feature matrices of other dtypes (64-bit identifiers / nanosecond time stamps beyond 2^53, 32-bit
    #      integers, single precision): rows are only ever MOVED, so every row must survive bit for bit in its own dtype
    tstats = dict(runs=0, exchanged=0, by_dtype={})
    for i in range(24 if tier == "quick" else 600):
        dt = [np.int64, np.int32, np.float32, np.int64][i % 4]
        ntr, nva, dim = rng.randint(6, 12), rng.randint(4, 8), rng.randint(1, 3)
        base = (1_700_000_000_000_000_001 if (dt is np.int64 and i % 8 < 4) else 0)
        cen = [[rng.randint(0, 60) for _ in range(dim)] for _ in range(2)]
        Ytr = [j % 2 for j in range(ntr)]; Yva = [j % 2 for j in range(nva)]
        def rows(ys):
            out = []
            for y in ys:
                r_ = [cen[y][t] + rng.randint(-25, 25) for t in range(dim)]
                out.append([base + 2 * v for v in r_] if dt is not np.float32 else [v + rng.choice([0.25, 0.5, 0.125]) for v in r_])
            return out
        Xtr, Xva = np.array(rows(Ytr), dtype=dt), np.array(rows(Yva), dtype=dt)
        Ytr, Yva = np.array(Ytr), np.array(Yva)
        def ms(A, B, ya, yb):
            return sorted([(tuple(r.tolist()), int(y)) for r, y in zip(A, ya)] + [(tuple(r.tolist()), int(y)) for r, y in zip(B, yb)])
        before = ms(Xtr, Xva, Ytr, Yva)
        A, B, ya, yb = Xtr.copy(), Xva.copy(), Ytr.copy(), Yva.copy()
        desc = dict(metric="squared_euclidean", dtype=np.dtype(dt).name, Xtr=Xtr.tolist(), Ytr=Ytr.tolist(), Xva=Xva.tolist(), Yva=Yva.tolist(), n_iterations=3, np_seed=1000 + i)
        np.random.seed(1000 + i)
        try:
            o = SupervisedOPF(distance="squared_euclidean")
            o.learn(A, ya, B, yb, n_iterations=3)
        except IndexError:
            continue
        except Exception as ex:
            nviol += 1
            rep.violation("SupervisedOPF.learn raised %r on %s feature matrices" % (ex, np.dtype(dt).name), desc, key="learn:raises:" + type(ex).__name__)
            continue
        tstats["runs"] += 1; tstats["by_dtype"][np.dtype(dt).name] = tstats["by_dtype"].get(np.dtype(dt).name, 0) + 1
        tstats["exchanged"] += 1 if (A != Xtr).any() else 0
        rep.count_case(("learn-dtype", i, np.dtype(dt).name), True)
        after = ms(A, B, ya, yb)
        if A.dtype != Xtr.dtype or B.dtype != Xva.dtype or A.shape != Xtr.shape or B.shape != Xva.shape:
            rep.violation("learn changed the dtype / shape of the caller's matrices", desc, key="learn:sizes"); nviol += 1
        elif after != before:
            lost = [p for p in before if p not in after]
            rep.violation("learn does not conserve the samples of %s matrices: %d (features,label) pairs lost, e.g. %r" % (np.dtype(dt).name, len(lost), lost[:1]), desc, key="learn:conservation"); nviol += 1
    lstats["other_dtypes"] = tstats
    rep.corr["learn"] = dict(cases=lstats["runs"], distribution=lstats)
    bad = corr_learn(rep, "correspondence Model/Learn.learn vs SupervisedOPF.learn fed with the recorded accuracies, error positions, "
                          "prototype flags and random draws: four arrays afterwards, best iteration, iteration count, kept training set",
                     "C17learn", lterms, lexpect, lmetas)
    rep.corr["learn_model"] = dict(cases=len(lterms), disagreements=None if bad is None else len(bad),
                                   draws=lstats["draws"], iterations=lstats["iterations"])
    if bad:
        for i in bad[:3]:
            rep.violation("SupervisedOPF.learn deviates from Model/Learn.learn (arrays / best iteration / kept training set)",
                          lmetas[i].desc(), key="learn:model")
            nviol += 1
    # ---- (c) prune: final training set is a sub-multiset with labels intact (oracle)
    NP = 240 if tier == "quick" else 4000
    pruned = 0
    pterms, pexpect, pmetas = [], [], []
    for i in range(NP):
        # lattice sets have tied arc weights: a retained sample may then carry an assigned label different from its true one
        if i % 2 == 1:
            # partially filled integer grid, classes split by diagonal lines, validation points from the grid enlarged by one
            # cell: many equal arc weights, so some training samples are conquered by the other class and stay relevant
            gw, gh = rng.randint(2, 4), rng.randint(2, 4)
            cells = [[float(x), float(y)] for x in range(gw) for y in range(gh) if rng.random() < 0.7]
            rng.shuffle(cells)
            cut, three = rng.uniform(0.5, gw + gh - 2.5), rng.random() < 0.4

            def side(c_):
                v = c_[0] + c_[1]
                return 1 if v <= cut else (2 if (not three or v <= cut + 1.5) else 3)
            labs = [side(c_) for c_ in cells]
            if len(cells) < 4 or len(set(labs)) < 2:
                continue
            nv = rng.randint(3, 8)
            V = [[float(rng.randint(-1, gw)), float(rng.randint(-1, gh))] for _ in range(nv)]
            metric = rng.choice(["euclidean", "manhattan", "squared_euclidean", "chebyshev", "log_squared_euclidean"])
            it = Instance("grid", cells + V, labs, metric_matrix(metric, cells + V), 0, nv, metric)
            yva = [side(v) for v in V]
        else:
            it = gen_instance(rng, nmax=9, m=rng.randint(2, 5), kinds=("feat", "lattice"))
            yva = None
        if it.X is None:
            continue
        it.Xarr = None
        X = np.array(it.X, dtype=float)
        n = it.n
        Xtr, Ytr = X[:n].copy(), np.array(it.labels)
        Xva = X[n:].copy(); Yva = np.array(yva if yva is not None else [it.labels[rng.randrange(n)] for _ in range(it.m)])
        n_it = rng.randint(1, 3)
        try:
            opf, flagss = run_prune(it.metric, Xtr, Ytr, Xva, Yva, n_it)
        except Exception as ex:
            continue   # e.g. a class disappears and fit cannot find prototypes: outside C17
        ids = RowIds(X[:n])
        pterms.append("run_prune %s %s %s" % (zlist(ids.of(X[:n])), zlist(it.labels), zlistlist(flagss[:n_it])))
        fx = ids.of([nd.features for nd in opf.subgraph.nodes])
        pexpect.append([len(fx)] + fx + [int(nd.label) for nd in opf.subgraph.nodes])
        d = it.desc(); d["n_iterations"] = n_it; d["Yva"] = Yva.tolist()
        pmetas.append(_Meta(d))
        pruned += 1
        rep.count_case(("prune", it.key()), True)
        fin = sorted((tuple(map(float, nd.features)), int(nd.label)) for nd in opf.subgraph.nodes)
        orig = multiset(X[:n], it.labels)
        tmp = list(orig)
        ok = True
        for p in fin:
            if p in tmp:
                tmp.remove(p)
            else:
                ok = False
        if not ok or len(fin) > n:
            rep.violation("prune: final training set is not a sub-multiset of the original", it.desc(), key="prune"); nviol += 1
    bad = corr_learn(rep, "correspondence Model/Learn.prune vs SupervisedOPF.prune fed with the relevance flags of each round: final training set",
                     "C17prune", pterms, pexpect, pmetas)
    rep.corr["prune"] = dict(cases=pruned, disagreements=None if bad is None else len(bad))
    # ---- (d) closed loop: learn / prune with fit, predict and accuracy computed by the model (Model/LearnFull.v)
    nviol += learnfull.check(rep, tier, seed)
    rep.extra["oracle_violations"] = nviol
    rep.samples = [it.desc() for it in insts[:2]]
    rep.rule = ("(a) fitted models + batches of 1-4 queries, relevant flags compared with the model and with the winner-path definition; "
                "(b) Gaussian-blob train/validation sets (2-3 classes, noise 0.5/3/8 so that validation errors and swaps occur), 1-4 iterations, numpy seed recorded; "
                "(c) prune runs on feature instances; non-trivial = n >= 3 / more than one learn iteration")
    rep.assumptions = COMMON_ASSUMPTIONS + ["np.random.uniform draws are whatever numpy produces for the recorded seed"]
    return rep.finish()


def replay(path):
    print(open(path).read()[:3000])
    return 0
