"""C08 - metric axioms: finite, symmetric, non-negative, zero self-distance, triangle."""
import math
import random

import numpy as np

from common import *  # noqa
import axiom_table as T

FILES = ["Spec/MetricSpec", "Proofs/MetricAxioms", "Props/C08_basic", "Props/C08_triangle", "Props/C06", "Props/C08",
         "Model/MetricSym", "Proofs/FloatSym", "Proofs/FloatZero", "Proofs/FloatTable"]


def gen_vec(rng, dom, n, shape=None):
    if dom == "real":
        v = [rng.choice([0.0, rng.uniform(-8, 8), float(rng.randint(-3, 3))]) for _ in range(n)]
    elif dom == "nonneg":
        v = [rng.choice([0.0, rng.uniform(0, 8), float(rng.randint(0, 3))]) for _ in range(n)]
    elif dom == "pos":
        # user-level domain of the decorated ratio/log metrics: non-negative entries (the EPSILON shift makes them
        # strictly positive), so exact zeros are included
        v = [0.0 if rng.random() < 0.15 else (rng.uniform(0.01, 10) if rng.random() < 0.8 else float(rng.randint(1, 4))) for _ in range(n)]
    else:
        v = [rng.uniform(0.01, 10) if rng.random() < 0.8 else float(rng.randint(1, 4)) for _ in range(n)]
    if dom == "prob":
        s = sum(v)
        v = [x / s for x in v]
    return v


def triple(rng, dom, n, force=None):
    x = gen_vec(rng, dom, n)
    r = rng.random()
    if force == "chain" and dom != "prob":
        r = 0.35
    if force == "zeros" and dom in ("real", "nonneg", "pos"):
        # coordinates that are exactly zero in two of the three vectors at once (sparse rows), one of the vectors all zero
        # or a single spike: the middle vector is small and dense
        x = [0.0] * n; x[rng.randrange(n)] = float(rng.randint(1, 3))
        z = [0.0] * n if rng.random() < 0.6 else list(x[::-1])
        y = [rng.uniform(0.05, 0.2) for _ in range(n)]; y[x.index(max(x))] = max(x) / 2.0
        return x, y, z
    if dom in ("real", "nonneg") and r > 0.95:
        x = [0.0] * n                                  # the all-zero vector (identical zero vectors below)
        r = 0.0
    if r < 0.15:
        y = list(x)                                   # identical
    elif r < 0.30 and dom != "prob":
        c = rng.choice([0.5, 2.0, 3.0])
        y = [c * a for a in x]                        # parallel
    elif r < 0.38 and dom != "prob":
        # a chain of near-equal vectors: one coordinate moves by the same small step twice (0, d, 2d with d below
        # EPSILON, or a few ulps): equality tests with a tolerance are not transitive, exact ones are
        j = rng.randrange(n)
        step = rng.choice([6e-21, 6e-21, 3e-17, 1e-10])
        b = 0.0 if (dom != "posonly" and rng.random() < 0.6) else x[j]
        x = list(x); x[j] = b
        y = list(x); y[j] = b + step
        z = list(y); z[j] = b + 2 * step
        return x, y, z
    else:
        y = gen_vec(rng, dom, n)
    z = gen_vec(rng, dom, n) if rng.random() < 0.8 else list(y)
    return x, y, z


def main(tier, seed):
    setup_impl_env()
    import warnings
    warnings.simplefilter("ignore")
    import opfython.math.distance as d
    rep = Report("C08", tier, seed)
    standard_proof_phase(rep, "C08", FILES)
    # the axiom table and the theorem list must agree
    rc, out = sh([sys.executable, os.path.join(VERIF, "bin", "gen_c08.py"), "--check"], timeout=120)
    rep.obligation("axiom table (harness/axiom_table.py) covered by the theorems of Props/C08_basic.v / C08_triangle.v", rc == 0, out[-500:])
    rng = random.Random(seed + 8)
    reps = 40 if tier == "quick" else 1500
    nviol = 0
    stats = dict(evaluations=0, identical=0, one_dim=0, zero_containing=0, skipped_zero_division=0)
    seen_keys = set()
    for name in T.ALL:
        fn = d.DISTANCES[name]
        dom = T.domain(name)
        claims = T.claims(name)
        import metric_ref as _mr
        # only canberra: its code takes |x| + |y| in the denominator, so it is the Canberra metric on all of R^n (clark and cosine
        # divide by x + y / by norms of shifted vectors and are not finite for x = -y: they stay on their non-negative class)
        signed_too = name == "canberra" and dom == "pos" and _mr.DOMAIN.get(name) == "real"

        def f(a, b):
            return float(fn(a, b))
        for r in range(reps):
            n = 1 if r % 7 == 0 else rng.randint(2, 7)
            long_vec = (r % 10 == 9)
            if signed_too and r % 10 == 4:
                # the closed form (and the code, through fabs) is defined on signed vectors for this identifier: mean-centred /
                # z-scored features are in its domain although the table's user-level class is "non-negative"
                dom = "real"
            else:
                dom = T.domain(name)
            if long_vec:
                # long feature vectors (deep / histogram features): running sums and products over hundreds of coordinates
                n = rng.choice([33, 64, 130, 154, 260, 1030])
            x, y, z = triple(rng, dom, n, force=("chain" if r % 10 == 6 else "zeros" if (r % 10 == 7 and n >= 2) else None))
            if long_vec and dom != "prob":
                sc = rng.choice([1.0, 100.0, 1000.0])
                x, y, z = [v * sc for v in x], [v * sc for v in y], [v * sc for v in z]
                stats["long_vectors"] = stats.get("long_vectors", 0) + 1
            adt = float
            if r % 5 == 3 and dom != "prob":
                # whole-number data (counts, histograms, pixel values) handed over as an integer array; bins that are empty
                # in two of the vectors at once
                lo = -3 if dom == "real" else (1 if dom == "posonly" else 0)
                x, y, z = ([float(rng.randint(lo, 4)) for _ in range(n)] for _ in range(3))
                if lo <= 0:
                    for t in range(n):
                        if rng.random() < 0.3:
                            x[t] = y[t] = 0.0
                        if rng.random() < 0.15:
                            z[t] = 0.0
                if rng.random() < 0.2:
                    y = list(x)
                adt = rng.choice([np.int64, np.int64, np.int32])
                stats["integer_arrays"] = stats.get("integer_arrays", 0) + 1
            xl, yl, zl = x, y, z
            # the SAME array objects are used for all five evaluations of a triple (as a caller would)
            x, y, z = np.array(xl, dtype=adt), np.array(yl, dtype=adt), np.array(zl, dtype=adt)
            if xl == yl:
                y = x.copy()
            if n == 1:
                stats["one_dim"] += 1
            if xl == yl:
                stats["identical"] += 1
            if 0.0 in xl or 0.0 in yl:
                stats["zero_containing"] += 1
            try:
                fxy, fyx, fxx = f(x, y), f(y, x), f(x, x)
                fyz, fxz = f(y, z), f(x, z)
            except Exception as ex:    # noqa - any exception on a domain input (numba raises ZeroDivisionError on a scalar division by zero)
                stats["skipped_zero_division"] += 1
                nviol += 1
                key = "finite:" + name
                if key not in seen_keys and len(seen_keys) < 6:
                    seen_keys.add(key)
                    rep.violation("%s raises %s on its domain (%s arrays): %s" % (name, type(ex).__name__, np.dtype(adt).name, str(ex)[:200]),
                                  dict(metric=name, x=xl, y=yl, z=zl, dtype=np.dtype(adt).name), key=key)
                continue
            stats["evaluations"] += 5
            # the same checks with the first argument held in a caller-owned buffer that is refilled in place
            try:
                buf = x.copy()
                f(buf, y)
                buf[:] = y
                bself = f(buf, y)            # identical contents: zero self-distance
                buf[:] = z
                bzy, byz2 = f(buf, y), f(y, buf)
            except Exception:    # noqa - reported by the evaluation above when it is reproducible there
                bself, bzy, byz2 = fxx, 0.0, 0.0
            if "zero_self" in claims and xl != yl and abs(bself) > 1e-7 * max(1.0, max(abs(v) for v in yl)):
                nviol += 1
                key = "zero_self:" + name
                if key not in seen_keys and len(seen_keys) < 6:
                    seen_keys.add(key)
                    rep.violation("%s(buffer, y) = %r after the buffer was refilled in place with y's values, expected 0" % (name, bself),
                                  dict(metric=name, x=xl, y=yl, z=zl, dtype=np.dtype(adt).name, note="buffer first holds x, then y"), key=key)
            elif "sym" in claims and abs(bzy - byz2) > 1e-9 * max(1.0, abs(bzy), abs(byz2)):
                nviol += 1
                key = "sym:" + name
                if key not in seen_keys and len(seen_keys) < 6:
                    seen_keys.add(key)
                    rep.violation("%s is not symmetric on a buffer refilled in place: f(buf,y)=%r, f(y,buf)=%r" % (name, bzy, byz2),
                                  dict(metric=name, x=xl, y=yl, z=zl, dtype=np.dtype(adt).name, note="buffer holds x, then y, then z"), key=key)
            rep.count_case((name, tuple(xl), tuple(yl), tuple(zl)), True)
            scale = max(1.0, abs(fxy), abs(fyz), abs(fxz))
            msg = key = None
            if not all(math.isfinite(v) for v in (fxy, fyx, fxx, fyz, fxz)):
                bad = [(a, b) for (a, b, v) in ((x, y, fxy), (y, x, fyx), (x, x, fxx), (y, z, fyz), (x, z, fxz)) if not math.isfinite(v)][0]
                msg = "%s returns a non-finite value on its domain: f(%r, %r) = %r" % (name, list(bad[0]), list(bad[1]), f(*bad)); key = "finite:" + name
                xl, yl = list(map(float, bad[0])), list(map(float, bad[1]))
            elif "sym" in claims and abs(fxy - fyx) > 1e-9 * scale:
                msg = "%s is not symmetric: f(x,y)=%r, f(y,x)=%r" % (name, fxy, fyx); key = "sym:" + name
            elif "nonneg" in claims and min(fxy, fyz, fxz) < -1e-9 * scale:
                msg = "%s is negative: %r" % (name, min(fxy, fyz, fxz)); key = "nonneg:" + name
            elif "zero_self" in claims and abs(fxx) > 1e-7 * max(1.0, max(abs(v) for v in xl)):
                msg = "%s(x, x) = %r, expected 0" % (name, fxx); key = "zero_self:" + name
            elif "triangle" in claims and fxz > fxy + fyz + 1e-9 * scale:
                msg = "%s violates the triangle inequality: d(x,z)=%r > d(x,y)+d(y,z)=%r" % (name, fxz, fxy + fyz); key = "triangle:" + name
            if msg:
                nviol += 1
                if key not in seen_keys and len(seen_keys) < 6:
                    seen_keys.add(key)
                    rep.violation(msg, dict(metric=name, x=xl, y=yl, z=zl, dtype=np.dtype(adt).name), key=key)
    rep.corr["axiom_oracle"] = dict(cases=stats["evaluations"], distribution=stats)
    # float-level exactness (Props/C08_float.v): bitwise symmetry and exact zero self-distance of the accepted identifiers
    import c08_float
    c08_float.run(rep, d, gen_vec, tier, seed)
    rep.extra["oracle_violations"] = nviol
    rep.samples = [dict(metric="canberra", domain="pos", claims=T.claims("canberra")),
                   dict(metric="kullback_leibler", domain="prob", claims=T.claims("kullback_leibler"))]
    rep.rule = ("per metric: triples (x,y,z) in the metric's domain (real / nonneg / strictly positive / probability vectors), lengths 1-7, "
                "including identical, parallel, one-dimensional and zero-containing vectors; each triple yields f(x,y), f(y,x), f(x,x), f(y,z), f(x,z) "
                "checked against the axioms the table claims for that metric; distinct = distinct (metric, triple)")
    rep.assumptions = ["the axiom theorems are over exact reals about the closed forms; the tie to distance.py is C06's closed_form theorems",
                       "float-level: tolerances 1e-9 (relative) for symmetry/sign/triangle, 1e-7 for zero self-distance; overflow/underflow outside the bounded test domain"]
    return rep.finish()


def replay(path):
    setup_impl_env()
    import opfython.math.distance as d
    r = json.load(open(path))["replay"]
    if r.get("check") in ("float_sym", "float_zero"):
        import c08_float
        return c08_float.replay(r, d)
    v = float(d.DISTANCES[r["metric"]](np.array(r["x"], dtype=r.get("dtype", "float64")), np.array(r["y"], dtype=r.get("dtype", "float64"))))
    print("replay: %s(x, y) = %r" % (r["metric"], v))
    return 0 if math.isfinite(v) else 1
