"""C16, correspondence stream "whole fit": the COMPLETE KNNSupervisedOPF.fit and UnsupervisedOPF.fit (k-search
included) against the single model terms `knn_sup_fit` / `unsup_fit` of Model/KnnLearn.v run in PrimFloat.

Nothing is recorded from the running Python except the constants of the calculate_pdf calls (to tabulate the terms
exp(-d/constant), Coq's PrimFloat has no exp) - criteria (validation accuracy per k, normalised cut per k), best_k
and the final forest are computed by the model from the distances and compared bit for bit.

Also two unit streams for the float-level pieces that are new in Model/KnnLearn.v: numpy's pairwise `np.sum`
(`np_sum`) and `opf_accuracy` (`accuracy_F`)."""
import random
import struct

from knncommon import *  # noqa
from supcommon import gen_matrix

REQ = ("Model.Run", "Model.RunSup", "Model.RunKnn", "Model.RunKnnLearn")
FILES = ["Model/KnnLearn", "Model/RunKnnLearn"]


def bits(x):
    x = float(x)
    if x != x:
        return "nan"
    return struct.pack(">d", x)


def same_bits(g, e):
    return len(g) == len(e) and all(bits(a) == bits(b) for a, b in zip(g, e))


def exp_table(D, const):
    """the very doubles the implementation computes: np.exp(-np.float64(d) / constant), scalar by scalar"""
    with np.errstate(all="ignore"):
        return [float(np.exp(-np.float64(v) / const)) for r in D for v in r]


def dump_expected(sg, st):
    return ([float(sg.constant), float(sg.min_density), float(sg.max_density), float(st["nclusters"]), float(sg.density)]
            + st["radius"] + st["dens"] + st["cost"] + [float(v) for v in st["pred"]] + [float(v) for v in st["root"]]
            + [float(v) for v in st["plabel"]] + [float(v) for v in st["clabel"]]
            + [float(len(st["order"]))] + [float(v) for v in st["order"]]
            + [float(v) for v in flat_adj(st["adj"])] + [float(v) for v in st["nplat"]])


class PdfSpy:
    """wraps KNNSubgraph.calculate_pdf: records (k, constant, a NaN density appeared) per call"""

    def __init__(self):
        from opfython.subgraphs import KNNSubgraph
        self.cls = KNNSubgraph
        self.orig = KNNSubgraph.calculate_pdf
        self.calls = []

    def __enter__(self):
        spy = self

        def wrapped(sg, k, *a, **kw):
            with np.errstate(all="ignore"):
                r = spy.orig(sg, k, *a, **kw)
            spy.calls.append((int(k), float(sg.constant), any(float(nd.density) != float(nd.density) for nd in sg.nodes)))
            return r
        self.cls.calculate_pdf = wrapped
        return self

    def __exit__(self, *a):
        self.cls.calculate_pdf = self.orig


# ------------------------------------------------------------------------------------------------ instances

class SupCase:
    """training rows, validation rows, labels, node-level distance tables and a function that runs the real fit"""
    pass


def gen_sup_case(rng, idx, tier):
    from opfython.models.knn_supervised import KNNSupervisedOPF
    c = SupCase()
    nmax = 11 if tier == "quick" else 15
    if idx % 4 == 3:
        # pre-computed matrix: _learn demands a matrix of exactly n_train x n_train, so validation samples are
        # (indices of) training rows; labels of the validation rows are drawn independently
        ntr = rng.randint(3, nmax - 3)
        nva = rng.randint(2, 5)
        kk = rng.choice([1, 2, 3, 0])
        alphabet = [float(v) for v in rng.sample(range(1, 9), kk)] if kk else None
        if alphabet and rng.random() < 0.3:
            alphabet.append(0.0)
        M = gen_matrix(rng, ntr, alphabet)
        perm = list(range(ntr)); rng.shuffle(perm)
        iv = [rng.randrange(ntr) for _ in range(nva)]
        ncls = rng.randint(2, 3)
        base = rng.choice([0, 0, 1])
        while True:
            row_lab = [base + rng.randrange(ncls) for _ in range(ntr)]
            if len(set(row_lab)) == ncls:
                break
        c.labels = [row_lab[perm[a]] for a in range(ntr)]
        c.vlabels = [row_lab[r] if rng.random() < 0.7 else base + rng.randrange(ncls) for r in iv]
        c.D = [[M[perm[a]][perm[b]] for b in range(ntr)] for a in range(ntr)]
        c.Dq = [[M[iv[v]][perm[b]] for b in range(ntr)] for v in range(nva)]
        c.max_k = rng.randint(1, min(5, ntr - 1))
        c.desc = dict(kind="premat", D=M, I_train=perm, I_val=iv, labels=c.labels, vlabels=c.vlabels, max_k=c.max_k)

        def run():
            opf = KNNSupervisedOPF(max_k=c.max_k)
            opf.pre_computed_distance = True
            opf.pre_distances = np.array(M, dtype=float)
            opf.fit(np.zeros((ntr, 1)), np.array(c.labels), np.zeros((nva, 1)), np.array(c.vlabels), np.array(perm), np.array(iv))
            return opf
        c.run = run
        return c
    it = gen_split_inst(rng, nmax=nmax)
    ntr, n = it.ntr, it.n
    tr = list(range(ntr)); va = list(range(ntr, n))
    if idx % 5 == 1:
        it.labels = [l + 1 for l in it.labels]            # 1-based labels, as opfython's datasets have them
    if idx % 10 == 0:
        it.labels = [min(l, 1) for l in it.labels]          # adversarial / degenerate label sets (F6 territory)
    if idx % 7 == 5:
        va = va + [rng.choice(tr) for _ in range(rng.randint(1, 2))]   # training rows among the validation rows
    c.labels = [it.labels[i] for i in tr]
    c.vlabels = [it.labels[i] for i in va]
    c.D = [[it.D[a][b] for b in tr] for a in tr]
    c.Dq = [[it.D[v][b] for b in tr] for v in va]
    c.max_k = rng.randint(1, min(5, ntr - 1))
    if idx % 23 == 22:
        c.max_k = ntr                                       # k > n-1: calculate_pdf raises (out of domain)
    c.desc = dict(it.desc(), ntr=ntr, validation_rows=va, max_k=c.max_k)
    reuse = idx % 4 == 2

    def run():
        opf, X, _ = make_knn_model(it, KNNSupervisedOPF, reuse=reuse, max_k=c.max_k)
        opf.fit(X[tr].copy(), np.array(c.labels), X[va].copy(), np.array(c.vlabels))
        return opf
    c.run = run
    return c


def sup_stream(rep, rng, N, tier, big=()):
    import opfython.math.general as g
    terms, expect, descs = [], [], []
    stats = dict(fits=0, compared=0, skipped_error={}, skipped_nan=0, premat=0, best_k={}, distinct_accuracy_lists=0, all_zero_acc=0)
    orig_acc = g.opf_accuracy
    stats["large_validation_sets"] = len(big)
    for idx in range(N + len(big)):
        c = gen_sup_case(rng, idx, tier) if idx < N else big[idx - N]
        accs = []

        def wrapped(labels, preds, _o=orig_acc):
            v = _o(labels, preds); accs.append(float(v)); return v
        g.opf_accuracy = wrapped
        err = None
        with PdfSpy() as spy:
            try:
                opf = c.run()
            except Exception as ex:      # noqa
                err = type(ex).__name__
            finally:
                g.opf_accuracy = orig_acc
        stats["fits"] += 1
        ntr, nva = len(c.labels), len(c.vlabels)
        if err:
            # k > n-1 (IndexError in calculate_pdf) and a training label above every validation label (IndexError in
            # opf_accuracy) are outside the property's domain
            dom = c.max_k > ntr - 1 or max(c.labels) > max(c.vlabels)
            if dom and err == "IndexError":
                stats["skipped_error"][err] = stats["skipped_error"].get(err, 0) + 1
            else:
                rep.violation("KNNSupervisedOPF.fit raised %s on an in-domain instance" % err, c.desc, key="whole_fit:knn")
            continue
        if any(nan for (_, _, nan) in spy.calls) or any(cst == 0.0 for (_, cst, _) in spy.calls):
            stats["skipped_nan"] += 1
            continue
        if len(spy.calls) != c.max_k + 1 or [k for (k, _, _) in spy.calls[:-1]] != list(range(1, c.max_k + 1)):
            rep.violation("KNNSupervisedOPF.fit: calculate_pdf calls %r, expected k = 1..%d then best_k" % ([k for (k, _, _) in spy.calls], c.max_k),
                          c.desc, key="whole_fit:knn")
            continue
        sg = opf.subgraph
        st = knn_state(sg)
        ep = [v for (_, cst, _) in spy.calls[:-1] for v in exp_table(c.D, cst)]
        eq = [v for (_, cst, _) in spy.calls[:-1] for v in exp_table(c.Dq, cst)]
        efin = exp_table(c.D, spy.calls[-1][1])
        terms.append("run_knn_sup_fit %d %d %d %s %s %s %s %s %s %s" % (
            ntr, nva, c.max_k, zlist(c.labels), zlist(c.vlabels), flist([v for r in c.D for v in r]),
            flist([v for r in c.Dq for v in r]), flist(ep), flist(eq), flist(efin)))
        expect.append([float(sg.best_k), float(len(accs))] + accs + dump_expected(sg, st))
        d = dict(c.desc, accuracies=accs, best_k=int(sg.best_k)); descs.append(d)
        stats["compared"] += 1
        stats["premat"] += c.desc.get("kind") == "premat"
        stats["best_k"][int(sg.best_k)] = stats["best_k"].get(int(sg.best_k), 0) + 1
        stats["distinct_accuracy_lists"] += len(set(accs)) > 1
        stats["all_zero_acc"] += all(a <= 0 for a in accs)
        rep.count_case(("whole_fit", "knn", tuple(c.labels), tuple(c.vlabels), c.max_k, tuple(map(tuple, c.D))), len(set(accs)) > 1)
    return terms, expect, descs, stats


def unsup_stream(rep, rng, N, tier):
    from opfython.models.unsupervised import UnsupervisedOPF
    terms, expect, descs = [], [], []
    stats = dict(fits=0, compared=0, skipped_error={}, skipped_nan=0, mat=0, best_k={}, zero_cut_stops=0, distinct_cut_lists=0)
    for idx in range(N):
        # every third case: a pre-computed matrix reached through index arrays (rows scattered in a larger matrix)
        it = gen_kinst(rng, nmin=4, nmax=11 if tier == "quick" else 15, labelled=True, **(dict(kinds=("mat",)) if idx % 3 == 1 else {}))
        n = it.n
        min_k = rng.randint(1, 2) if n >= 4 else 1
        max_k = rng.randint(min_k, min(5, n - 1))
        if idx % 29 == 28:
            max_k = n                                         # k > n-1: out of domain
        opf, X, I = make_knn_model(it, UnsupervisedOPF, reuse=(idx % 4 == 3), min_k=min_k, max_k=max_k)
        cuts = []
        orig_cut = opf._normalized_cut

        def wcut(k, _o=orig_cut):
            v = _o(k); cuts.append(float(v)); return v
        opf._normalized_cut = wcut
        err = None
        with PdfSpy() as spy:
            try:
                with np.errstate(all="ignore"):
                    opf.fit(X[:n].copy(), np.array(it.labels), None if I is None else I[:n])
            except Exception as ex:      # noqa
                err = type(ex).__name__
        opf.__dict__.pop("_normalized_cut", None)
        d = dict(it.desc(), min_k=min_k, max_k=max_k, cuts=cuts)
        stats["fits"] += 1
        if err:
            if max_k > n - 1 and err == "IndexError":
                stats["skipped_error"][err] = stats["skipped_error"].get(err, 0) + 1
            elif any(nan for (_, _, nan) in spy.calls):
                stats["skipped_nan"] += 1
            else:
                rep.violation("UnsupervisedOPF.fit raised %s on an in-domain instance" % err, d, key="whole_fit:unsup")
            continue
        if any(nan for (_, _, nan) in spy.calls) or any(v != v for v in cuts):
            stats["skipped_nan"] += 1      # constant = 0 (duplicates: max_distances[k-1] = 0 bypasses the 1e-5 fallback)
            continue
        ne = len(cuts)
        if len(spy.calls) != ne + 1 or [k for (k, _, _) in spy.calls[:-1]] != list(range(min_k, min_k + ne)):
            rep.violation("UnsupervisedOPF.fit: calculate_pdf calls %r for %d evaluated candidates from k=%d" % ([k for (k, _, _) in spy.calls], ne, min_k),
                          d, key="whole_fit:unsup")
            continue
        sg = opf.subgraph
        st = knn_state(sg)
        Dt = [[it.D[a][b] for b in range(n)] for a in range(n)]
        ep = [v for (_, cst, _) in spy.calls[:-1] for v in exp_table(Dt, cst)]
        efin = exp_table(Dt, spy.calls[-1][1])
        terms.append("run_unsup_fit %d %d %d %s %s %s %s" % (n, min_k, max_k, zlist(it.labels), flist([v for r in Dt for v in r]), flist(ep), flist(efin)))
        expect.append([float(sg.best_k), float(ne)] + cuts + dump_expected(sg, st))
        d["best_k"] = int(sg.best_k); descs.append(d)
        stats["compared"] += 1
        stats["mat"] += it.X is None
        stats["best_k"][int(sg.best_k)] = stats["best_k"].get(int(sg.best_k), 0) + 1
        stats["zero_cut_stops"] += ne < max_k - min_k + 1
        stats["distinct_cut_lists"] += len(set(cuts)) > 1
        rep.count_case(("whole_fit", "unsup", it.key(), min_k, max_k), len(set(cuts)) > 1)
    return terms, expect, descs, stats


def unit_streams(rep, rng, tier):
    """np.sum (pairwise blocking) and opf_accuracy at the float level"""
    import opfython.math.general as g
    N = 150 if tier == "quick" else 3000
    terms, expect, descs = [], [], []
    for i in range(N):
        n = rng.choice([0, 1, 2, 5, 7, 8, 9, 15, 16, 17, 31, 64, 127, 128, 129, 130, 137, 200, 255, 256, 257, 300, 517]) if i % 3 == 0 else rng.randint(0, 40)
        vals = [rng.choice([1e16, 1.0, 3.0, 1e-3, 0.1, 0.7, 1 / 3, 0.5, 2.0 ** -30]) * rng.choice([1, 1, -1]) for _ in range(n)]
        terms.append("run_np_sum %s" % flist(vals))
        expect.append([float(np.sum(np.array(vals, dtype=float)))])
        descs.append(dict(np_sum=vals))
    bad1 = corr(rep, "correspondence Model/KnnLearn.np_sum (PrimFloat) vs np.sum on contiguous float64 vectors (pairwise summation, lengths 0..517)",
                "C16sum", terms, expect, descs)
    rep.corr["np_sum"] = dict(cases=len(terms), disagreements=None if bad1 is None else len(bad1))
    terms, expect, descs = [], [], []
    skipped = 0
    for i in range(N * 2):
        m = rng.randint(1, 12)
        ncls = rng.choice([1, 2, 2, 3, 3, 4, 7, 8, 9, 12, 20])
        base = rng.choice([0, 0, 1, 1, 3])
        labels = [base + rng.randrange(ncls) for _ in range(m)]
        mode = i % 4
        if mode == 0:
            preds = list(labels)
        elif mode == 1:
            preds = [rng.randrange(max(labels) + 1) for _ in range(m)]
        elif mode == 2:
            preds = [l if rng.random() < 0.6 else rng.randrange(max(labels) + 1) for l in labels]
        else:
            preds = [0 for _ in labels]          # a query that picked no neighbour keeps predicted_label 0
        try:
            with np.errstate(all="ignore"):
                want = float(g.opf_accuracy(np.array(labels), preds))
        except Exception:      # noqa
            skipped += 1
            continue
        terms.append("run_accuracy %s %s" % (zlist(labels), zlist(preds)))
        expect.append([want]); descs.append(dict(labels=labels, preds=preds))
    bad2 = corr(rep, "correspondence Model/KnnLearn.accuracy_F (PrimFloat, bit-exact) vs general.opf_accuracy (0- and 1-based labels, 1..20 classes, absent classes)",
                "C16acc", terms, expect, descs)
    rep.corr["accuracy_F"] = dict(cases=len(terms), disagreements=None if bad2 is None else len(bad2), skipped=skipped)


def corr(rep, name, tag, terms, expect, descs):
    """run the model terms, compare bit for bit; every disagreement is a violation with the instance as replay"""
    if not terms:
        rep.obligation(name, True, "no cases")
        return []
    try:
        got = run_cases(tag, terms, requires=REQ, typ="list float", chunk=60)
    except RuntimeError as ex:
        rep.obligation(name, False, str(ex))
        return None
    bad = [i for i, (g_, e) in enumerate(zip(got, expect)) if not same_bits(g_, e)]
    det = ""
    if bad:
        i = bad[0]
        det = "%d disagreements; first: %s\n model=%r\n impl =%r" % (len(bad), json.dumps(descs[i], default=str)[:1200], got[i], expect[i])
    rep.obligation(name, not bad, det)
    for i in bad[:3]:
        first = next((j for j, (a, b) in enumerate(zip(got[i], expect[i])) if bits(a) != bits(b)), min(len(got[i]), len(expect[i])))
        rep.violation("%s: model and implementation differ at output position %d (model %r, implementation %r)" % (
            name.split(" vs ")[0], first, got[i][first] if first < len(got[i]) else None, expect[i][first] if first < len(expect[i]) else None),
            dict(descs[i], model=got[i], impl=expect[i]), key="whole_fit:" + tag)
    return bad


def whole_fit_stream(rep, tier, seed):
    for f in FILES:
        rep.obligation("compiles: %s.v" % f, vo_ok(f), "")
    rng = random.Random(seed + 1600)
    unit_streams(rep, rng, tier)
    N = 64 if tier == "quick" else 3000
    import large_c16      # + designed cases with 150..350 validation rows (the model's table look-ups are quadratic in the rows), accuracies a few 1e-5 apart or tied (own generator: the bulk cases stay as they were)
    t, e, d, s = sup_stream(rep, rng, N, tier, large_c16.whole_fit_cases(random.Random(seed * 7919 + 160016), tier))
    bad = corr(rep, "correspondence (whole fit) Model/KnnLearn.knn_sup_fit at PrimFloat vs KNNSupervisedOPF.fit: accuracy of every candidate k "
               "(bit patterns), best_k, constant/min/max density, density bound, radius, density, cost, pred, root, labels, idx_nodes",
               "C16fitK", t, e, d)
    s["disagreements"] = None if bad is None else len(bad); s["cases"] = s["compared"]
    rep.corr["whole_fit_knn_supervised"] = s
    t, e, d, s = unsup_stream(rep, rng, N, tier)
    bad = corr(rep, "correspondence (whole fit) Model/KnnLearn.unsup_fit at PrimFloat vs UnsupervisedOPF.fit: normalised cut of every evaluated "
               "candidate k (bit patterns), best_k, constant/min/max density, density bound, radius, density, cost, pred, root, cluster ids, "
               "n_clusters, idx_nodes, adjacency after the plateau step, n_plateaus",
               "C16fitU", t, e, d)
    s["disagreements"] = None if bad is None else len(bad); s["cases"] = s["compared"]
    rep.corr["whole_fit_unsupervised"] = s
    rep.assumptions = list(rep.assumptions) + [
        "whole fit: the terms exp(-d/constant) are tabulated by the harness with numpy's scalar exp, using the constant recorded at each "
        "calculate_pdf call; everything else (criteria, selection, state threading) is computed by the model in PrimFloat",
        "whole fit, skipped and counted: k > n-1 (IndexError), a training label above every validation label (IndexError in opf_accuracy), "
        "NaN densities (constant = 0 from max_distances[k-1] = 0)"]
