"""C06 - each of the 47 distance identifiers computes its published closed form; registry == whitelist.

Proof side (coq/theories/Props/C06.v): the terms generated from /repo by translator/py2coq.py are proved equal
to the closed forms of Spec/MetricSpec.v for every vector length; the generated registry/whitelist tables are
proved equal as sets.  This file
  (a) regenerates + re-proves (standard_proof_phase),
  (b) validates the translator: the generated IR, interpreted by translator/eval_ir.py, must agree with the
      real functions (DISTANCES[name] and <Model>(distance=name).distance_fn, called on copies),
  (c) searches for a concrete failing input against an independent hand-written reference
      (harness/metric_ref.py mirrors Spec/MetricSpec.v): this is what turns a broken closed_form_* or
      registry obligation into `VIOLATION ... replay=<file>` with (name, x, y, expected, got),
  (d) checks the live registry against the live whitelist (every key through every model constructor,
      non-keys must be rejected).
"""
import math
import random
import sys
from decimal import Decimal

from common import *  # noqa
import errnum
import metric_ref

sys.path.insert(0, os.path.join(VERIF, "translator"))
import eval_ir  # noqa: E402
import py2coq  # noqa: E402

RTOL = 1e-9      # relative tolerance on the exact value
KB = 64.0        # multiples of the running rounding-error bound that numpy may deviate by

NEEDED = ["Model/Consts", "Model/Effects", "Model/MetricIR", "Model/MetricEval", "Gen/Consts_gen", "Gen/Decorator_gen",
          "Gen/Metrics_gen", "Gen/Registry_gen", "Proofs/MetricLemmas", "Proofs/ClosedForms", "Proofs/Resolved",
          "Proofs/RegistryOk", "Props/C06",
          "Model/MetricRdepth", "Proofs/RoundingBounds", "Proofs/RdepthSound", "Proofs/RdepthTable", "Proofs/RdepthWitness",
          "Model/MetricRdepthQ", "Proofs/RoundingBoundsQ", "Proofs/RdepthQSound", "Proofs/RdepthQTable", "Proofs/RdepthQWitness"]

MODEL_CTORS = [
    ("SupervisedOPF", {}),
    ("SemiSupervisedOPF", {}),
    ("KNNSupervisedOPF", {"max_k": 1}),
    ("UnsupervisedOPF", {}),
]


# ----------------------------------------------------------------------------------------------
# inputs

def gen_pair(rng, dom, n, style):
    """two float lists of length n in the domain `dom`"""
    def base():
        if style == "unit":
            return [rng.uniform(0.05, 1.0) for _ in range(n)]
        if style == "wide":
            return [rng.uniform(0.05, 1.0) * 10 ** rng.randint(-3, 3) for _ in range(n)]
        if style == "grid":
            return [float(rng.randint(1, 4)) for _ in range(n)]
        if style == "huge":
            # magnitudes whose squares and pairwise products are still finite in binary64 (1e80 ** 2 * n << 1.8e308)
            return [rng.uniform(0.1, 10.0) * 1e80 for _ in range(n)]
        return [rng.uniform(0.1, 10.0) for _ in range(n)]
    x, y = base(), base()
    if style == "tiny":
        # entries that differ by less than EPSILON (1e-20) or by a few ulps: y is x moved by a tiny step in some places
        x = [0.0 if rng.random() < 0.4 else a for a in x]
        y = [a + rng.choice([6e-21, 1.2e-20, 3e-17]) if rng.random() < 0.6 else a for a in x]
        if dom == "pos":
            x = [a if a > 0 else 6e-21 for a in x]
            y = [a if a > 0 else 6e-21 for a in y]
        return x, y
    if style == "near":          # y is x with some entries kept equal (hamming, zero terms)
        y = [a if rng.random() < 0.5 else b for a, b in zip(x, y)]
    if style == "prob":
        sx, sy = sum(x), sum(y)
        x, y = [a / sx for a in x], [b / sy for b in y]
    if dom == "pos":
        return x, y
    if dom == "nonneg":
        z = lambda v: [0.0 if rng.random() < 0.2 else a for a in v]
        return z(x), z(y)
    # all reals: mixed signs, exact zeros
    def s(v):
        out = []
        for a in v:
            r = rng.random()
            out.append(0.0 if r < 0.12 else (-a if r < 0.5 else a))
        return out
    x, y = s(x), s(y)
    if style == "near":
        y = [a if rng.random() < 0.5 else b for a, b in zip(x, y)]
    return x, y


STYLES = ["plain", "unit", "wide", "grid", "near", "prob", "tiny", "huge"]


def cases_for(rng, dom, reps):
    out = []
    for n in range(1, 10):
        for st in STYLES:
            for _ in range(reps):
                out.append((st,) + gen_pair(rng, dom, n, st))
    # a few fixed shapes: the repository's own test point has length 4; opposite vectors; all-equal
    if dom == "real":
        out.append(("fixed", [1.0], [-2.0]))
        out.append(("fixed", [0.0, 0.0, 3.0], [0.0, 1.0, -3.0]))
        out.append(("fixed", [-1.0, -2.0, -3.0, -4.0, -5.0], [-5.0, -4.0, -3.0, -2.0, -1.0]))
    out.append(("fixed", [5.1, 3.5, 1.4, 0.3], [5.4, 3.4, 1.7, 0.2]))
    return out


# ----------------------------------------------------------------------------------------------
# evaluation and comparison

class Evaluators:
    def __init__(self):
        self.dec = errnum.DecOps(60)
        self.err = errnum.ErrOps()

    def exact_and_bound(self, f):
        """f(ops) -> value.  Returns ('ok', exact Decimal, bound float) | ('domain', msg) | ('straddle', msg)."""
        try:
            ex = f(self.dec)
        except errnum.DomainError as e:
            return ("domain", str(e))
        except (ArithmeticError, ValueError) as e:
            return ("domain", "%s: %s" % (type(e).__name__, e))
        try:
            ef = errnum.EF.lift(f(self.err))
        except errnum.Straddle as e:
            return ("straddle", str(e))
        except (ArithmeticError, ValueError) as e:
            return ("straddle", "%s: %s" % (type(e).__name__, e))
        if not (math.isfinite(ef.v) and math.isfinite(ef.e)):
            return ("straddle", "non-finite float evaluation")
        return ("ok", Decimal(ex), ef.e)


def agrees(got, exact, bound):
    if got is None or not math.isfinite(got):
        return False
    tol = RTOL * abs(float(exact)) + KB * bound + 1e-300
    return abs(Decimal(got) - exact) <= Decimal(tol)


def call_impl(fn, x, y):
    """the real function on fresh copies (the decorator mutates its arguments in place). Returns (float|None, note)"""
    import numpy as np
    try:
        r = fn(np.array(x, dtype=np.float64), np.array(y, dtype=np.float64))
        return float(r), ""
    except Exception as ex:  # noqa
        return None, "%s: %s" % (type(ex).__name__, ex)


def shrink_metric(name, fn, x, y, ev):
    """drop coordinates while the implementation still disagrees with the reference"""
    def bad(x, y):
        r = ev.exact_and_bound(lambda o: metric_ref.reference(name, o, x, y))
        if r[0] != "ok":
            return False
        got, _ = call_impl(fn, x, y)
        return not agrees(got, r[1], r[2])
    changed = True
    while changed and len(x) > 1:
        changed = False
        for i in range(len(x)):
            cx, cy = x[:i] + x[i + 1:], y[:i] + y[i + 1:]
            if bad(cx, cy):
                x, y, changed = cx, cy, True
                break
    return x, y


def metric_replay_obj(name, fn, x, y, ev):
    r = ev.exact_and_bound(lambda o: metric_ref.reference(name, o, x, y))
    got, note = call_impl(fn, x, y)
    return dict(kind="metric", name=name, x=x, y=y, expected=float(r[1]) if r[0] == "ok" else None,
                expected_60_digits=str(r[1]) if r[0] == "ok" else None, rounding_error_bound=r[2] if r[0] == "ok" else None,
                got=got if got is not None else note, via="opfython.math.distance.DISTANCES[%r](x.copy(), y.copy())" % name)



def pinned_points():
    """(name, x, y, value, decimals|None) from the repository's own unit tests (one fixed point per metric)"""
    import ast
    path = os.path.join(REPO, "tests", "opfython", "math", "test_distance.py")
    out = []
    try:
        tree = ast.parse(open(path).read())
    except (OSError, SyntaxError):
        return out
    for fn in tree.body:
        if not (isinstance(fn, ast.FunctionDef) and fn.name.startswith("test_") and fn.name.endswith("_distance")):
            continue
        name = fn.name[len("test_"):-len("_distance")]
        vecs, val, dec = {}, None, None
        try:
            for st in fn.body:
                if isinstance(st, ast.Assign) and isinstance(st.targets[0], ast.Name) and st.targets[0].id in ("x", "y"):
                    vecs[st.targets[0].id] = [float(ast.literal_eval(e)) for e in st.value.args[0].elts]
                elif isinstance(st, ast.Assert) and isinstance(st.test, ast.Compare):
                    val = float(ast.literal_eval(st.test.comparators[0]))
                    if isinstance(st.test.left, ast.Call):
                        dec = int(ast.literal_eval(st.test.left.args[1]))
            if val is not None and "x" in vecs and "y" in vecs:
                out.append((name, vecs["x"], vecs["y"], val, dec))
        except Exception:  # noqa
            continue
    return out


# ----------------------------------------------------------------------------------------------

def main(tier, seed):
    setup_impl_env()
    rep = Report("C06", tier, seed)
    rep.rule = ("per identifier: vector pairs of every length 1..9 in the metric's domain (all reals with mixed signs, exact "
                "zeros and equal entries for norm-type metrics; >=0 with zeros for sqrt-type; strictly positive, incl. "
                "probability vectors, for ratio/log metrics), six value styles (plain, unit, 7 decades, small-integer grid, "
                "partly-equal, normalised) + fixed shapes; each pair is evaluated by the real function (on copies), by the "
                "independent reference closed form and by the generated IR, both at 60 digits, and compared with tolerance "
                "1e-9*|exact| + 64*running-error-bound; a case is non-trivial when exact != 0, both vectors differ and the "
                "error bound is < 1e-6*|exact|; distinct = distinct (identifier, x, y)")
    standard_proof_phase(rep, "C06", NEEDED, extra_trusted=[
        "translator/py2coq.py (Python ast -> Coq terms; validated against the running code by translator/eval_ir.py)",
        "numpy/numba evaluate + - * / fabs minimum maximum sqrt log exp as IEEE-754 binary64 operations"])
    rng = random.Random(seed)
    ev = Evaluators()

    # ---- the IR of the current source, in-process (the same code that wrote Gen/*.v)
    ir, ir_msg = None, ""
    try:
        _, dump = py2coq.translate(REPO)
        ir = eval_ir.IR(dump)
    except py2coq.Unsupported as ex:
        ir_msg = "translator aborted: %s" % ex
    except Exception as ex:  # noqa
        ir_msg = "translator crashed: %s: %s" % (type(ex).__name__, ex)

    import opfython.math.distance as dist
    import opfython.models as models
    import opfython.utils.exception as oe
    from opfython.core import OPF
    D = dist.DISTANCES

    # ---- (d) registry vs whitelist on the live objects ---------------------------------------
    spec_names = sorted(metric_ref.TABLE)
    static_wl = None
    try:
        static_wl, _ = py2coq.parse_opf(REPO)
    except Exception:  # noqa
        pass
    candidates = sorted(set(D) | set(spec_names) | set(static_wl or []) |
                        {n[:-len("_distance")] for n in dir(dist) if n.endswith("_distance")})
    non_keys = ["", "euclid", "Euclidean", "euclidean_distance", "l2", "minkowski", "EUCLIDEAN", " euclidean", "none"]
    reg_problems = 0
    ctor_cases = 0
    model_fns = {}
    reported = set()
    for k in candidates + non_keys:
        for cname, kw in [("OPF", {})] + MODEL_CTORS:
            cls = OPF if cname == "OPF" else getattr(models, cname)
            ctor_cases += 1
            try:
                obj = cls(distance=k, **kw)
                outcome, fn = "accepted", obj.distance_fn
            except oe.TypeError:
                outcome, fn = "rejected", None
            except KeyError:
                outcome, fn = "keyerror", None
            except Exception as ex:  # noqa
                outcome, fn = "error %s: %s" % (type(ex).__name__, ex), None
            want = "accepted" if k in D else "rejected"
            if outcome == want and (fn is None or fn is D[k]):
                if fn is not None:
                    model_fns[(cname, k)] = fn
                continue
            reg_problems += 1
            if k in reported:
                continue
            reported.add(k)
            if outcome == "keyerror":
                what = ("identifier %r passes the models' whitelist but is missing from DISTANCES: %s(distance=%r) raises KeyError"
                        % (k, cname, k))
            elif outcome == "rejected":
                what = "identifier %r is a key of DISTANCES but %s(distance=%r) rejects it" % (k, cname, k)
            elif outcome == "accepted" and k in D:
                what = "%s(distance=%r).distance_fn is not DISTANCES[%r]" % (cname, k, k)
            elif outcome == "accepted":
                what = "identifier %r is not a key of DISTANCES but %s accepts it" % (k, cname)
            else:
                what = "%s(distance=%r): %s" % (cname, k, outcome)
            rep.violation(what, dict(kind="registry", identifier=k, model=cname, kwargs=kw, outcome=outcome,
                                     in_DISTANCES=k in D), key="registry:%s" % k)
    extra = sorted(set(D) - set(spec_names))
    missing = sorted(set(spec_names) - set(D))
    for k in extra:
        reg_problems += 1
        rep.violation("identifier %r is registered in DISTANCES but has no closed form in Spec/MetricSpec.v" % k,
                      dict(kind="registry", identifier=k, model="OPF", kwargs={}, outcome="unspecified", in_DISTANCES=True),
                      key="registry:%s" % k)
    rep.obligation("live registry: set(DISTANCES) == identifiers accepted by OPF/4 model constructors == 47 specified names; "
                   "distance_fn is DISTANCES[k]", reg_problems == 0 and len(D) == 47 and not missing,
                   "%d problems; missing=%s extra=%s" % (reg_problems, missing, extra))
    if static_wl is not None:
        rep.obligation("whitelist literal extracted from OPF.distance's setter == set(DISTANCES) (live)",
                       sorted(static_wl) == sorted(D), "only in whitelist: %s; only in DISTANCES: %s"
                       % (sorted(set(static_wl) - set(D)), sorted(set(D) - set(static_wl))))
    rep.corr["registry_live"] = dict(cases=ctor_cases, disagreements=reg_problems, identifiers=len(candidates),
                                     non_keys=len(non_keys), constructors=[c for c, _ in MODEL_CTORS] + ["OPF"])

    # ---- (d') the identifier still resolves to its registered function after the documented save -> load route
    import opfython.core.opf as opfmod
    sl_dir = os.path.join(BUILD, "c06_tmp")
    os.makedirs(sl_dir, exist_ok=True)
    sl_bad = 0
    for k in sorted(D):
        f = os.path.join(sl_dir, "m.pkl")
        try:
            a = opfmod.OPF(distance=k)
            a.save(f)
            other = "euclidean" if k != "euclidean" else "manhattan"
            b = opfmod.OPF(distance=other)
            b.load(f)
            ok = (b.distance == k and b.distance_fn is D[k] and a.distance_fn is D[k])
        except Exception as ex:   # noqa
            ok = False
        if not ok:
            sl_bad += 1
            if sl_bad <= 2:
                rep.violation("after OPF(distance=%r).save(f); OPF(distance=%r).load(f) the loaded object's distance / distance_fn is %r / %s, not the registered function of %r"
                              % (k, other, getattr(b, "distance", None), getattr(getattr(b, "distance_fn", None), "__name__", None), k),
                              dict(kind="registry", identifier=k, route="save/load", loaded_into=other), key="registry:saveload")
    try:
        os.unlink(os.path.join(sl_dir, "m.pkl"))
    except OSError:
        pass
    rep.corr["registry_save_load"] = dict(cases=len(D), disagreements=sl_bad)

    # ---- (b) + (c): per metric --------------------------------------------------------------
    reps = 1 if tier == "quick" else 40
    stats = dict(compared_ref=0, compared_ir=0, via_models=0, skipped_domain=0, skipped_ill_conditioned=0,
                 by_length={}, by_style={})
    tv_bad, ref_bad = {}, {}
    for name in spec_names:
        if name not in D:
            continue
        fn = D[name]
        dom = metric_ref.DOMAIN[name]
        n_ir = 0
        for ci, (style, x, y) in enumerate(cases_for(rng, dom, reps)):
            got, note = call_impl(fn, x, y)
            r = ev.exact_and_bound(lambda o: metric_ref.reference(name, o, x, y))
            if r[0] == "domain":
                stats["skipped_domain"] += 1
                continue
            if r[0] == "straddle":
                stats["skipped_ill_conditioned"] += 1
                continue
            _, exact, bound = r
            stats["compared_ref"] += 1
            stats["by_length"][len(x)] = stats["by_length"].get(len(x), 0) + 1
            stats["by_style"][style] = stats["by_style"].get(style, 0) + 1
            nontrivial = exact != 0 and x != y and bound < 1e-6 * abs(float(exact))
            rep.count_case((name, tuple(x), tuple(y)), nontrivial)
            if not agrees(got, exact, bound):
                ref_bad.setdefault(name, []).append((x, y))
                if len(ref_bad[name]) == 1:
                    sx, sy = shrink_metric(name, fn, list(x), list(y), ev)
                    ro = metric_replay_obj(name, fn, sx, sy, ev)
                    rep.violation("metric %r differs from its closed form: x=%r y=%r expected=%r got=%r"
                                  % (name, sx, sy, ro["expected"], ro["got"]), ro, key="metric:%s" % name)
            if len(rep.samples) < 6 and ci == 17:
                rep.samples.append(dict(name=name, x=x, y=y, got=got, closed_form=float(exact), error_bound=bound))
            # translator validation: the IR must describe what the code computes
            if ir is not None and name in ir.registry:
                q = ev.exact_and_bound(lambda o: ir.metric_value(o, name, x, y))
                if q[0] == "ok":
                    n_ir += 1
                    stats["compared_ir"] += 1
                    if not agrees(got, q[1], q[2]):
                        tv_bad.setdefault(name, []).append(dict(x=x, y=y, ir=float(q[1]), got=got if got is not None else note))
            # the same identifier through each model's `distance` option (values, not only identity)
            if ci < 3:
                for cname, _ in MODEL_CTORS:
                    mf = model_fns.get((cname, name))
                    if mf is None:
                        continue
                    g2, _n = call_impl(mf, x, y)
                    stats["via_models"] += 1
                    if g2 != got and not (g2 is None and got is None):
                        rep.violation("%s(distance=%r).distance_fn(x, y) = %r but DISTANCES[%r](x, y) = %r" % (cname, name, g2, name, got),
                                      dict(kind="registry", identifier=name, model=cname, kwargs={}, outcome="different value",
                                           in_DISTANCES=True, x=x, y=y), key="registry:%s" % name)
        if ir is None:
            rep.obligation("translator validation %s" % name, False, ir_msg)
        elif name not in ir.registry:
            rep.obligation("translator validation %s" % name, False, "identifier not in the generated registry")
        else:
            bad = tv_bad.get(name, [])
            rep.obligation("translator validation %s (generated IR vs DISTANCES[%r] on %d vector pairs)" % (name, name, n_ir),
                           not bad and n_ir > 0, "%d disagreements; first: %r" % (len(bad), bad[:1]))
    rep.corr["translator_validation"] = dict(cases=stats["compared_ir"], disagreements=sum(len(v) for v in tv_bad.values()),
                                             metrics=len(spec_names), via_model_classes=stats["via_models"])
    rep.corr["reference_closed_forms"] = dict(cases=stats["compared_ref"], disagreements=sum(len(v) for v in ref_bad.values()),
                                              skipped_out_of_domain=stats["skipped_domain"],
                                              skipped_ill_conditioned=stats["skipped_ill_conditioned"],
                                              by_length=stats["by_length"], by_style=stats["by_style"])
    # ---- argument dtypes and layouts: whole-number vectors handed over as integer arrays of several widths (counts,
    #      histograms, pixel values; zeros included where the domain allows them), and float64 values in strided / read-only
    #      arrays. The closed form does not depend on the container: judged against the same reference.
    import numpy as np
    fstats = dict(cases=0, by_form={}, disagreements=0)
    names_sorted = [nm for nm in spec_names if nm in D]
    rot = seed % max(1, len(names_sorted))
    rotating = set(names_sorted[(rot + 6 * j) % len(names_sorted)] for j in range(8))

    def forms_for(name):
        fs = [("int64", lambda v: np.array(v, dtype=np.int64))]
        if name in rotating or tier == "thorough":
            # signed types only: for unsigned arrays `x - y` wraps around (numpy's own semantics), so every body that takes
            # |x - y| is outside its closed form there - unsigned vectors are not in the judged domain (DESIGN section 6)
            # (and no 8/16-bit types: numpy promotes them to float32 inside fabs / log / sqrt, i.e. single-precision results)
            fs += [("int32", lambda v: np.array(v, dtype=np.int32))]
            def strided(v):
                w = np.full(2 * len(v) + 1, 3.25); w[1::2] = v
                return w[1::2]
            def readonly(v):
                a = np.array(v, dtype=np.float64); a.setflags(write=False)
                return a
            fs += [("strided", strided), ("readonly", readonly)]
        return fs

    for name in names_sorted:
        fn = D[name]
        dom = metric_ref.DOMAIN[name]
        if dom == "prob":
            continue                      # probability vectors are not whole numbers
        for n in (1, 2, 4, 7):
            for rep_i in range(2 if tier == "quick" else 12):
                lo = 1 if dom == "pos" else 0
                xi = [rng.randint(lo, 5) for _ in range(n)]
                yi = [rng.randint(lo, 5) for _ in range(n)]
                if dom in ("nonneg", "real") or lo == 0:
                    # shared empty bins: zero in both vectors at the same coordinate
                    for t in range(n):
                        if rng.random() < 0.3:
                            xi[t] = yi[t] = 0
                xf, yf = [float(v) for v in xi], [float(v) for v in yi]
                r = ev.exact_and_bound(lambda o: metric_ref.reference(name, o, xf, yf))
                if r[0] != "ok":
                    continue
                base, _ = call_impl(fn, xf, yf)
                if not agrees(base, r[1], r[2]):
                    continue              # reported by the float64 stream above, if it is a disagreement at all
                # a caller-owned buffer as FIRST argument, evaluated, refilled in place with other values and evaluated again:
                # the second value is the closed form of the buffer's current contents
                try:
                    buf = np.array([v + 1.5 for v in xf], dtype=np.float64)
                    ya_ = np.array(yf, dtype=np.float64)
                    fn(buf, ya_)
                    buf[:] = xf
                    gotb = float(fn(buf, ya_)); noteb = ""
                except Exception as ex:  # noqa
                    gotb, noteb = None, "%s: %s" % (type(ex).__name__, ex)
                fstats["cases"] += 1; fstats["by_form"]["refilled_buffer"] = fstats["by_form"].get("refilled_buffer", 0) + 1
                if not agrees(gotb, r[1], r[2]):
                    fstats["disagreements"] += 1
                    if fstats["disagreements"] <= 3:
                        rep.violation("metric %r on a first-argument buffer refilled in place differs from its closed form: buffer held %r, now %r, y=%r expected=%r got=%r"
                                      % (name, [v + 1.5 for v in xf], xf, yf, float(r[1]), gotb if gotb is not None else noteb),
                                      dict(kind="metric_argument_form", name=name, form="refilled_buffer", first_contents=[v + 1.5 for v in xf], x=xf, y=yf,
                                           expected=float(r[1]), got=gotb if gotb is not None else noteb), key="metric:%s" % name)
                for form, mk in forms_for(name):
                    if form in ("strided", "readonly"):
                        xa, ya = mk([v + 0.5 for v in xf]), mk([v + 0.25 for v in yf])
                        rr = ev.exact_and_bound(lambda o: metric_ref.reference(name, o, [v + 0.5 for v in xf], [v + 0.25 for v in yf]))
                        if rr[0] != "ok":
                            continue
                    else:
                        xa, ya, rr = mk(xi), mk(yi), r
                    try:
                        got2 = float(fn(xa, ya)); note2 = ""
                    except Exception as ex:  # noqa
                        got2, note2 = None, "%s: %s" % (type(ex).__name__, ex)
                    fstats["cases"] += 1; fstats["by_form"][form] = fstats["by_form"].get(form, 0) + 1
                    if not agrees(got2, rr[1], rr[2]):
                        fstats["disagreements"] += 1
                        if fstats["disagreements"] <= 3:
                            rep.violation("metric %r on %s arguments differs from its closed form: x=%r y=%r expected=%r got=%r (the same values as contiguous float64 arrays give %r)"
                                          % (name, form, xa.tolist(), ya.tolist(), float(rr[1]), got2 if got2 is not None else note2, base),
                                          dict(kind="metric_argument_form", name=name, form=form, x=xa.tolist(), y=ya.tolist(), expected=float(rr[1]),
                                               got=got2 if got2 is not None else note2), key="metric:%s" % name)
    rep.corr["argument_forms"] = fstats
    # ---- the reference table against the repository's pinned unit-test values (guards the spec table itself)
    pins, pin_bad = pinned_points(), []
    fl = errnum.FloatOps()
    for (name, x, y, val, dec) in pins:
        if name not in metric_ref.TABLE:
            pin_bad.append((name, "no closed form"))
            continue
        try:
            v = float(metric_ref.reference(name, fl, x, y))
        except ArithmeticError as ex:
            pin_bad.append((name, str(ex)))
            continue
        ok = (round(v, dec) == val) if dec is not None else abs(v - val) <= 1e-9 * max(abs(val), 1e-12)
        if not ok:
            pin_bad.append((name, "closed form %r, pinned %r" % (v, val)))
    if pins:
        rep.obligation("reference closed forms reproduce the repository's pinned unit-test values (%d points)" % len(pins),
                       not pin_bad, "%r" % pin_bad[:5])
    rep.extra["pinned_points"] = len(pins)
    rep.extra["tolerance"] = dict(rtol=RTOL, error_bound_multiple=KB)
    rep.assumptions = [
        "theorems are over the reals; 'up to rounding' = the gap between the real-number evaluator and binary64 (DESIGN section 8); "
        "the search allows 1e-9 relative + 64x a first-order running error bound",
        "inputs are equal-length float64 vectors without NaN/inf, inside the metric's domain (harness/metric_ref.py:DOMAIN)",
        "inputs whose rounding-error bound reaches a domain edge or a branch point (sqrt/log/division near 0, comparisons "
        "closer than the bound) are skipped and counted (skipped_ill_conditioned)",
        "the EPSILON shift is exact over the reals; in binary64 x + 1e-20 == x for |x| > 1e-4",
        "`mask[i] is True` inside @njit is a boolean test (hassanat); validated here by mixed-sign inputs",
    ]
    # ---- quantitative rounding bounds (Props/C06_rounding.v) on the real functions
    import c06_rounding
    c06_rounding.run(rep, D, tier, seed)
    # ---- bit-exact binary64 correspondence: DISTANCES[name] vs metric_flt (Model/MetricFlt.v, Props/C06_flt.v)
    import c06_flt
    c06_flt.run(rep, D, tier, seed)
    return rep.finish()


def replay(path):
    setup_impl_env()
    r = json.load(open(path))["replay"]
    import opfython.math.distance as dist
    if r["kind"] == "metric":
        ev = Evaluators()
        name, x, y = r["name"], [float(v) for v in r["x"]], [float(v) for v in r["y"]]
        if name not in dist.DISTANCES:
            print("replay: %r is not in DISTANCES" % name)
            return 1
        q = ev.exact_and_bound(lambda o: metric_ref.reference(name, o, x, y))
        got, note = call_impl(dist.DISTANCES[name], x, y)
        if q[0] != "ok":
            print("replay: input outside the comparable domain (%s)" % (q[1],))
            return 0
        ok = agrees(got, q[1], q[2])
        print("replay: %s x=%r y=%r closed form=%r got=%r -> %s" % (name, x, y, float(q[1]), got if got is not None else note,
                                                                     "agree" if ok else "DIFFER"))
        return 0 if ok else 1
    if r["kind"] == "rounding":
        import c06_rounding
        return c06_rounding.replay(r, dist.DISTANCES)
    if r["kind"] == "metric_flt":
        import c06_flt
        return c06_flt.replay(r, dist.DISTANCES)
    if r["kind"] == "registry":
        import opfython.models as models
        import opfython.utils.exception as oe
        from opfython.core import OPF
        k, cname = r["identifier"], r["model"]
        cls = OPF if cname == "OPF" else getattr(models, cname)
        try:
            obj = cls(distance=k, **r.get("kwargs", {}))
            outcome = "accepted"
            same = k in dist.DISTANCES and obj.distance_fn is dist.DISTANCES[k]
        except oe.TypeError:
            outcome, same = "rejected", True
        except KeyError:
            outcome, same = "keyerror", False
        want = "accepted" if k in dist.DISTANCES else "rejected"
        known = k in metric_ref.TABLE or k not in dist.DISTANCES
        ok = outcome == want and same and known
        print("replay: %s(distance=%r) -> %s; in DISTANCES: %s; has a specified closed form: %s -> %s"
              % (cname, k, outcome, k in dist.DISTANCES, k in metric_ref.TABLE, "consistent" if ok else "INCONSISTENT"))
        return 0 if ok else 1
    print("replay: unknown replay kind")
    return 2
