"""C09 - a prediction depends only on the fitted model and the sample itself (all four model kinds)."""
import random

from supcommon import *  # noqa
import supcheck
import knncommon as K
import knncheck as KC


def main(tier, seed):
    setup_impl_env()
    import warnings
    warnings.simplefilter("ignore")
    rep = Report("C09", tier, seed)
    standard_proof_phase(rep, "C09", supcheck.MODEL_FILES + KC.KNN_FILES + ["Props/C09"])
    rng = random.Random(seed + 9)
    nviol = 0
    # ---- supervised / semi-supervised: batch vs singleton vs permuted vs repeated calls; correspondence on the batch
    N = 150 if tier == "quick" else 12000
    terms, expect, insts = [], [], []
    stats = dict(sup=0, semi=0, knn=0, unsup=0, queries=0)
    for i in range(N):
        semi = (i % 4 == 3)
        it = gen_instance(rng, nmax=9, nu=rng.randint(0, 3) if semi else 0, m=rng.randint(2, 6))
        try:
            opf, st = impl_semi_fit(it) if semi else impl_fit(it)
        except Exception:
            continue
        base = it.n + it.nu
        rows = list(range(base, base + it.m))
        rows += [rng.choice(rows) for _ in range(rng.randint(0, 2))]          # duplicates
        if rng.random() < 0.3:
            rows.append(rng.randrange(it.n))                                   # a training row as query
        try:
            preds, rel = impl_predict(opf, it, rows)
        except Exception as ex:
            nviol += 1
            if nviol <= 3:
                rep.violation(("semi-supervised" if semi else "supervised") + " predict raised %r on batch %r" % (ex, rows), it.desc(), key="predict_position:sup")
            continue
        stats["semi" if semi else "sup"] += 1; stats["queries"] += len(rows)
        rk = ranker_for(it)
        terms.append(term_predict(it, rk, rows=rows, semi=semi)); expect.append(preds + rel); insts.append(it)
        rep.count_case((it.key(), tuple(rows)), True)
        msg = None
        perm = list(range(len(rows))); rng.shuffle(perm)
        try:
            pp, _ = impl_predict(opf, it, [rows[j] for j in perm])
            for a, j in enumerate(perm):
                if pp[a] != preds[j]:
                    msg = "point %d predicted %d in batch %r but %d in the permuted batch" % (rows[j], preds[j], rows, pp[a]); break
            if not msg:
                for j, r in enumerate(rows):
                    one, _ = impl_predict(opf, it, [r])
                    if one[0] != preds[j]:
                        msg = "point %d predicted %d at position %d of batch %r but %d alone" % (r, preds[j], j, rows, one[0]); break
            if not msg:
                again, _ = impl_predict(opf, it, rows)
                if again != preds:
                    msg = "a second predict call on the same batch returned different labels"
        except Exception as ex:
            msg = "predicting rows of batch %r alone / permuted / again raised %r although the whole batch was predicted" % (rows, ex)
        if not msg:
            st2 = node_state(opf.subgraph)
            for f in ("cost", "pred", "plabel", "label", "status", "order"):
                if st2[f] != st[f]:
                    msg = "predict changed the fitted forest (field %s)" % f; break
        if msg:
            nviol += 1
            if nviol <= 3:
                rep.violation(("semi-supervised" if semi else "supervised") + " predict: " + msg, it.desc(), key="predict_position:sup")
    # ---- sparse count features (many exact zeros) under per-coordinate ratio metrics: predictions must not drift with
    #      the number of earlier distance evaluations on the same training rows / query arrays
    from opfython.models.supervised import SupervisedOPF
    NS = 40 if tier == "quick" else 800
    for i in range(NS):
        metric = rng.choice(["canberra", "clark", "divergence", "vicis_wave_hedges", "vicis_symmetric1", "soergel", "kulczynski"])
        n, dim = rng.randint(6, 12), rng.randint(3, 6)
        X = np.array([[float(rng.choice([0, 0, 0, 1, 2, 3])) for _ in range(dim)] for _ in range(n)])
        Y = np.array([j % 2 for j in range(n)])
        Xq = np.array([[float(rng.choice([0, 0, 1, 2])) for _ in range(dim)] for _ in range(6)])
        opf = SupervisedOPF(distance=metric)
        try:
            opf.fit(X, Y)
            first = [int(v) for v in opf.predict(Xq)]
            second = [int(v) for v in opf.predict(Xq)]
            third = [int(v) for v in opf.predict(Xq[::-1])][::-1]
            singles = [int(opf.predict(Xq[j:j + 1])[0]) for j in range(len(Xq))]
        except Exception:   # noqa
            continue
        stats["sup"] += 1; stats["queries"] += 4 * len(Xq)
        rep.count_case(("sparse", metric, X.tobytes(), Xq.tobytes()), True)
        if not (first == second == third == singles):
            nviol += 1
            if nviol <= 3:
                rep.violation("supervised predict (%s, sparse counts): the same query rows are labelled %r, then %r, reversed batch %r, one by one %r" % (metric, first, second, third, singles),
                              dict(metric=metric, X=X.tolist(), Y=Y.tolist(), Xq=Xq.tolist()), key="predict_position:sup")
    # ---- large structured batches (> 256 and > 1024 queries) for all four kinds: whole / alone / chunked / reversed / rotated / again
    #      (own generator: the streams below see the same cases as before; thorough tier: two of them also go to the Coq model)
    import large_ab
    nviol += large_ab.c09_large(rep, tier, seed, coq=(terms, expect, insts))
    bad = supcheck.corr(rep, "correspondence Model/Sup.predict_batch vs predict on batches with duplicates and training rows", "C09sup", terms, expect, insts)
    rep.corr["sup_batches"] = dict(cases=len(terms), disagreements=None if bad is None else len(bad))
    # ---- KNN-supervised / unsupervised
    NK = 120 if tier == "quick" else 8000
    for idx in range(NK):
        which = "knn" if idx % 2 == 0 else "unsup"
        m = rng.randint(2, 7)
        it = K.gen_split_inst(rng, nmax=11, m=m) if which == "knn" else K.gen_kinst(rng, nmin=6, nmax=11, m=m, labelled=True)
        d = it.desc(); d["model"] = which
        try:
            opf, tr = KC.fit_knn_models(rng, it, which)
        except Exception:
            continue
        if float(opf.subgraph.constant) == 0.0:
            continue
        rows = list(range(it.n, it.n + m))
        rows += [rng.choice(rows) for _ in range(rng.randint(0, 2))]
        if rng.random() < 0.4:
            rows = [tr[rng.randrange(len(tr))]] + rows

        def model_state():
            sg = opf.subgraph
            st_ = K.knn_state(sg)
            st_.pop("order", None)
            for a_ in ("constant", "min_density", "max_density", "best_k", "density"):
                v_ = getattr(sg, a_, None)
                st_[a_] = None if v_ is None else float(v_)
            return st_
        fitted = model_state()
        try:
            preds, clus = KC.knn_predict_rows(opf, it, rows, which)
        except Exception as ex:
            nviol += 1
            if nviol <= 3:
                rep.violation("%s predict raised %r" % (which, ex), d, key="predict_position:" + which)
            continue
        stats[which] += 1; stats["queries"] += len(rows)
        rep.count_case((it.key(), which, tuple(rows)), True)
        msg = None
        for pos, r in enumerate(rows):
            alone, calone = KC.knn_predict_rows(opf, it, [r], which)
            if alone[0] != preds[pos] or (clus is not None and calone[0] != clus[pos]):
                msg = "point %d gets %r at batch position %d of %r but %r when predicted alone" % (r, preds[pos], pos, rows, alone[0]); break
        if not msg:
            perm = list(range(len(rows))); rng.shuffle(perm)
            pp, pc = KC.knn_predict_rows(opf, it, [rows[j] for j in perm], which)
            for a, j in enumerate(perm):
                if pp[a] != preds[j] or (clus is not None and pc[a] != clus[j]):
                    msg = "point %d predicted %r in batch %r but %r in the permuted batch" % (rows[j], preds[j], rows, pp[a]); break
        if not msg:
            again, _ = KC.knn_predict_rows(opf, it, rows, which)
            if again != preds:
                msg = "a second predict call returned different labels"
        if not msg:
            now = model_state()
            ch = [f for f in fitted if repr(fitted[f]) != repr(now[f])]
            if ch:
                msg = "predict changed the fitted model (%s: %r -> %r), so later predictions depend on earlier ones" % (ch[0], fitted[ch[0]], now[ch[0]])
        if msg:
            nviol += 1
            if nviol <= 3:
                rep.violation("%s predict: %s" % (which, msg), dict(d, batch=rows), key="predict_position:" + which)
    # ---- integer-coded rows on both sides of a class boundary between two adjacent codes (c-1 | c, for every c in -3..3),
    #      all in one batch: each row's label must be the one it gets alone (rows that merely look alike - equal hashes,
    #      equal prefixes - are different samples)
    from opfython.models.knn_supervised import KNNSupervisedOPF
    from opfython.models.unsupervised import UnsupervisedOPF
    for rep_i in range(2 if tier == "quick" else 40):
        for cbound in range(-3, 4):
            pts = [(float(x), float(y)) for x in range(cbound - 3, cbound + 3) for y in range(3)]
            rng.shuffle(pts)
            labs = [1 if x >= cbound else 2 for (x, _) in pts]
            Xall, Yall = np.array(pts), np.array(labs)
            ntr = 12
            if len(set(labs[:ntr])) < 2 or len(set(labs[ntr:])) < 2:
                continue
            Q = np.array([[float(cbound + dx), float(y) + rng.choice([0.0, 0.25])] for y in range(3) for dx in (0, -1, 1, -2)])
            d = dict(model="knn", boundary_between=[cbound - 1, cbound], X=Xall.tolist(), Y=Yall.tolist(), n_train=ntr, queries=Q.tolist())
            for which in ("knn", "unsup"):
                try:
                    if which == "knn":
                        mdl = KNNSupervisedOPF(max_k=3, distance="euclidean")
                        mdl.fit(Xall[:ntr].copy(), Yall[:ntr].copy(), Xall[ntr:].copy(), Yall[ntr:].copy())
                        one = lambda A: [int(v) for v in mdl.predict(A)]
                    else:
                        mdl = UnsupervisedOPF(min_k=1, max_k=3, distance="euclidean")
                        mdl.fit(Xall.copy(), Yall.copy()); mdl.propagate_labels()
                        one = lambda A: [tuple(int(v) for v in pr) for pr in zip(*mdl.predict(A))]
                    batch = one(Q.copy())
                    singles = [one(Q[j:j + 1].copy())[0] for j in range(len(Q))]
                    rev = one(Q[::-1].copy())[::-1]
                except Exception:
                    continue
                stats[which] += 1; stats["queries"] += 3 * len(Q)
                rep.count_case(("boundary", which, cbound, Xall.tobytes(), Q.tobytes()), True)
                if not (batch == singles == rev):
                    nviol += 1
                    if nviol <= 3:
                        j = [t for t in range(len(Q)) if not (batch[t] == singles[t] == rev[t])][0]
                        rep.violation("%s predict: row %r gets %r in the batch, %r alone, %r in the reversed batch" % (which, Q[j].tolist(), batch[j], singles[j], rev[j]),
                                      dict(d, model=which), key="predict_position:" + which)
    rep.corr["knn_batches"] = dict(cases=stats["knn"] + stats["unsup"], distribution=stats)
    import drive_streams
    nviol += drive_streams.reused_containers(rep, rng, tier)
    nviol += drive_streams.overflow_queries(rep, rng, tier)
    rep.extra["oracle_violations"] = nviol
    rep.samples = [it.desc() for it in insts[:2]]
    rep.rule = ("fitted models of all four kinds; batches of 2-9 queries with duplicated rows and training rows; each batch is predicted as a whole, permuted, row by row "
                "and a second time; plus, per kind, one batch of > 256 and one of > 1024 structured queries (harness/large_ab.py) predicted as a whole, "
                "row by row, in chunks of three other sizes, reversed, rotated and again; distinct = distinct (instance, batch)")
    rep.assumptions = supcheck.COMMON_ASSUMPTIONS
    return rep.finish()


def replay(path):
    r = json.load(open(path)).get("replay") or {}
    if isinstance(r, dict) and str(r.get("generator", "")).startswith("large_ab."):
        setup_impl_env()
        import large_ab
        return large_ab.c09_replay(r)
    print(open(path).read()[:2000])
    return 0
