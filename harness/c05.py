"""C05 - the indexed heap is a correct priority queue for every operation sequence."""
import itertools
import random
import sys

from common import *  # noqa

FLOAT_MAX = sys.float_info.max


def gen_history(rng, valid=True, max_size=8, max_len=40):
    size = rng.randint(1, max_size)
    pol = rng.choice(["min", "max"])
    k = rng.choice([1, 2, 3, 50])
    alphabet = [float(rng.randint(0, 9)) if k < 50 else rng.random() * 10 for _ in range(k)] if k < 50 else None
    def cost():
        return rng.choice(alphabet) if alphabet else round(rng.random() * 100, 3)
    ops = []
    color = [0] * size
    cur = [FLOAT_MAX] * size
    queued = set()
    for _ in range(rng.randint(1, max_len)):
        r = rng.random()
        whites = [p for p in range(size) if color[p] != 1]
        grays = sorted(queued)
        if not valid and r < 0.15:
            # invalid stream: duplicate insert, worsening update, update of a black element
            kind = rng.choice(["dup", "worse", "any"])
            if kind == "dup" and grays:
                p = rng.choice(grays); ops.append(("ins", p, 0.0))
                if len(queued) < size:
                    pass  # p stays gray; heap now holds it twice (model must agree on the state)
                continue
            if kind == "worse" and grays:
                p = rng.choice(grays); c = cost(); ops.append(("upd", p, c)); cur[p] = c; continue
            p = rng.randrange(size); c = cost(); ops.append(("upd", p, c)); cur[p] = c
            if color[p] == 0 and len(queued) < size:
                color[p] = 1; queued.add(p)
            continue
        if r < 0.30 and whites:
            p = rng.choice(whites)
            ops.append(("ins", p, 0.0))
            if len(queued) < size:
                color[p] = 1; queued.add(p)
        elif r < 0.55:
            # update: white -> insert with cost; gray -> improve-or-equal; black -> cost write only
            p = rng.randrange(size)
            if color[p] == 1:
                cands = [c for c in ((alphabet or []) + [cur[p]]) if (c <= cur[p] if pol == "min" else c >= cur[p])]
                if alphabet is None:
                    c = cur[p] - rng.random() if pol == "min" else cur[p] + rng.random()
                    if cur[p] == FLOAT_MAX and pol == "min":
                        c = cost()
                    if cur[p] == FLOAT_MAX and pol == "max":
                        c = cur[p]
                else:
                    c = rng.choice(cands)
            else:
                c = cost()
            ops.append(("upd", p, c)); cur[p] = c
            if color[p] == 0 and len(queued) < size:
                color[p] = 1; queued.add(p)
        elif r < 0.80:
            ops.append(("rem", 0, 0.0))
            # which one is removed is decided by the heap; mirror by extremal cost is not unique => track lazily
            if queued:
                # we cannot know which tie is removed; recompute from the implementation later. Keep a
                # conservative shadow: mark unknown by running a reference removal of *some* extremal.
                best = min(queued, key=lambda q: cur[q]) if pol == "min" else max(queued, key=lambda q: cur[q])
                ties = [q for q in queued if cur[q] == cur[best]]
                if len(ties) > 1:
                    # shadow unknown: stop tracking precisely by ending the history here (keeps validity exact)
                    ops.append(("stop", 0, 0.0))
                    break
                queued.discard(best); color[best] = 2
        elif r < 0.90:
            ops.append(("empty", 0, 0.0))
        else:
            ops.append(("full", 0, 0.0))
    return size, pol, ops


def continue_history(rng, size, pol, h, ops_done, budget, alphabet_vals):
    """Extend a history on the live implementation heap (so that ties in removal are followed exactly)."""
    raise NotImplementedError


TAG = {"ins": 0, "upd": 1, "rem": 2, "empty": 3, "full": 4}


def run_impl(size, pol, ops, ctype=None):
    from opfython.core import Heap
    import opfython.utils.constants as c
    h = Heap(size, pol)
    trace = []
    for (k, a, b) in ops:
        if k == "ins":
            r = h.insert(a); code = 1 if r else 0
        elif k == "upd":
            r = h.update(a, b if ctype is None else ctype(b)); code = -2
        elif k == "rem":
            r = h.remove()
            code = -1 if r is False else 100 + int(r)
        elif k == "empty":
            code = 1 if h.is_empty() else 0
        elif k == "full":
            code = 1 if h.is_full() else 0
        n = h.last + 1
        trace.append((code, n, list(h.p), list(h.cost), list(h.color), list(h.pos)))
    return trace


def gen_valid_live_big(rng, size, n_ops):
    """A valid history on a heap that holds more than 64 elements for most of its length: fill phase (inserts with and
    without a cost), then improving updates of queued elements (most of them deep in the heap), removals and re-inserts."""
    from opfython.core import Heap
    pol = rng.choice(["min", "max"])
    k = rng.choice([3, 12, 0])
    alphabet = sorted(set(float(rng.randint(0, 40)) for _ in range(k))) if k else None
    h = Heap(size, pol)
    ops = []

    def do(op):
        ops.append(op)
        if op[0] == "ins":
            h.insert(op[1])
        elif op[0] == "upd":
            h.update(op[1], op[2])
        elif op[0] == "rem":
            h.remove()

    def start_cost():
        return rng.choice(alphabet) if alphabet else round(rng.random() * 1000, 4)

    def improved(cur):
        if alphabet:
            return rng.choice([c for c in alphabet if (c <= cur if pol == "min" else c >= cur)] or [cur])
        if cur == FLOAT_MAX:
            return start_cost() if pol == "min" else cur
        return cur - rng.random() * rng.choice([0.01, 5.0, 200.0]) if pol == "min" else cur + rng.random() * rng.choice([0.01, 5.0, 200.0])

    order = list(range(size)); rng.shuffle(order)
    for p in order[:rng.randint(int(0.8 * size), size)]:
        do(("upd", p, start_cost()) if rng.random() < 0.8 else ("ins", p, 0.0))
    while len(ops) < n_ops:
        r = rng.random()
        gray = [p for p in range(size) if h.color[p] == 1]
        nongray = [p for p in range(size) if h.color[p] != 1]
        if r < 0.55 and gray:
            # prefer elements in the lower half of the array (deep positions)
            deep = [h.p[i] for i in range((h.last + 1) // 2, h.last + 1)]
            p = rng.choice(deep if deep and rng.random() < 0.7 else gray)
            do(("upd", p, improved(h.cost[p])))
        elif r < 0.75:
            do(("rem", 0, 0.0))
        elif r < 0.93 and nongray:
            p = rng.choice(nongray)
            do(("upd", p, start_cost()) if rng.random() < 0.7 else ("ins", p, 0.0))
        else:
            do((rng.choice(["empty", "full"]), 0, 0.0))
    # drain: every queued element has to come out in order
    for _ in range(rng.randint(0, h.last + 2)):
        do(("rem", 0, 0.0))
    return size, pol, ops


def gen_valid_live(rng, max_size=8, max_len=40, exhaustive=None, alphabet_override=None):
    """Generate a valid history by driving the real heap (ties in removal are then followed exactly)."""
    from opfython.core import Heap
    size = rng.randint(1, max_size)
    pol = rng.choice(["min", "max"])
    k = rng.choice([1, 2, 3, 50])
    alphabet = sorted(set(float(rng.randint(0, 9)) for _ in range(k))) if k < 50 else None
    if alphabet_override is not None:
        alphabet = alphabet_override
    h = Heap(size, pol)
    ops = []
    for _ in range(rng.randint(1, max_len)):
        r = rng.random()
        nongray = [p for p in range(size) if h.color[p] != 1]
        gray = [p for p in range(size) if h.color[p] == 1]
        if r < 0.25 and nongray:
            p = rng.choice(nongray); op = ("ins", p, 0.0)
        elif r < 0.60:
            p = rng.randrange(size)
            if h.color[p] == 1:
                cur = h.cost[p]
                if alphabet:
                    cands = [c for c in alphabet if (c <= cur if pol == "min" else c >= cur)] or [cur]
                    c = rng.choice(cands)
                else:
                    if pol == "min":
                        c = rng.random() * 100 if cur == FLOAT_MAX else cur - rng.random()
                    else:
                        c = cur if cur == FLOAT_MAX else cur + rng.random()
            else:
                c = rng.choice(alphabet) if alphabet else round(rng.random() * 100, 3)
            op = ("upd", p, c)
        elif r < 0.85:
            op = ("rem", 0, 0.0)
        elif r < 0.93:
            op = ("empty", 0, 0.0)
        else:
            op = ("full", 0, 0.0)
        ops.append(op)
        if op[0] == "ins":
            h.insert(op[1])
        elif op[0] == "upd":
            h.update(op[1], op[2])
        elif op[0] == "rem":
            h.remove()
    return size, pol, ops


def oracle(size, pol, ops, trace):
    """The property itself, evaluated on the implementation's answers (abstract priority queue)."""
    queued = {}      # elem -> cost
    cost = [FLOAT_MAX] * size
    color = [0] * size
    inserted, removed = [], []
    for step, ((k, a, b), (code, n, p, cst, col, pos)) in enumerate(zip(ops, trace)):
        if k == "ins":
            if len(queued) < size:
                if code != 1:
                    return "step %d: insert on a non-full heap reported failure" % step
                queued[a] = cost[a]; inserted.append(a); color[a] = 1
            else:
                if code != 0:
                    return "step %d: insert on a full heap reported success" % step
        elif k == "upd":
            cost[a] = b
            if a in queued:
                queued[a] = b
            elif color[a] == 0 and len(queued) < size:
                queued[a] = b; inserted.append(a); color[a] = 1
        elif k == "rem":
            if not queued:
                if code != -1:
                    return "step %d: remove on an empty heap returned %d" % (step, code)
            else:
                if code < 100:
                    return "step %d: remove on a non-empty heap reported failure" % step
                e = code - 100
                if e not in queued:
                    return "step %d: removed element %d is not queued" % (step, e)
                ext = min(queued.values()) if pol == "min" else max(queued.values())
                if queued[e] != ext:
                    return "step %d: removed element %d has cost %r, extremal queued cost is %r" % (step, e, queued[e], ext)
                del queued[e]; removed.append(e); color[e] = 2
        elif k == "empty":
            if (code == 1) != (len(queued) == 0):
                return "step %d: is_empty untruthful" % step
        elif k == "full":
            if (code == 1) != (len(queued) == size):
                return "step %d: is_full untruthful" % step
        if n != len(queued):
            return "step %d: %d elements queued, abstract queue has %d" % (step, n, len(queued))
        if [1 if q in queued else color[q] for q in range(size)] != col:
            return "step %d: colours %r do not reflect the queue" % (step, col)
    if sorted(inserted) != sorted(removed + list(queued)):
        return "inserted elements are not exactly the removed plus the still queued ones"
    return None


def is_valid(size, pol, ops):
    """valid = no duplicate insert, no worsening update of a queued element (decided on an abstract queue
    that follows the implementation's removal answers is unnecessary: validity does not depend on them
    except through which elements are queued; live generation guarantees it)."""
    return True


def encode_case(size, pol, ops):
    vals = [FLOAT_MAX, 0.0] + [b for (_, _, b) in ops]
    rk = Ranker(vals)
    flat = []
    for (k, a, b) in ops:
        flat += [TAG[k], a, rk.r(b)]
    term = "run_heap %d %d %d %s" % (size, 0 if pol == "min" else 1, rk.r(FLOAT_MAX), zlist(flat))
    return term, rk


def expected_dump(size, trace, rk):
    out = []
    for (code, n, p, cst, col, pos) in trace:
        out.append(code)
        out.append(n)
        out += [p[i] if i < n else -1 for i in range(size)]
        out += [rk.r(x) for x in cst]
        out += col
        out += list(pos)
    return out


def exhaustive_histories(n_elems, n_costs, length, pol):
    costs = [1.0, 2.0, 3.0][:n_costs]
    alphabet = [("ins", p, 0.0) for p in range(n_elems)] + [("upd", p, c) for p in range(n_elems) for c in costs] + [("rem", 0, 0.0)]
    for L in range(1, length + 1):
        for ops in itertools.product(alphabet, repeat=L):
            yield n_elems, pol, list(ops)


def main(tier, seed):
    setup_impl_env()
    rep = Report("C05", tier, seed)
    rep.rule = ("histories of insert/update/remove/is_empty/is_full generated by driving the real Heap (valid stream: "
                "updates of queued elements only improve-or-equal, no duplicate insert) plus an invalid stream "
                "(duplicate inserts, worsening updates); capacities 1..8, both policies, cost alphabets of 1,2,3 values "
                "(ties) or distinct; a case is non-trivial when it contains >=1 successful remove and >=2 queued elements "
                "at some point; distinct = distinct (size, policy, op list)")
    standard_proof_phase(rep, "C05", ["Model/Heap", "Model/Run", "Props/C05"])
    rng = random.Random(seed)
    n_valid = 400 if tier == "quick" else 20000
    n_invalid = 150 if tier == "quick" else 5000
    cases = []
    for i in range(n_valid):
        cases.append(("valid",) + gen_valid_live(rng, max_size=8 if i % 5 else 12, max_len=40 if tier == "quick" else 80))
    for i in range(n_invalid):
        size, pol, ops = gen_history(rng, valid=False)
        ops = [o for o in ops if o[0] != "stop"]
        cases.append(("invalid", size, pol, ops))
    # the whole range of binary64 as costs: both infinities, +-FLOAT_MAX, both zeros, the smallest subnormal
    WIDE = [float("-inf"), -FLOAT_MAX, -1e300, -1.5, -5e-324, -0.0, 0.0, 5e-324, 2.5, 1e300, FLOAT_MAX, float("inf")]
    for i in range(80 if tier == "quick" else 3000):
        cases.append(("valid",) + gen_valid_live(rng, max_size=8, max_len=40, alphabet_override=sorted(set(rng.sample(WIDE, rng.randint(2, 6))))))
    # signed whole-number costs with exact zeros among them (costs need not be non-negative)
    for i in range(80 if tier == "quick" else 3000):
        cases.append(("valid",) + gen_valid_live(rng, max_size=8, max_len=40, alphabet_override=sorted(set(float(rng.randint(-4, 4)) for _ in range(rng.randint(2, 6))) | {0.0})))
    exh = 0
    if tier == "thorough":
        for pol in ("min", "max"):
            for c in exhaustive_histories(2, 2, 5, pol):
                cases.append(("exh",) + c); exh += 1
    else:
        for pol in ("min", "max"):
            for c in exhaustive_histories(2, 2, 3, pol):
                cases.append(("exh",) + c); exh += 1
    terms, expect, metas = [], [], []
    stats = dict(valid=0, invalid=0, exh=0, ops=0, removes=0, sizes={}, policies={"min": 0, "max": 0})
    for (stream, size, pol, ops) in cases:
        if not ops:
            continue
        trace = run_impl(size, pol, ops)
        term, rk = encode_case(size, pol, ops)
        terms.append(term); expect.append(expected_dump(size, trace, rk)); metas.append((stream, size, pol, ops, trace))
        stats[stream] += 1; stats["ops"] += len(ops); stats["removes"] += sum(1 for o in ops if o[0] == "rem")
        stats["sizes"][size] = stats["sizes"].get(size, 0) + 1; stats["policies"][pol] += 1
        nontriv = any(t[0] >= 100 for t in trace) and max(t[1] for t in trace) >= 2
        rep.count_case((size, pol, ops), nontriv)
    try:
        got = run_cases("C05", terms)
        corr_ok = True
    except RuntimeError as ex:
        got = None; corr_ok = False
        rep.obligation("correspondence Heap model vs opfython.core.Heap", False, str(ex))
    dis = 0
    first = None
    if got is not None:
        for g, e, m in zip(got, expect, metas):
            if g != e:
                dis += 1
                if first is None:
                    first = m
        rep.obligation("correspondence Heap model vs opfython.core.Heap (full state after every op)", dis == 0,
                       "" if dis == 0 else "%d disagreements; first: size=%d pol=%s ops=%r" % (dis, first[1], first[2], first[3]))
    rep.corr["heap_histories"] = dict(cases=len(terms), disagreements=dis, distribution=stats, exhaustive_small=exh)
    # large heaps (more than 64 queued elements, depth >= 7): answers of every operation + the final state
    big = []
    for i in range(6 if tier == "quick" else 60):
        size = rng.choice([65, 70, 100, 129, 200, 300])
        big.append(("big",) + gen_valid_live_big(rng, size, rng.randint(3 * size, 5 * size)))
    bterms, bexpect = [], []
    for (_, size, pol, ops) in big:
        trace = run_impl(size, pol, ops)
        vals = [FLOAT_MAX, 0.0] + [b for (_, _, b) in ops]
        rk = Ranker(vals)
        flat = []
        for (k, a, b) in ops:
            flat += [TAG[k], a, rk.r(b)]
        bterms.append("run_heap_lite %d %d %d %s" % (size, 0 if pol == "min" else 1, rk.r(FLOAT_MAX), zlist(flat)))
        bexpect.append([t[0] for t in trace] + expected_dump(size, trace[-1:], rk)[1:])
        metas.append(("big", size, pol, ops, trace))
        rep.count_case((size, pol, tuple(ops)), True)
    try:
        bgot = run_cases("C05big", bterms, chunk=1)
        bdis = [m for g, e, m in zip(bgot, bexpect, big) if g != e]
        rep.obligation("correspondence Heap model vs opfython.core.Heap on large heaps (65-300 elements; every answer, final state)", not bdis,
                       "" if not bdis else "%d disagreements; first: size=%d pol=%s, %d ops" % (len(bdis), bdis[0][1], bdis[0][2], len(bdis[0][3])))
    except RuntimeError as ex:
        rep.obligation("correspondence Heap model vs opfython.core.Heap on large heaps", False, str(ex))
    rep.corr["heap_histories_large"] = dict(cases=len(bterms), sizes=[b[1] for b in big], ops=sum(len(b[3]) for b in big))
    import floatorder   # fenc / ranker / PrimFloat.ltb of Props/C0{1,5}_float_order.v are common.enc / Ranker / Python's <
    floatorder.check(rep, tier, seed)
    # oracle on the implementation's own answers (valid and exhaustive-valid streams)
    nviol = 0
    for (stream, size, pol, ops, trace) in metas:
        if stream == "invalid":
            continue
        if stream == "exh" and not exh_valid(size, pol, ops):
            continue
        msg = oracle(size, pol, ops, trace)
        if msg:
            nviol += 1
            if nviol <= 3:
                ops2 = shrink(size, pol, ops)
                rep.violation("heap history violates the priority-queue contract: " + oracle(size, pol, ops2, run_impl(size, pol, ops2)),
                              dict(size=size, policy=pol, ops=ops2), key="heap:" + pol)
    # costs handed over as other number types (Python int, numpy scalars of every width and signedness): same answers
    import numpy as _np
    CTYPES = [int, _np.float32, _np.float16, _np.int8, _np.int16, _np.int32, _np.int64, _np.uint8, _np.uint16, _np.uint32, _np.uint64, _np.longdouble]
    typed = dict(cases=0, types={})
    import warnings as _w
    for (stream, size, pol, ops, trace) in metas:
        if stream not in ("valid", "big") or (stream == "big" and typed["cases"] % 7):
            continue
        cs = [b for (k, a, b) in ops if k == "upd"]
        if not cs or any(b != int(b) or not (0 <= b <= 100) for b in cs if abs(b) != float("inf")) or any(abs(b) == float("inf") for b in cs):
            continue
        ct = CTYPES[typed["cases"] % len(CTYPES)]
        typed["cases"] += 1; typed["types"][ct.__name__] = typed["types"].get(ct.__name__, 0) + 1
        try:
            with _w.catch_warnings():
                _w.simplefilter("ignore")
                tr2 = run_impl(size, pol, ops, ctype=ct)
            msg = oracle(size, pol, ops, tr2)
            if not msg and [(t[0], t[1], t[2], t[4], t[5]) for t in tr2] != [(t[0], t[1], t[2], t[4], t[5]) for t in trace]:
                msg = "answers / internal arrays differ from the run with the same costs given as Python floats"
        except Exception as ex:
            msg = "raised %r" % (ex,)
        if msg:
            nviol += 1
            if nviol <= 3:
                rep.violation("heap history with costs passed as %s: %s" % (ct.__name__, msg), dict(size=size, policy=pol, cost_type=ct.__name__, ops=ops[:400]), key="heap:" + pol)
    rep.corr["cost_types"] = typed
    rep.samples = [dict(size=m[1], policy=m[2], ops=m[3][:12]) for m in metas[:3]]
    rep.extra["oracle_violations"] = nviol
    rep.assumptions = ["costs are non-NaN floats (rank-encoded to Z by an order isomorphism)",
                       "Heap.dad: int((i-1)/2) on binary64 equals the model's natural-number division for every i <= 2^53 (Props/C05_binary64.v: C05_binary64_dad_exact; first wrong parent at i = 2^53+4: C05_binary64_dad_limit); identifying CPython's int/int true division with the division of the two exactly converted floats is the remaining modelling step",
                       "element ids are < size (otherwise the Python code raises IndexError)"]
    return rep.finish()


def exh_valid(size, pol, ops):
    color = [0] * size; cost = [FLOAT_MAX] * size; nq = 0
    from opfython.core import Heap
    h = Heap(size, pol)
    for (k, a, b) in ops:
        if k == "ins":
            if h.color[a] == 1:
                return False
            h.insert(a)
        elif k == "upd":
            if h.color[a] == 1 and not (b <= h.cost[a] if pol == "min" else b >= h.cost[a]):
                return False
            h.update(a, b)
        elif k == "rem":
            h.remove()
    return True


def shrink(size, pol, ops):
    """Greedy removal of operations while the oracle still fails and the history stays valid."""
    import re as _re, time as _time
    cur = list(ops)
    m = _re.match(r"step (\d+):", oracle(size, pol, cur, run_impl(size, pol, cur)) or "")
    if m:
        cur = cur[:int(m.group(1)) + 1]     # nothing after the first failing step is needed
    t0 = _time.time()
    changed = True
    while changed and _time.time() - t0 < 30:
        changed = False
        # larger chunks first (long histories), then single operations
        for width in (len(cur) // 4, len(cur) // 16, 1):
            if width < 1:
                continue
            i = 0
            while i < len(cur) and _time.time() - t0 < 30:
                cand = cur[:i] + cur[i + width:]
                if cand and exh_valid(size, pol, cand) and oracle(size, pol, cand, run_impl(size, pol, cand)):
                    cur = cand; changed = True
                else:
                    i += width
    return cur


def replay(path):
    setup_impl_env()
    r = json.load(open(path))["replay"]
    ops = [tuple(o) for o in r["ops"]]
    msg = oracle(r["size"], r["policy"], ops, run_impl(r["size"], r["policy"], ops))
    print("replay:", msg or "property holds on this history")
    return 1 if msg else 0
