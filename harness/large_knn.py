"""Large-size streams for the KNN family (C12 arcs / densities, C13 clustering, C14 KNN prediction).

The bulk streams of knncheck.py stay below 20 samples. Here a few big inputs per check exercise every size-dependent
dimension of the operations the three properties are about - number of samples (130-600), of features (> 64 once), of
neighbours (k up to ~20 and k around n-1 once), of classes / clusters (> 64 and > 256 roots), depth of the forest (paths
of > 16, > 32, > 64 predecessor links), number of queries per predict call (> 256 and > 1024), feature-based and
pre-computed (matrix embedded through an index map; implicit AND explicit index arrays) - above the usual block sizes
(64, 128, 256, 1024), with data that has the structure the properties need to bite: integer lattices, duplicated rows and
small weight alphabets (ties), class-structured blobs, 1-D / spiral / sunflower sets with a slow density gradient (deep
optimum paths), many tight well-separated groups (many roots).

Every big input is judged by the Python oracles of knncommon / knncheck (the property evaluated on the implementation's own
output: brute-force k nearest, walking predecessor links, exhaustive max-min rule, batch versus single call). A few of
the big C12 / C13 inputs also go through the Coq models (vm_compute), as the small cases do.

Every case is rebuilt exactly by build_inst(spec, seed) / build_qinst(spec, seed): the replay of a violation holds that
pair plus the few rows / queries that fail, not the whole input."""
import math
import random
import re
import time

import numpy as np

from knncommon import *  # noqa

ALL_METRICS = PLAIN_METRICS + POS_METRICS
TIE_METRICS = ["manhattan", "euclidean", "squared_euclidean", "chebyshev", "log_squared_euclidean"]


# ---------------------------------------------------------------------------------------- point sets

def _points(spec, rng, N):
    """N points with non-negative coordinates (every metric family is defined on them) and, for the class-structured
    families, the class of each point. Deterministic in (spec, rng state)."""
    gen, dim = spec["gen"], spec.get("dim", 2)
    cls = None
    if gen == "lattice":
        lo, hi = spec.get("lo", 0), spec.get("hi", 3)
        X = [[float(rng.randint(lo, hi)) for _ in range(dim)] for _ in range(N)]
    elif gen == "uniform":
        X = [[rng.uniform(0.5, 20.0) for _ in range(dim)] for _ in range(N)]
    elif gen == "blobs":
        k = spec.get("classes", 3)
        sd = spec.get("sd", 1.0)
        cen = [[rng.uniform(3.0, 20.0) for _ in range(dim)] for _ in range(k)]
        cls = [j % k for j in range(N)]
        rng.shuffle(cls)
        X = [[abs(cen[cls[j]][t] + rng.gauss(0, sd)) + 0.01 for t in range(dim)] for j in range(N)]
        if spec.get("integer"):
            X = [[float(round(v)) + 1.0 for v in r] for r in X]
    elif gen == "dup":
        base = [[rng.uniform(0.5, 10.0) for _ in range(dim)] for _ in range(max(1, N // spec.get("copies", 3)))]
        X = [list(rng.choice(base)) for _ in range(N)]
    elif gen == "jitter":
        sc = 10.0 ** spec.get("scale", -7)
        base = [rng.uniform(1.0, 10.0) for _ in range(dim)]
        X = [[b + sc * rng.uniform(-1, 1) for b in base] for _ in range(N)]
    elif gen == "line":
        # 1-D sequence with geometrically growing spacing: a slow density gradient, chains of ~N links for k >= 2
        g, s, x = spec.get("growth", 1.01), 1.0, 1.0
        X = []
        for _ in range(N):
            X.append([x] + [1.0] * (dim - 1))
            x += s
            s *= g
        k = spec.get("classes", 3)
        cls = [j * k // N for j in range(N)]
    elif gen in ("spiral", "sunflower"):
        p = spec.get("power", 0.6)
        pts = []
        for j in range(N):
            if gen == "spiral":
                t = 2.0 + (j + 1) ** p
                r = t
            else:
                t = j * 2.399963229728653
                r = (j + 1) ** p
            pts.append((r * math.cos(t), r * math.sin(t)))
        off = max(max(abs(a), abs(b)) for a, b in pts) + 1.0
        X = [[a + off, b + off] + [1.0] * (dim - 2) for a, b in pts]
        k = spec.get("classes", 3)
        cls = [j * k // N for j in range(N)]
    elif gen == "groups":
        # many tight, well-separated groups on a jittered grid: one root (at least) per group
        G = spec["groups"]
        side = int(math.ceil(G ** (1.0 / dim)))
        X, cls = [], []
        g = 0
        while len(X) < N:
            cell = [(g // side ** t) % side for t in range(dim)]
            cen = [10.0 * c_ + 5.0 + rng.uniform(-1, 1) for c_ in cell]
            sz = rng.randint(spec.get("smin", 2), spec.get("smax", 4)) if g < G - 1 else N
            sd = rng.uniform(0.05, 0.4)
            for _ in range(min(sz, N - len(X))):
                X.append([abs(c_ + rng.gauss(0, sd)) + 0.01 for c_ in cen])
                cls.append(g)
            g = min(g + 1, G - 1)
        if spec.get("integer"):
            X = [[float(round(4 * v)) for v in r] for r in X]
    else:
        raise ValueError(gen)
    if spec.get("shuffle"):
        perm = list(range(N))
        rng.shuffle(perm)
        X = [X[a] for a in perm]
        cls = None if cls is None else [cls[a] for a in perm]
    return X, cls


def _dist_rows(metric, A, B, same=False):
    """D[a][b] = metric(A[a], B[b]) with the library's own function on float64 rows (what the implementation computes)."""
    import opfython.math.distance as d
    fn = d.DISTANCES[metric]
    A = np.array(A, dtype=float)
    B = A if same else np.array(B, dtype=float)
    return [[float(fn(A[a], B[b])) for b in range(len(B))] for a in range(len(A))]


def _embed(rng, N, layout):
    """Row map point -> matrix row. 'identity': M = N; 'perm': a permutation; 'sparse': rows scattered over a larger matrix."""
    if layout == "identity":
        return N, list(range(N))
    M = N if layout == "perm" else N + rng.randint(1, max(2, N // 2))
    return M, rng.sample(range(M), N)


def _labels_from(rng, cls, n, classes):
    if cls is not None:
        ids = {}
        return [ids.setdefault(c_ % classes, len(ids)) for c_ in cls[:n]]      # dense 0..c-1 in order of appearance
    lab = [rng.randrange(classes) for _ in range(n)]
    for c_ in range(min(classes, n)):
        if c_ not in lab:
            lab[rng.randrange(n)] = c_
    return lab


class LInst:
    """n training samples. Feature-based: X (n x dim) + metric; pre-computed: X is None, the n x n matrix D sits in `big`
    through the row map idx. D[a][b] is always the distance the implementation must see for (sample a, sample b)."""

    def __init__(self, spec, seed, n, X, D, metric, labels, big=None, idx=None):
        self.spec, self.seed, self.n, self.X, self.D, self.metric, self.labels = spec, seed, n, X, D, metric, labels
        self.big, self.idx = big, idx
        self.m = 0

    @property
    def pre(self):
        return self.big is not None

    def key(self):
        return ("large", repr(sorted(self.spec.items())), self.seed)

    def subgraph(self, labels=True):
        from opfython.subgraphs import KNNSubgraph
        Y = np.array(self.labels) if labels else None
        if not self.pre:
            return KNNSubgraph(np.array(self.X, dtype=float), Y)
        return KNNSubgraph(np.zeros((self.n, 1)), Y, None if self.spec.get("layout") == "implicit" else np.array(self.idx))

    def args(self):
        import opfython.math.distance as d
        if not self.pre:
            return (d.DISTANCES[self.metric], False, None)
        return (d.DISTANCES["euclidean"], True, self.big)

    def model(self, cls, **kw):
        if not self.pre:
            return cls(distance=self.metric, **kw)
        opf = cls(**kw)
        opf.pre_computed_distance = True
        opf.pre_distances = self.big
        return opf

    def replay(self, rows=(), **extra):
        d = dict(generator="large_knn.build_inst(spec, seed)", spec=self.spec, seed=self.seed, n=self.n, metric=self.metric,
                 pre_computed=self.pre)
        rows = [r for r in dict.fromkeys(rows) if 0 <= r < self.n][:4]
        if rows:
            d["failing_samples"] = rows
            if self.X is not None and len(self.X[0]) <= 8:
                d["failing_features"] = {str(r): self.X[r] for r in rows}
            d["failing_distance_rows"] = {str(r): self.D[r] for r in rows}
            d["labels"] = self.labels if self.n <= 600 else None
            if self.pre:
                d["matrix_rows_of_failing_samples"] = {str(r): int(self.idx[r]) for r in rows}
        d.update(extra)
        return d


def build_inst(spec, seed):
    """The training set of a large C12 / C13 case, rebuilt exactly from (spec, seed). Returns None outside the domain
    (a NaN distance)."""
    rng = random.Random(seed)
    n = spec["n"]
    metric = spec.get("metric")
    classes = spec.get("label_classes", 3)
    if spec["gen"] == "matrix":
        alphabet = spec.get("alphabet")
        D = gen_matrix(rng, n, [float(a) for a in alphabet] if alphabet else None, symmetric=spec.get("symmetric", True))
        X, cls = None, None
    else:
        X, cls = _points(spec, rng, n)
        D = _dist_rows(metric, X, X, same=True)
        if any(v != v or abs(v) >= FLOAT_MAX for r in D for v in r):
            return None
    labels = _labels_from(rng, cls, n, classes)
    if not spec.get("pre") and X is not None:
        return LInst(spec, seed, n, X, D, metric, labels)
    layout = spec.get("layout", "perm")
    M, idx = _embed(rng, n, "identity" if layout == "implicit" else layout)
    big = np.array([[float(rng.randint(0, 9)) + 0.5 for _ in range(M)] for _ in range(M)])     # garbage outside the map
    ix = np.array(idx)
    big[np.ix_(ix, ix)] = np.array(D, dtype=float)
    return LInst(spec, seed, n, None, D, metric, labels, big=big, idx=idx)


_ROW_PAT = re.compile(r"(?:sample|list of|distances of|radius of|density of|cost of|root|predecessor|between|and|reaches) (\d+)")


def _rows_in(msg):
    return [int(v) for v in _ROW_PAT.findall(msg or "")]


class _Viol:
    def __init__(self, rep):
        self.rep, self.n = rep, 0

    def __call__(self, msg, replay, key):
        self.n += 1
        if self.n <= 3:
            self.rep.violation(msg, replay, key=key)


def _describe(inst):
    s = inst.spec
    return "%d samples, %s%s%s" % (inst.n, s["gen"], "" if inst.X is None else " %d features (%s)" % (len(inst.X[0]), inst.metric),
                                  ", pre-computed (%s rows)" % s.get("layout", "perm") if inst.pre else "")


def _pick_metric(rng, tie=False):
    return rng.choice(TIE_METRICS if tie else ALL_METRICS)


def _coq_corr(rep, name, tag, coq):
    """coq: list of (term : list Z, expected, description); one case per file so that they run side by side"""
    try:
        got = run_cases(tag, [c_[0] for c_ in coq], requires=("Model.Run", "Model.RunSup", "Model.RunKnn", "Model.RunKnnLarge"), chunk=1)
    except RuntimeError as ex:
        rep.obligation(name, False, str(ex))
        return None
    bad = [i for i, (g, c_) in enumerate(zip(got, coq)) if g != c_[1]]
    det = ""
    if bad:
        i = bad[0]
        det = "%d disagreements; first: %s\n model=%r\n impl =%r" % (len(bad), json.dumps(coq[i][2], default=str)[:1200], got[i][:400], coq[i][1][:400])
    rep.obligation(name, not bad, det)
    return bad


# ---------------------------------------------------------------------------------------- C12

def c12_specs(rng, tier):
    R = rng.randint
    big = tier != "quick"
    out = []

    def add(k, **spec):
        out.append((spec, k))
    # tie-heavy, pre-computed through an index map
    add(R(1, 6), gen="lattice", n=R(130, 220), dim=R(2, 3), lo=0, hi=R(2, 4), metric=_pick_metric(rng, True), pre=True, layout=rng.choice(["perm", "sparse"]))
    add(R(1, 20), gen="matrix", n=R(128, 180), alphabet=rng.sample(range(1, 9), R(1, 3)) + ([0] if rng.random() < 0.3 else []), layout=rng.choice(["perm", "sparse", "implicit"]))
    add(R(1, 8), gen="dup", n=R(130, 260), dim=R(1, 3), copies=R(2, 5), metric=_pick_metric(rng), pre=rng.random() < 0.5, layout="sparse")
    # tie-free, both modes
    add(R(1, 20), gen="matrix", n=R(129, 300), layout=rng.choice(["perm", "sparse"]), symmetric=rng.random() < 0.7)
    add(R(1, 12), gen="blobs", n=R(257, 400 if not big else 1100), dim=R(2, 5), classes=R(2, 9), sd=rng.uniform(0.3, 2.0), metric=_pick_metric(rng), pre=rng.random() < 0.4, layout="perm")
    # tie-heavy, feature-based, many samples
    add(R(1, 20), gen="lattice", n=R(130, 400), dim=2, lo=1, hi=R(6, 12), metric=_pick_metric(rng))
    add(R(2, 10), gen="blobs", integer=True, n=R(130, 300), dim=R(2, 3), classes=R(2, 5), sd=rng.uniform(0.8, 2.0), metric=_pick_metric(rng, True), pre=rng.random() < 0.5, layout="sparse")
    # k around n-1 (and beyond)
    n = R(129, 140)
    add(n + rng.choice([-2, -1, -1, 0, 2]), gen=rng.choice(["lattice", "uniform"]), n=n, dim=2, lo=0, hi=9, metric=_pick_metric(rng, True), pre=rng.random() < 0.5, layout="perm")
    # more than 64 features
    add(R(1, 10), gen=rng.choice(["blobs", "lattice"]), n=R(130, 150), dim=R(65, 140), lo=1, hi=3, classes=3, sd=1.0, metric=_pick_metric(rng), pre=False)
    # all distances tiny (density bound falls back to 1) / regular sets with a density gradient
    add(R(1, 5), gen="jitter", n=R(130, 160), dim=R(1, 3), scale=rng.choice([-6, -7, -9]), metric=rng.choice(["euclidean", "manhattan", "chebyshev"]), pre=rng.random() < 0.5, layout="perm")
    add(R(1, 6), gen=rng.choice(["line", "sunflower", "spiral", "groups"]), n=R(150, 300), dim=2, groups=R(65, 90), growth=rng.uniform(1.003, 1.02), power=rng.uniform(0.5, 0.7),
        metric=_pick_metric(rng, True), pre=rng.random() < 0.5, layout="sparse", shuffle=rng.random() < 0.5)
    return out


def c12_large(rep, rng, tier):
    """create_arcs / calculate_pdf on graphs of 130-400 nodes (up to 1100 in the thorough tier). Returns #violations."""
    import knncheck
    import c12_rounding
    viol = _Viol(rep)
    rounds = 1 if tier == "quick" else 10
    stats = dict(cases=0, skipped=0, sizes=[], ks=[], pre=0, pdf=0)
    coq = []       # (term, expected, description) for the two smallest cases: the Coq model on > 128 nodes
    t0 = time.time()
    for _ in range(rounds):
        for spec, k in c12_specs(rng, tier):
            seed = rng.getrandbits(40)
            k = max(1, k)
            inst = build_inst(spec, seed)
            if inst is None:
                stats["skipped"] += 1
                continue
            n = inst.n
            sg = inst.subgraph(labels=False)
            args = inst.args()
            what = "%s, k=%d" % (_describe(inst), k)
            try:
                maxd = [float(v) for v in sg.create_arcs(k, *args)]
            except Exception as ex:
                viol("create_arcs raised %r on %s" % (ex, what), inst.replay(k=k), "large:create_arcs")
                continue
            adj = adj_of(sg)
            radius = [float(x.radius) for x in sg.nodes]
            gd = float(sg.density)
            rep.count_case((inst.key(), k), True)
            stats["cases"] += 1; stats["sizes"].append(n); stats["ks"].append(k); stats["pre"] += int(inst.pre)
            msg = oracle_arcs(inst.D, n, k, adj, radius, gd, maxd)
            if msg:
                viol("create_arcs on %s: %s" % (what, msg), inst.replay(_rows_in(msg), k=k, adjacency={str(r): adj[r] for r in _rows_in(msg)[:4] if r < n}), "large:create_arcs")
                continue
            if n <= 230 and len(coq) < 3 and k <= 20:
                rk = Ranker([0.0, FLOAT_MAX, 0.00001, 1.0] + [v for r in inst.D for v in r])
                rows = "[%s]" % "; ".join(zlist([rk.r(v) for v in r]) for r in inst.D)
                coq.append(("run_create_arcs_rows %d %d %d %d %d %s" % (rk.r(0.0), rk.r(FLOAT_MAX), rk.r(0.00001), rk.r(1.0), k, rows),
                            flat_adj(adj) + [rk.r(v) for v in radius] + [rk.r(gd)] + [rk.r(v) for v in maxd], inst.replay(k=k)))
            if k > n - 1:
                continue
            try:
                sg.calculate_pdf(k, *args)
            except Exception as ex:
                viol("calculate_pdf raised %r on %s" % (ex, what), inst.replay(k=k), "large:calculate_pdf")
                continue
            dens = [float(x.density) for x in sg.nodes]
            cost = [float(x.cost) for x in sg.nodes]
            if any(v != v for v in dens):
                stats["skipped"] += 1
                continue
            stats["pdf"] += 1
            msg = knncheck.oracle_pdf(inst, adj, k, gd, sg, dens, cost)
            if not msg:
                msg = c12_rounding.check(inst.D, adj, k, sg, dens, cost)
                msg = msg and "(float level) " + msg
            if msg:
                rows = _rows_in(msg)
                viol("calculate_pdf on %s: %s" % (what, msg), inst.replay(rows, k=k, adjacency={str(r): adj[r] for r in rows[:4] if r < n}, density_bound=gd), "large:calculate_pdf")
    if coq:
        bad = _coq_corr(rep, "correspondence Model/Knn.create_arcs vs KNNSubgraph.create_arcs on graphs of more than 128 nodes", "C12large", coq)
        stats["coq_cases"] = len(coq); stats["coq_disagreements"] = None if bad is None else len(bad)
    stats["wall_s"] = round(time.time() - t0, 1)
    rep.corr["large_graphs"] = dict(cases=stats.pop("coq_cases", 0), disagreements=stats.pop("coq_disagreements", 0), oracle=stats)
    return viol.n


# ---------------------------------------------------------------------------------------- C13

def _depths(pred):
    n = len(pred)
    dep = [-1] * n
    for q in range(n):
        path, r = [], q
        while dep[r] < 0 and pred[r] != -1 and len(path) <= n:
            path.append(r); r = pred[r]
        base = dep[r] if dep[r] >= 0 else 0
        if dep[r] < 0:
            dep[r] = 0
        for j, v in enumerate(reversed(path)):
            dep[v] = base + j + 1
    return dep


def c13_specs(rng, tier):
    R = rng.randint
    out = []

    def add(flavour, k, **spec):
        spec.setdefault("metric", _pick_metric(rng, True))
        spec.setdefault("dim", 2 if spec["gen"] != "line" else R(1, 2))
        spec.setdefault("pre", rng.random() < 0.4)
        spec.setdefault("layout", rng.choice(["perm", "sparse"]))
        spec.setdefault("shuffle", rng.random() < 0.6)
        out.append((flavour, spec, k))
    # deep forests: slow density gradients, small k
    add("unsup", R(2, 3), gen="line", n=R(100, 300), growth=rng.uniform(1.003, 1.03), classes=R(2, 5))
    add("unsup", R(2, 4), gen="spiral", n=R(200, 400), power=rng.uniform(0.5, 0.7), classes=R(2, 5))
    add("unsup", R(3, 5), gen="sunflower", n=R(300, 450), power=rng.uniform(0.5, 0.7), classes=R(2, 5))
    add(rng.choice(["sup", "sup_force"]), R(2, 3), gen=rng.choice(["line", "spiral"]), n=R(150, 300), growth=rng.uniform(1.003, 1.02), power=rng.uniform(0.5, 0.7), classes=R(1, 3))
    add("sup_force", R(2, 4), gen=rng.choice(["line", "sunflower"]), n=R(150, 300), growth=rng.uniform(1.003, 1.02), power=rng.uniform(0.5, 0.7), classes=1, label_classes=1)
    add("unsup_packed", R(1, 2), gen=rng.choice(["line", "spiral", "lattice"]), n=R(100, 250), growth=rng.uniform(1.003, 1.03), power=0.6, lo=0, hi=12)
    # many clusters / many classes
    G = R(65, 120)
    add("unsup", R(1, 2), gen="groups", groups=G, n=G * 3, smin=2, smax=4, label_classes=rng.choice([3, G]))
    G = R(257, 290)
    add("unsup", 1, gen="groups", groups=G, n=R(G + G // 2, 2 * G), smin=1, smax=2, label_classes=rng.choice([3, G]), integer=rng.random() < 0.3)
    G = R(65, 100)
    add(rng.choice(["sup", "sup_force"]), R(1, 3), gen="groups", groups=G, n=G * 3, smin=2, smax=4, label_classes=G)
    # ties: plateaus of equal density
    add(rng.choice(["unsup", "sup"]), R(1, 4), gen="lattice", n=R(130, 260), lo=0, hi=R(5, 15))
    # end-to-end fits
    add("unsup_fit", R(1, 3), gen=rng.choice(["line", "spiral", "groups", "sunflower"]), n=R(100, 220), groups=R(30, 70), smin=2, smax=4, growth=rng.uniform(1.003, 1.03), power=rng.uniform(0.5, 0.7))
    add("unsup_fit", R(2, 3), gen=rng.choice(["line", "spiral"]), n=R(100, 220), growth=rng.uniform(1.003, 1.03), power=rng.uniform(0.55, 0.7), force_k=True)
    add("knn_fit", R(2, 3), gen=rng.choice(["line", "spiral"]), n=R(200, 300), classes=R(1, 3), growth=rng.uniform(1.003, 1.02), power=rng.uniform(0.55, 0.7), pre=False, shuffle=True)
    add("knn_fit", R(1, 3), gen=rng.choice(["blobs", "line", "spiral"]), n=R(200, 330), classes=R(2, 6), sd=rng.uniform(0.5, 1.5), growth=rng.uniform(1.003, 1.02), power=0.6, pre=False, shuffle=True)
    return out


def c13_large(rep, rng, tier):
    """_clustering (both models) and whole fits on 100-600 samples with deep forests and with many roots."""
    import knncheck
    from opfython.models.knn_supervised import KNNSupervisedOPF
    from opfython.models.unsupervised import UnsupervisedOPF
    viol = _Viol(rep)
    rounds = 1 if tier == "quick" else 12
    stats = dict(cases=0, skipped=0, sizes=[], max_depth=[], roots=[], flavours={}, detail=[])
    coq = []
    t0 = time.time()
    for _ in range(rounds):
        for flavour, spec, k in c13_specs(rng, tier):
            seed = rng.getrandbits(40)
            inst = build_inst(spec, seed)
            if inst is None:
                stats["skipped"] += 1
                continue
            n = inst.n
            k = min(k, n - 1)
            args = inst.args()
            what = "%s, k=%d" % (_describe(inst), k)
            lrng = random.Random(seed + 1)
            extra = dict(k=k, flavour=flavour)
            msg, st, prop = None, None, None
            try:
                if flavour in ("unsup", "unsup_packed", "sup", "sup_force"):
                    unsup = flavour.startswith("unsup")
                    opf = inst.model(UnsupervisedOPF if unsup else KNNSupervisedOPF)
                    sg = opf.subgraph = inst.subgraph()
                    kmax = lrng.randint(k, min(n - 1, k + 3)) if unsup else k
                    extra["kmax"] = kmax
                    sg.create_arcs(kmax, *args)
                    sg.calculate_pdf(k, *args)
                    if flavour == "unsup_packed":
                        base = lrng.uniform(1.0, 990.0)
                        for nd in sg.nodes:
                            nd.density = base + 0.009 * lrng.randrange(100)
                            nd.cost = nd.density - 1
                        extra["densities_overridden"] = "base + 0.009 * random.Random(seed + 1).randrange(100) per node, after uniform(1, 990) (after one randint when unsupervised)"
                    before = knn_state(sg)
                    if any(v != v for v in before["dens"]):
                        stats["skipped"] += 1
                        continue
                    if unsup:
                        opf._clustering(k)
                        st = knn_state(sg)
                        opf.propagate_labels()
                        prop = [int(x.predicted_label) for x in sg.nodes]
                        adjv = [a[:st["nplat"][i] + k] for i, a in enumerate(st["adj"])]
                    else:
                        opf._clustering(force_prototype=(flavour == "sup_force"))
                        st = knn_state(sg)
                        adjv = st["adj"]
                    dens, cost0 = before["dens"], before["cost"]
                elif flavour == "unsup_fit":
                    unsup = True
                    opf = inst.model(UnsupervisedOPF, min_k=k if spec.get("force_k") else 1, max_k=k)
                    X = np.zeros((n, 1)) if inst.pre else np.array(inst.X, dtype=float)
                    opf.fit(X, np.array(inst.labels), np.array(inst.idx) if inst.pre else None)
                    sg = opf.subgraph
                    st = knn_state(sg)
                    if any(v != v for v in st["dens"] + st["cost"]):
                        stats["skipped"] += 1
                        continue
                    k = extra["best_k"] = int(sg.best_k)
                    opf.propagate_labels()
                    prop = [int(x.predicted_label) for x in sg.nodes]
                    adjv = [a[:st["nplat"][i] + k] for i, a in enumerate(st["adj"])]
                    dens, cost0 = st["dens"], [v - 1 for v in st["dens"]]
                    # the arcs the fitted model keeps are those of best_k (C12's oracle on the final graph)
                    msg = oracle_arcs(inst.D, n, k, [a[st["nplat"][i]:] for i, a in enumerate(st["adj"])], st["radius"], None, _rank_maxima(inst.D, st, k))
                    msg = msg and "final arcs: " + msg
                else:   # knn_fit: training = first part, validation = the rest (more than 64 validation rows)
                    unsup = False
                    nva = lrng.randint(65, max(65, n // 3))
                    ntr = n - nva
                    extra["n_train"], extra["n_validation"] = ntr, nva
                    X = np.array(inst.X, dtype=float)
                    Y = np.array(inst.labels)
                    opf = inst.model(KNNSupervisedOPF, max_k=k)
                    if set(inst.labels[ntr:]) != set(inst.labels[:ntr]):
                        stats["skipped"] += 1          # opf_accuracy needs every class on both sides
                        continue
                    try:
                        opf.fit(X[:ntr].copy(), Y[:ntr], X[ntr:].copy(), Y[ntr:])
                    except UnboundLocalError:
                        stats["skipped"] += 1          # every candidate k has validation accuracy 0: C16's business
                        continue
                    sg = opf.subgraph
                    st = knn_state(sg)
                    if any(v != v for v in st["dens"] + st["cost"]):
                        stats["skipped"] += 1
                        continue
                    k = extra["best_k"] = int(sg.best_k)
                    Dt = [r[:ntr] for r in inst.D[:ntr]]
                    nbr = [[j for (_, j) in sorted((Dt[p][j], j) for j in range(ntr) if j != p)[:k]] for p in range(ntr)]
                    bydens = {}
                    for q in range(ntr):
                        bydens.setdefault(st["dens"][q], []).append(q)
                    adjv = [set(nbr[p]) | {q for q in bydens[st["dens"][p]] if p in nbr[q]} for p in range(ntr)]
                    dens, cost0 = st["dens"], [v - 1 for v in st["dens"]]
                    if st["plabel"] != inst.labels[:ntr]:
                        q = [j for j in range(ntr) if st["plabel"][j] != inst.labels[j]][0]
                        msg = "KNN-supervised fit: sample %d carries label %d, its own label is %d" % (q, st["plabel"][q], inst.labels[q])
                    n = ntr
            except Exception as ex:
                viol("%s on %s raised %r" % (flavour, what, ex), inst.replay(**extra), "large:clustering:" + flavour)
                continue
            labels = inst.labels[:n]
            rep.count_case((inst.key(), k, flavour), True)
            dep = _depths(st["pred"])
            nroots = sum(1 for p in st["pred"] if p == -1)
            stats["cases"] += 1; stats["sizes"].append(n); stats["max_depth"].append(max(dep)); stats["roots"].append(nroots)
            stats["detail"].append("%s/%s%s n=%d k=%d: depth %d, %d roots" % (flavour, spec["gen"], "/pre" if inst.pre else "", n, k, max(dep), nroots))
            stats["flavours"][flavour] = stats["flavours"].get(flavour, 0) + 1
            if not msg:
                msg = oracle_cluster(st, adjv, dens, cost0, labels, unsup, st["nclusters"] if unsup else None)
            if not msg and prop is not None:
                for q in range(n):
                    r = q
                    while st["pred"][r] != -1:
                        r = st["pred"][r]
                    if prop[q] != labels[r]:
                        msg = "label propagation: sample %d (depth %d) got label %d, its root %d has true label %d" % (q, dep[q], prop[q], r, labels[r]); break
            if not msg and flavour == "sup_force" and st["plabel"] != labels:
                q = [j for j in range(n) if st["plabel"][j] != labels[j]][0]
                msg = "KNN-supervised final clustering: sample %d assigned %d, true label %d" % (q, st["plabel"][q], labels[q])
            if msg:
                rows = _rows_in(msg)
                chain = []
                if rows and rows[0] < n:
                    r = rows[0]
                    while r != -1 and len(chain) <= n:
                        chain.append(r); r = st["pred"][r]
                viol("clustering (%s) on %s [forest depth %d, %d roots]: %s" % (flavour, what, max(dep), nroots, msg),
                     inst.replay(rows, predecessor_chain_of_first_failing_sample=chain,
                                 recorded_roots={str(r): st["root"][r] for r in rows[:4] if r < n}, **extra), "large:clustering:" + flavour)
                continue
            if flavour in ("unsup", "sup", "sup_force") and len(coq) < 2 and n <= 320 and max(dep) > 16:
                coq.append(_c13_term(flavour, k, labels, before, st, prop, inst.replay(**extra)))
    if coq:
        bad = _coq_corr(rep, "correspondence Model/Knn.clustering_sup / clustering_unsup vs the two _clustering routines on forests deeper than 16 links", "C13large", coq)
        stats["coq_cases"] = len(coq); stats["coq_disagreements"] = None if bad is None else len(bad)
    stats["wall_s"] = round(time.time() - t0, 1)
    rep.corr["large_forests"] = dict(cases=stats.pop("coq_cases", 0), disagreements=stats.pop("coq_disagreements", 0), oracle=stats)
    return viol.n


def _rank_maxima(D, st, k):
    """per-rank maxima of the arcs a state holds (plateau entries stripped), for oracle_arcs on a fitted model"""
    n = len(st["adj"])
    out = []
    for l in range(k):
        col = [D[i][st["adj"][i][st["nplat"][i] + l]] for i in range(n) if st["nplat"][i] + l < len(st["adj"][i])]
        out.append(max(col + [0.0]))
    return out


def _c13_term(flavour, k, labels, before, after, prop, desc):
    n = len(labels)
    rk = Ranker([0.0, FLOAT_MAX, -FLOAT_MAX] + before["dens"] + before["cost"])
    common_args = "%s %s" % (zlist(labels), zlist(flat_adj(before["adj"])))
    dz, cz = zlist([rk.r(v) for v in before["dens"]]), zlist([rk.r(v) for v in before["cost"]])
    if flavour == "unsup":
        term = "run_cluster_unsup %d %d %d %d %s %s %s %s" % (rk.r(0.0), rk.r(FLOAT_MAX), rk.r(-FLOAT_MAX), k, common_args, zlist(before["nplat"]), dz, cz)
    else:
        term = "run_cluster_sup %d %d %d %d %s %s %s" % (rk.r(0.0), rk.r(FLOAT_MAX), rk.r(-FLOAT_MAX), 1 if flavour == "sup_force" else 0, common_args, dz, cz)
    exp = (flat_adj(after["adj"]) + after["nplat"] + [rk.r(v) for v in after["cost"]] + after["pred"] + after["root"]
           + after["plabel"] + after["clabel"] + after["order"][-n:] + [after["nclusters"]])
    if flavour == "unsup":
        exp += prop
    return term, exp, desc


# ---------------------------------------------------------------------------------------- C14

class QInst:
    """A training set of n samples plus m queries. Dqt[q][t] = distance(query q, training sample t) as the implementation
    must see it. Feature-based: Xtr, Xq + metric. Pre-computed: `big` holds the train x train and query x train blocks
    (everything else is garbage) through the row maps itr (training sample -> row) and iq (query -> row)."""

    def replay(self, queries=(), **extra):
        d = dict(generator="large_knn.build_qinst(spec, seed)", spec=self.spec, seed=self.seed, n_train=self.n, n_queries=self.m,
                 metric=self.metric, pre_computed=self.pre, index_arrays=self.spec.get("index"))
        qs = [q for q in dict.fromkeys(queries)][:3]
        if qs:
            d["failing_queries"] = qs
            if not self.pre and len(self.Xq[0]) <= 8:
                d["failing_query_features"] = {str(q): [float(v) for v in self.Xq[q]] for q in qs}
            d["distances_from_failing_queries_to_training_samples"] = {str(q): self.Dqt[q] for q in qs}
            if self.pre:
                d["matrix_rows_of_failing_queries"] = {str(q): int(self.iq[q]) for q in qs}
        d.update(extra)
        return d


def build_qinst(spec, seed):
    """Rebuilds a large C14 case exactly from (spec, seed); None outside the domain (NaN distance)."""
    rng = random.Random(seed)
    n, m = spec["n"], spec["m"]
    q = QInst()
    q.spec, q.seed, q.n, q.m, q.metric = spec, seed, n, m, spec.get("metric")
    index = spec.get("index")                # None: feature-based; 'explicit' / 'implicit' / 'implicit_all' / 'train_rows'
    q.pre = index is not None
    classes = spec.get("label_classes", 3)
    if spec["gen"] == "matrix":
        alphabet = [float(a) for a in spec["alphabet"]] if spec.get("alphabet") else None
        Dtt = gen_matrix(rng, n, alphabet)
        draw = (lambda: rng.choice(alphabet)) if alphabet else (lambda: round(rng.random() * 100 + 0.001, 6))
        Dqt = [[draw() for _ in range(n)] for _ in range(m)]
        cls = None
        q.Xtr = q.Xq = None
    else:
        X, cls = _points(spec, rng, n)
        # queries: copies of training samples, midpoints of two training samples (often of different classes), perturbed
        # training samples and fresh points of the same family
        fresh, _ = _points(dict(spec, shuffle=True), rng, m)
        Xq = []
        for j in range(m):
            u = rng.random()
            a, b = rng.randrange(n), rng.randrange(n)
            if u < 0.15:
                Xq.append(list(X[a]))
            elif u < 0.55:
                Xq.append([(va + vb) / 2 for va, vb in zip(X[a], X[b])])
            elif u < 0.75:
                Xq.append([va + (rng.uniform(-0.5, 0.5) if not spec.get("integer_queries") else float(rng.randint(-1, 1))) for va in X[a]])
                Xq[-1] = [abs(v) for v in Xq[-1]]
            else:
                Xq.append(fresh[j])
        Dtt = _dist_rows(q.metric, X, X, same=True)
        Dqt = _dist_rows(q.metric, Xq, X)
        if any(v != v or abs(v) >= FLOAT_MAX for r in Dtt + Dqt for v in r):
            return None
        q.Xtr, q.Xq = np.array(X, dtype=float), np.array(Xq, dtype=float)
    q.labels = _labels_from(rng, cls, n, classes)
    q.Dtt = Dtt
    if index == "train_rows":
        # the matrix is exactly train x train (what KNNSupervisedOPF.fit demands); queries ARE training rows
        perm = list(range(n))
        if spec.get("implicit_queries"):
            q.itr = perm[:]
            rng.shuffle(q.itr)
            q.iq = list(range(m))                 # query j = row j of the matrix
        else:
            q.itr = perm[:]
            rng.shuffle(q.itr)
            q.iq = [rng.randrange(n) for _ in range(m)]
        inv = {r: t for t, r in enumerate(q.itr)}
        Dqt = [Dtt[inv[r]] for r in q.iq]
        big = np.zeros((n, n))
        ix = np.array(q.itr)
        big[np.ix_(ix, ix)] = np.array(Dtt, dtype=float)
        q.big = big
    elif q.pre:
        if index == "implicit_all":
            # fit on rows 0..n-1 without an index array, predict rows 0..m-1 without one: the first queries are the training samples
            q.itr = list(range(n))
            q.iq = list(range(m))
            for j in range(min(n, m)):
                Dqt[j] = list(Dtt[j])
            M = max(n, m) + rng.randint(0, 5)
        elif index == "implicit":
            # queries are rows 0..m-1 (no index array at predict time), training samples sit behind them
            q.iq = list(range(m))
            M = m + n + rng.randint(0, n)
            q.itr = rng.sample(range(m, M), n)
        else:
            M = m + n + rng.randint(0, n)
            rows = rng.sample(range(M), n + m)
            q.itr, q.iq = rows[:n], rows[n:]
            if spec.get("repeat_queries"):
                for j in range(m):
                    if rng.random() < 0.2:
                        j2 = rng.randrange(m)
                        q.iq[j] = q.iq[j2]; Dqt[j] = Dqt[j2]
        big = np.array([[float(rng.randint(0, 9)) + 0.5 for _ in range(M)] for _ in range(M)]) if M <= 700 else \
            np.floor(np.random.RandomState(seed % (2 ** 32)).random_sample((M, M)) * 10) + 0.5
        it_ = np.array(q.itr)
        big[np.ix_(np.array(q.iq), it_)] = np.array(Dqt, dtype=float)      # queries first: training rows win where both overlap
        big[np.ix_(it_, it_)] = np.array(Dtt, dtype=float)
        q.big = big
    else:
        q.big = q.itr = q.iq = None
    q.Dqt = Dqt
    return q


def _fit_q(q, which, k):
    from opfython.models.knn_supervised import KNNSupervisedOPF
    from opfython.models.unsupervised import UnsupervisedOPF
    n = q.n
    index = q.spec.get("index")
    Y = np.array(q.labels)
    Xtr = q.Xtr.copy() if not q.pre else np.zeros((n, 1))
    Itr = None if (not q.pre or index == "implicit_all") else np.array(q.itr)
    if which == "unsup":
        if q.pre:
            opf = UnsupervisedOPF(min_k=k, max_k=k) if q.spec.get("force_k") else UnsupervisedOPF(min_k=1, max_k=k)
            opf.pre_computed_distance, opf.pre_distances = True, q.big
        else:
            opf = UnsupervisedOPF(min_k=k if q.spec.get("force_k") else 1, max_k=k, distance=q.metric)
        opf.fit(Xtr, Y, Itr)
        opf.propagate_labels()
        return opf
    # KNN-supervised: validation rows = a resample of the training rows (pre-computed mode leaves no other choice: the
    # matrix must be train x train) or perturbed training rows (feature-based)
    rng = random.Random(q.seed + 7)
    nva = q.spec.get("n_validation", 40)
    va = [rng.randrange(n) for _ in range(nva)]
    for c_ in set(q.labels):
        if c_ not in {q.labels[v] for v in va}:
            va.append(q.labels.index(c_))
    if q.pre:
        opf = KNNSupervisedOPF(max_k=k)
        opf.pre_computed_distance, opf.pre_distances = True, q.big
        opf.fit(Xtr, Y, np.zeros((len(va), 1)), Y[va], Itr, np.array([q.itr[v] for v in va]))
    else:
        opf = KNNSupervisedOPF(max_k=k, distance=q.metric)
        Xva = q.Xtr[va] + np.array([[rng.uniform(0, 0.3) for _ in range(q.Xtr.shape[1])] for _ in va])
        opf.fit(Xtr, Y, Xva, Y[va])
    return opf


def _predict_q(opf, q, which, sel=None):
    """one predict call on the queries `sel` (default: all of them, in order)"""
    index = q.spec.get("index")
    if not q.pre:
        out = opf.predict(q.Xq.copy() if sel is None else q.Xq[np.array(sel)])
    else:
        cnt = q.m if sel is None else len(sel)
        implicit = sel is None and (index in ("implicit", "implicit_all") or (index == "train_rows" and q.spec.get("implicit_queries")))
        I = None if implicit else np.array([q.iq[j] for j in (range(q.m) if sel is None else sel)])
        out = opf.predict(np.zeros((cnt, 1)), I)
    if which == "knn":
        return [int(v) for v in out], None
    return [int(v) for v in out[0]], [int(v) for v in out[1]]


def c14_specs(rng, tier):
    R = rng.randint
    big = tier != "quick"
    out = []

    def add(which, k, **spec):
        out.append((which, k, spec))
    # feature-based, more than 1024 queries in one call
    add("knn", R(1, 4), gen="blobs", n=R(90, 140), m=R(1030, 1200), dim=R(2, 4), classes=R(2, 5), sd=rng.uniform(0.6, 1.5), metric=_pick_metric(rng), n_validation=R(257, 300))
    add("unsup", R(1, 4), gen=rng.choice(["lattice", "groups"]), n=R(80, 130), m=R(260, 400), dim=2, lo=0, hi=R(4, 8), groups=R(8, 20), smin=3, smax=8, integer=True, integer_queries=True,
        metric=_pick_metric(rng, True), force_k=rng.random() < 0.5)
    add("unsup", R(1, 3), gen=rng.choice(["blobs", "groups"]), n=R(66, 100) if not big else R(130, 280), m=R(1030, 1100) if not big else R(1030, 2200), dim=R(2, 3), classes=R(2, 5), sd=1.0, groups=R(8, 20),
        smin=3, smax=8, metric=_pick_metric(rng), force_k=rng.random() < 0.5)
    # more than 64 classes
    G = R(65, 80)
    add("knn", R(1, 3), gen="groups", groups=G, n=3 * G, smin=2, smax=4, label_classes=G, m=R(257, 300), dim=2, metric=_pick_metric(rng, True), n_validation=R(65, 100))
    # more than 64 features
    add(rng.choice(["knn", "unsup"]), R(1, 3), gen="blobs", n=R(66, 90), m=R(257, 300), dim=R(65, 100), classes=3, sd=1.0, metric=_pick_metric(rng))
    # pre-computed, queries without an index array (query j = row j of the matrix)
    add("unsup", R(1, 4), gen=rng.choice(["blobs", "groups"]), n=R(70, 130), m=R(258, 420), dim=2, classes=R(2, 4), sd=1.0, groups=R(8, 20), smin=3, smax=8, metric=_pick_metric(rng, True), index="implicit",
        force_k=rng.random() < 0.5)
    add("unsup", R(1, 3), gen=rng.choice(["matrix", "groups", "blobs"]), n=R(66, 140), m=R(300, 520), dim=2, classes=3, sd=1.0, groups=R(8, 20), smin=3, smax=8, integer=rng.random() < 0.5,
        metric=_pick_metric(rng, True), index="implicit_all", force_k=rng.random() < 0.5)
    add("unsup", R(1, 3), gen=rng.choice(["blobs", "groups"]), n=R(70, 110), m=R(1030, 1100), dim=2, classes=3, sd=1.0, groups=R(8, 20), smin=3, smax=8, metric=_pick_metric(rng, True), index="implicit")
    # pre-computed, explicit index arrays, more than 1024 queries (with repeated rows)
    add("unsup", R(1, 4), gen=rng.choice(["matrix", "blobs"]), n=R(70, 110), m=R(1030, 1150), dim=2, classes=3, sd=1.2, metric=_pick_metric(rng, True), index="explicit", repeat_queries=True)
    # KNN-supervised in pre-computed mode (train x train matrix; queries are training rows), implicit and explicit
    add("knn", R(1, 3), gen=rng.choice(["blobs", "lattice"]), n=R(270, 330), m=R(258, 269), dim=2, lo=0, hi=9, classes=R(2, 4), sd=1.5, metric=_pick_metric(rng, True), index="train_rows", implicit_queries=True,
        n_validation=R(65, 100))
    add("knn", R(1, 3), gen=rng.choice(["blobs", "matrix"]), n=R(130, 180), m=R(520, 700) if not big else R(1030, 2100), dim=2, classes=3, sd=1.5, metric=_pick_metric(rng, True), index="train_rows",
        n_validation=R(65, 100))
    return out


def c14_large(rep, rng, tier, pid="C14"):
    """predict calls with > 256 and > 1024 queries on fitted models of both kinds; every query judged by the exhaustive rule,
    a sample of positions also against a single-query call."""
    viol = _Viol(rep)
    rounds = 1 if tier == "quick" else 10
    stats = dict(batches=0, queries=0, skipped=0, batch_sizes=[], modes={}, detail=[])
    t0 = time.time()
    for _ in range(rounds):
        for which, k, spec in c14_specs(rng, tier):
            seed = rng.getrandbits(40)
            q = build_qinst(spec, seed)
            if q is None:
                stats["skipped"] += 1
                continue
            n, m = q.n, q.m
            what = "%s model on %d training samples (%s%s), %d queries in one call" % (
                which, n, spec["gen"], ", pre-computed with %s indexes" % spec["index"] if q.pre else ", %d features, %s" % (q.Xtr.shape[1], q.metric), m)
            try:
                opf = _fit_q(q, which, min(k, n - 1))
            except Exception:
                stats["skipped"] += 1        # training failures are C13's / C16's business
                continue
            sg = opf.subgraph
            st = knn_state(sg)
            if any(v != v for v in st["dens"] + st["cost"]) or float(sg.constant) == 0.0:
                stats["skipped"] += 1
                continue
            kk = int(sg.best_k)
            const, mn, mx = float(sg.constant), float(sg.min_density), float(sg.max_density)
            extra = dict(model=which, fit_k=min(k, n - 1), best_k=kk, constant=const, min_density=mn, max_density=mx)
            try:
                preds, clus = _predict_q(opf, q, which)
            except Exception as ex:
                viol("predict raised %r: %s" % (ex, what), q.replay(**extra), "large:knn_predict:" + which)
                continue
            stats["batches"] += 1; stats["queries"] += m; stats["batch_sizes"].append(m)
            mode = "features" if not q.pre else spec["index"] + ("+implicit" if spec.get("implicit_queries") else "")
            stats["modes"][which + ":" + mode] = stats["modes"].get(which + ":" + mode, 0) + 1
            stats["detail"].append("%s:%s/%s n=%d m=%d k=%d: %d distinct labels%s returned" % (which, mode, spec["gen"], n, m, kk, len(set(preds)), "" if clus is None else ", %d distinct clusters" % len(set(clus))))
            if len(preds) != m:
                viol("predict returned %d labels for %d queries: %s" % (len(preds), m, what), q.replay(**extra), "large:knn_predict:" + which)
                continue
            # oracle (C14): exhaustive k-nearest max-min rule on every query of the batch
            bad = None
            nontrivial = len(set(preds)) > 1 or (clus is not None and len(set(clus)) > 1)
            ckey = ("large", repr(sorted(spec.items())), seed, which)
            for j in range(m):
                rep.count_case((ckey, j), nontrivial)
                msg = oracle_knn_predict({0: q.Dqt[j]}, n, 0, kk, st["cost"], st["plabel"], const, mn, mx, preds[j])
                if not msg and clus is not None:
                    msg = oracle_knn_predict({0: q.Dqt[j]}, n, 0, kk, st["cost"], st["clabel"], const, mn, mx, clus[j])
                    msg = msg and "cluster: " + msg
                if msg:
                    bad = (j, msg)
                    break
            if bad:
                j, msg = bad
                viol("%s: query at position %d: %s" % (what, j, msg),
                     q.replay([j], position=j, returned_label=preds[j], returned_cluster=None if clus is None else clus[j],
                              training_costs=st["cost"], training_labels=st["plabel"], **extra), "large:knn_rule:" + which)
                continue
            # oracle (batch versus single): positions around the usual block sizes, the ends, and a random sample
            pos = {0, m - 1, m // 2 - 1, m // 2, m // 2 + 1}
            for b in (64, 128, 256, 512, 1024, 2048):
                pos |= {b - 1, b, b + 1}
            srng = random.Random(seed + 3)
            pos |= {srng.randrange(m) for _ in range(24)}
            for j in sorted(p for p in pos if 0 <= p < m):
                alone, calone = _predict_q(opf, q, which, sel=[j])
                if alone[0] != preds[j] or (clus is not None and calone[0] != clus[j]):
                    viol("%s: the query at position %d gets label %r%s in the batch but %r%s when predicted alone" % (
                        what, j, preds[j], "" if clus is None else " / cluster %r" % clus[j], alone[0], "" if clus is None else " / cluster %r" % calone[0]),
                        q.replay([j], position=j, **extra), "large:predict_position:" + which)
                    break
    stats["wall_s"] = round(time.time() - t0, 1)
    rep.corr["large_batches"] = dict(cases=0, disagreements=0, oracle=stats)
    return viol.n
