"""Informational tie for Props/C12_binary64_run.v (capstone C12_binary64_run_float_facts).

The capstone says: if the exp-terms are finite with values in [0, 1], k + 1 <= 2^53, FLOAT_MAX >= 1, 2 * density bound does
not overflow, and NONE of the 2 n + 1 divisions of calculate_pdf has a non-zero exact quotient below 2^-1022
(`normal64`), then the floats the binary64 run returns satisfy the statements of Props/C12_binary64.v.  The facts
themselves are checked exactly, on every fitted subgraph, by c12_rounding.check; this module only COUNTS on how many of
those subgraphs the hypotheses of the capstone hold (exact rational arithmetic on the recomputed intermediates), i.e. how
much of the stream the theorem speaks about.  It never produces a violation: an underflowing division is legal binary64
behaviour outside the theorem's scope.
"""
from fractions import Fraction

import numpy as np

TINY = Fraction(1, 2 ** 1022)
STATS = dict(subgraphs=0, hypotheses_hold=0, terms_outside_unit=0, underflowing_divisions=0, nonfinite=0)


def _normal(num, den):
    """exact quotient of two finite floats is 0 or at least 2^-1022 in magnitude"""
    q = Fraction(float(num)) / Fraction(float(den))
    return q == 0 or abs(q) >= TINY


def observe(D, adj, k, const, mn, mx, gdens):
    """same numpy operations as KNNSubgraph.calculate_pdf; returns nothing, updates STATS"""
    STATS["subgraphs"] += 1
    ok = True
    n = len(adj)
    try:
        two_g = np.float64(2) * np.float64(gdens)
        if not (np.isfinite(two_g) and np.isfinite(const) and float(const) != 0.0):
            STATS["nonfinite"] += 1
            return
        if not _normal(two_g, 9.0):
            STATS["underflowing_divisions"] += 1
            ok = False
        pdf = []
        for i in range(n):
            s = np.float64(0.0)
            for l in range(k):
                t = np.exp(-np.float64(D[i][adj[i][l]]) / const)
                if not (np.isfinite(t) and 0.0 <= t <= 1.0):
                    STATS["terms_outside_unit"] += 1
                    ok = False
                s = s + t
            if not np.isfinite(s):
                STATS["nonfinite"] += 1
                return
            if not _normal(s, float(k + 1)):
                STATS["underflowing_divisions"] += 1
                ok = False
            pdf.append(s / np.float64(k + 1))
        mn, mx = np.float64(mn), np.float64(mx)
        if mn != mx:
            den = mx - mn
            for i in range(n):
                num = np.float64(999) * (pdf[i] - mn)
                if not _normal(num, den):
                    STATS["underflowing_divisions"] += 1
                    ok = False
    except (OverflowError, ZeroDivisionError, ValueError):
        STATS["nonfinite"] += 1
        return
    if ok and k + 1 <= 2 ** 53:
        STATS["hypotheses_hold"] += 1


def summary():
    s = dict(STATS)
    s["statement"] = ("hypotheses_hold = fitted subgraphs on which every hypothesis of C12_binary64_run_float_facts holds "
                      "(terms finite in [0, 1], no division with a non-zero exact quotient below 2^-1022); informational")
    return s
