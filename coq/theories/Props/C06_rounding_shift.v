(* C06, quantitative part, continued: divisions by rounded divisors and the bodies behind @avoid_zero_division.

   Same model as Props/C06_rounding.v: [rnd_rel u rnd], 0 <= u < 1, no underflow / overflow.

   WHAT IS COMPARED.  The decorator computes x' = rnd (x + EPSILON), y' = rnd (y + EPSILON) entrywise
   ([rshift rnd x]) and calls the body on x', y'.  Against the exact-real value at x + EPSILON no relative bound
   holds in the standard model (the body's first subtraction cancels two rounded operands), so the statement is
   MIXED (forward error of the body, backward error of the shift): the computed value is compared with the closed
   form AT THE COMPUTED ARGUMENTS, sp_<name> x' y'.  In binary64, x + 1e-20 = x whenever |x| >= 1e-4, so x' is the
   user's own x for such entries; an exact 0 becomes 1e-20.

   THE FACTOR.  A rounded divisor contributes 1/(1+d), so the depth is a pair (p, q) and the factor is
   up_f u p q = (1+u)^p / (1-u)^q above, lo_f u p q = (1-u)^p / (1+u)^q below ([C06_rounding_shift_meaning] unfolds
   the definitions); |fl - exact| <= ((1+u)^p / (1-u)^q - 1) exact, closed form, no side condition.

   [C06_rounding_shift_sound]: the analysis [rdepthq_in c m n] (rules at the top of Model/MetricRdepthQ.v) is sound for
   every metric, class and length: defined + within the factor of [metric_exact_at rnd m x y] (the body's exact value
   at the arguments the rounded run hands to it).
   [C06_rounding_shift_table]: (p, q)(n) for 19 decorated identifiers on NON-NEGATIVE user vectors (zeros included),
   every n >= 1, by computation on the regenerated terms.
   [C06_rounding_shift_all]: the same against the closed forms.
   [C06_rounding_shift_nonvacuous]: u = 2^-53, rnd t = t (1 + u), x = [1], y = [3]: canberra evaluates to
   canberra(x', y') (1 + u) > 0, inside the factor for (p, q) = (n + 1, 1).

   Still outside: bhattacharyya, jeffreys, jensen, jensen_shannon, k_divergence, kullback_leibler, topsoe (log);
   chord, cosine, dice, jaccard, hassanat, statistic (1 - ratio, or a subtraction of rounded operands);
   gaussian, log_euclidean, log_squared_euclidean, lorentzian (exp / log); squared_chord, matusita, hellinger (refuted). *)
From Coq Require Import Reals String List.
From OPF Require Import Spec.MetricSpec Model.MetricIR Gen.Metrics_gen Model.MetricRnd Model.MetricEval
     Model.MetricRdepth Model.MetricRdepthQ Proofs.RoundingBoundsQ Proofs.RdepthQSound Proofs.RdepthQTable
     Proofs.RdepthWitness Proofs.RdepthQWitness.
Import ListNotations.
Open Scope string_scope.
Open Scope R_scope.

Theorem C06_rounding_shift_meaning :
  forall (c : cls) (m : metric_ir) (sp : list R -> list R -> R) (p q : nat -> nat),
    rounding_bound_shift c m sp p q <->
    (forall u rnd, 0 <= u < 1 -> rnd_rel u rnd ->
     forall x y, length x = length y -> (1 <= length x)%nat -> Forall (in_cls c) x -> Forall (in_cls c) y ->
     exists fl, metric_rnd rnd m x y = Some fl
       /\ (1 - u) ^ p (length x) * (/ (1 + u)) ^ q (length x) * sp (rshift rnd x) (rshift rnd y) <= fl
          <= (1 + u) ^ p (length x) * (/ (1 - u)) ^ q (length x) * sp (rshift rnd x) (rshift rnd y)
       /\ Rabs (fl - sp (rshift rnd x) (rshift rnd y))
          <= ((1 + u) ^ p (length x) * (/ (1 - u)) ^ q (length x) - 1) * sp (rshift rnd x) (rshift rnd y)).
Proof. exact rounding_bound_shift_meaning. Qed.

Theorem C06_rounding_shift_sound :
  forall (c : cls) (m : metric_ir) (n p q : nat),
    rdepthq_in c m n = Some (p, q) ->
    forall u rnd, 0 <= u < 1 -> rnd_rel u rnd ->
    forall x y, length x = n -> in_dom c x y ->
    exists fl, metric_rnd rnd m x y = Some fl
               /\ within2 u p q (metric_exact_at rnd m x y) fl
               /\ Rabs (fl - metric_exact_at rnd m x y) <= (up_f u p q - 1) * Rabs (metric_exact_at rnd m x y).
Proof. exact rdepthq_in_sound. Qed.

Theorem C06_rounding_shift_table :
  forall n, (1 <= n)%nat ->
       rdepthq_name NonNeg "additive_symmetric_distance" n = Some ((n + 6)%nat, 1%nat)
    /\ rdepthq_name NonNeg "bray_curtis_distance" n = Some ((n + 1)%nat, n)
    /\ rdepthq_name NonNeg "canberra_distance" n = Some ((n + 1)%nat, 1%nat)
    /\ rdepthq_name NonNeg "chi_squared_distance" n = Some ((n + 4)%nat, 1%nat)
    /\ rdepthq_name NonNeg "clark_distance" n = Some (((n + 5) / 2 + 1)%nat, 1%nat)
    /\ rdepthq_name NonNeg "divergence_distance" n = Some ((n + 4)%nat, 3%nat)
    /\ rdepthq_name NonNeg "kulczynski_distance" n = Some ((n + 1)%nat, (n - 1)%nat)
    /\ rdepthq_name NonNeg "max_symmetric_distance" n = Some ((n + 3)%nat, 0%nat)
    /\ rdepthq_name NonNeg "mean_censored_euclidean_distance" n = Some (((n + 4) / 2 + 1)%nat, 0%nat)
    /\ rdepthq_name NonNeg "min_symmetric_distance" n = Some ((n + 3)%nat, 0%nat)
    /\ rdepthq_name NonNeg "neyman_distance" n = Some ((n + 3)%nat, 0%nat)
    /\ rdepthq_name NonNeg "pearson_distance" n = Some ((n + 3)%nat, 0%nat)
    /\ rdepthq_name NonNeg "sangvi_distance" n = Some ((n + 4)%nat, 1%nat)
    /\ rdepthq_name NonNeg "soergel_distance" n = Some ((n + 1)%nat, (n - 1)%nat)
    /\ rdepthq_name NonNeg "squared_distance" n = Some ((n + 3)%nat, 1%nat)
    /\ rdepthq_name NonNeg "vicis_symmetric1_distance" n = Some ((n + 3)%nat, 1%nat)
    /\ rdepthq_name NonNeg "vicis_symmetric2_distance" n = Some ((n + 3)%nat, 0%nat)
    /\ rdepthq_name NonNeg "vicis_symmetric3_distance" n = Some ((n + 3)%nat, 0%nat)
    /\ rdepthq_name NonNeg "vicis_wave_hedges_distance" n = Some ((n + 1)%nat, 0%nat).
Proof. exact rq_table_all. Qed.

Theorem C06_rounding_shift_all :
     rounding_bound_shift NonNeg ir_additive_symmetric sp_additive_symmetric (fun n => (n + 6)%nat) (fun _ => 1%nat)
  /\ rounding_bound_shift NonNeg ir_bray_curtis sp_bray_curtis (fun n => (n + 1)%nat) (fun n => n)
  /\ rounding_bound_shift NonNeg ir_canberra sp_canberra (fun n => (n + 1)%nat) (fun _ => 1%nat)
  /\ rounding_bound_shift NonNeg ir_chi_squared sp_chi_squared (fun n => (n + 4)%nat) (fun _ => 1%nat)
  /\ rounding_bound_shift NonNeg ir_clark sp_clark (fun n => ((n + 5) / 2 + 1)%nat) (fun _ => 1%nat)
  /\ rounding_bound_shift NonNeg ir_divergence sp_divergence (fun n => (n + 4)%nat) (fun _ => 3%nat)
  /\ rounding_bound_shift NonNeg ir_kulczynski sp_kulczynski (fun n => (n + 1)%nat) (fun n => (n - 1)%nat)
  /\ rounding_bound_shift NonNeg ir_max_symmetric sp_max_symmetric (fun n => (n + 3)%nat) (fun _ => 0%nat)
  /\ rounding_bound_shift NonNeg ir_mean_censored_euclidean sp_mean_censored_euclidean (fun n => ((n + 4) / 2 + 1)%nat) (fun _ => 0%nat)
  /\ rounding_bound_shift NonNeg ir_min_symmetric sp_min_symmetric (fun n => (n + 3)%nat) (fun _ => 0%nat)
  /\ rounding_bound_shift NonNeg ir_neyman sp_neyman (fun n => (n + 3)%nat) (fun _ => 0%nat)
  /\ rounding_bound_shift NonNeg ir_pearson sp_pearson (fun n => (n + 3)%nat) (fun _ => 0%nat)
  /\ rounding_bound_shift NonNeg ir_sangvi sp_sangvi (fun n => (n + 4)%nat) (fun _ => 1%nat)
  /\ rounding_bound_shift NonNeg ir_soergel sp_soergel (fun n => (n + 1)%nat) (fun n => (n - 1)%nat)
  /\ rounding_bound_shift NonNeg ir_squared sp_squared (fun n => (n + 3)%nat) (fun _ => 1%nat)
  /\ rounding_bound_shift NonNeg ir_vicis_symmetric1 sp_vicis_symmetric1 (fun n => (n + 3)%nat) (fun _ => 1%nat)
  /\ rounding_bound_shift NonNeg ir_vicis_symmetric2 sp_vicis_symmetric2 (fun n => (n + 3)%nat) (fun _ => 0%nat)
  /\ rounding_bound_shift NonNeg ir_vicis_symmetric3 sp_vicis_symmetric3 (fun n => (n + 3)%nat) (fun _ => 0%nat)
  /\ rounding_bound_shift NonNeg ir_vicis_wave_hedges sp_vicis_wave_hedges (fun n => (n + 1)%nat) (fun _ => 0%nat).
Proof. exact rounding_shift_all. Qed.

Theorem C06_rounding_shift_nonvacuous :
  0 < u64 < 1 /\ rnd_rel u64 (rnd_up u64) /\ rnd_up u64 1 <> 1
  /\ Forall (in_cls NonNeg) [1] /\ Forall (in_cls NonNeg) [3]
  /\ metric_rnd (rnd_up u64) ir_canberra [1] [3]
     = Some (sp_canberra (rshift (rnd_up u64) [1]) (rshift (rnd_up u64) [3]) * (1 + u64))
  /\ 0 < sp_canberra (rshift (rnd_up u64) [1]) (rshift (rnd_up u64) [3])
  /\ lo_f u64 (1 + 1) 1 <= 1 + u64 <= up_f u64 (1 + 1) 1.
Proof. exact rounding_shift_nonvacuous. Qed.
