(* C11: see Props/C11_rescale.v and Props/C11_perm.v *)
From OPF Require Import Model.Sup.
