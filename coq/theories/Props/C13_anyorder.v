(* C13 for an ARBITRARY weight type [W] whose comparison [ltb] is a strict total order
   (Base/TotalOrder.v).  Statements of Props/C13.v with  a <= b  written  ltb b a = false,
   a < b  written  ltb a b = true  and Z.min replaced by the model's own [wmin ltb]
   (Model/Knn.v).  Derived from the theorems at W := Z by the abstraction theorems of
   Proofs/ParamKnn.v and the rank embedding of Proofs/OrderEmbed.v (Proofs/LiftCluster.v).
   Not lifted: C13_sup_density_gap and C13_unsup_density_gap ("density minus 1" is arithmetic,
   not order-only); C13_propagate_labels_spec does not mention the order at all. *)
From OPF Require Import Proofs.HeapPrelude Base.Lists Base.TotalOrder Model.Heap Model.Knn Spec.Paths
  Spec.Trees Proofs.LiftCluster Proofs.LiftClusterExample.

(* ---------------- KNN-supervised ---------------- *)

Theorem C13_sup_order_anyorder :
  forall (W : Type) (ltb : W -> W -> bool),
    strict_total_order ltb ->
    forall (zero top bot : W) (g : @knn W) (n : nat),
    length (k_label g) = n -> length (k_cost g) = n -> length (k_pred g) = n ->
    length (k_root g) = n -> length (k_plabel g) = n -> length (k_clabel g) = n ->
    (forall p q, In q (nth p (k_adj g) []) -> q < n) ->
    (forall i, i < n -> ltb (nth i (k_cost g) zero) (nth i (k_dens g) zero) = true) ->
    forall force : bool,
    (force = true -> forall i, i < n -> ltb bot (nth i (k_cost g) zero) = true) ->
    let g' := clustering_sup ltb zero top bot force g in
    exists ord, k_order g' = k_order g ++ ord /\ Permutation ord (seq 0 n).
Proof. exact (@clustering_sup_order_anyorder). Qed.

Theorem C13_sup_links_anyorder :
  forall (W : Type) (ltb : W -> W -> bool),
    strict_total_order ltb ->
    forall (zero top bot : W) (g : @knn W) (n : nat),
    length (k_label g) = n -> length (k_cost g) = n -> length (k_pred g) = n ->
    length (k_root g) = n -> length (k_plabel g) = n -> length (k_clabel g) = n ->
    (forall p q, In q (nth p (k_adj g) []) -> q < n) ->
    (forall i, i < n -> ltb (nth i (k_cost g) zero) (nth i (k_dens g) zero) = true) ->
    forall force : bool,
    (force = true -> forall i, i < n -> ltb bot (nth i (k_cost g) zero) = true) ->
    let g' := clustering_sup ltb zero top bot force g in
    let pred := fun q => nth q (k_pred g') None in
    let root := fun q => nth q (k_root g') 0 in
    let cost := fun q => nth q (k_cost g') zero in
    let plabel := fun q => nth q (k_plabel g') 0 in
    let dens := fun q => nth q (k_dens g) zero in
    let cost0 := fun q => nth q (k_cost g) zero in
    let label := fun q => nth q (k_label g) 0 in
    k_label g' = k_label g /\ k_dens g' = k_dens g /\
    k_adj g' = plateau_sup ltb zero n (k_dens g) (k_adj g) /\
    exists ord, k_order g' = k_order g ++ ord /\ Permutation ord (seq 0 n) /\
      forall q, q < n ->
        match pred q with
        | None => root q = q /\ cost q = dens q /\ plabel q = label q
        | Some p => p < n /\ before ord p q /\ In q (nth p (k_adj g') []) /\
                    root q = root p /\ cost q = wmin ltb (cost p) (dens q) /\
                    ltb (cost0 q) (cost q) = true /\ plabel q = plabel p /\
                    (force = true -> label p = label q)
        end.
Proof. exact (@clustering_sup_links_anyorder). Qed.

Theorem C13_sup_forest_anyorder :
  forall (W : Type) (ltb : W -> W -> bool),
    strict_total_order ltb ->
    forall (zero top bot : W) (g : @knn W) (n : nat),
    length (k_label g) = n -> length (k_cost g) = n -> length (k_pred g) = n ->
    length (k_root g) = n -> length (k_plabel g) = n -> length (k_clabel g) = n ->
    (forall p q, In q (nth p (k_adj g) []) -> q < n) ->
    (forall i, i < n -> ltb (nth i (k_cost g) zero) (nth i (k_dens g) zero) = true) ->
    forall force : bool,
    (force = true -> forall i, i < n -> ltb bot (nth i (k_cost g) zero) = true) ->
    let g' := clustering_sup ltb zero top bot force g in
    let pred := fun q => nth q (k_pred g') None in
    let root := fun q => nth q (k_root g') 0 in
    let cost := fun q => nth q (k_cost g') zero in
    let plabel := fun q => nth q (k_plabel g') 0 in
    let dens := fun q => nth q (k_dens g) zero in
    let cost0 := fun q => nth q (k_cost g) zero in
    let label := fun q => nth q (k_label g) 0 in
    forall q, q < n ->
      exists r k, k < n /\ r < n /\ reaches pred q r k /\ pred r = None /\
        (forall r', root_of pred q r' -> r' = r) /\
        root q = r /\ ltb (cost r) (cost q) = false /\ cost r = dens r /\
        ltb (cost0 q) (dens r) = true /\
        plabel q = plabel r /\ plabel r = label r /\
        (force = true -> label q = label r).
Proof. exact (@clustering_sup_forest_anyorder). Qed.

(* ---------------- unsupervised ---------------- *)

Theorem C13_unsup_order_anyorder :
  forall (W : Type) (ltb : W -> W -> bool),
    strict_total_order ltb ->
    forall (zero top bot : W) (g : @knn W) (n : nat),
    length (k_label g) = n -> length (k_cost g) = n -> length (k_pred g) = n ->
    length (k_root g) = n -> length (k_plabel g) = n -> length (k_clabel g) = n ->
    (forall p q, In q (nth p (k_adj g) []) -> q < n) ->
    (forall i, i < n -> ltb (nth i (k_cost g) zero) (nth i (k_dens g) zero) = true) ->
    forall k : nat,
    let g' := clustering_unsup ltb zero top bot k g in
    exists ord, k_order g' = k_order g ++ ord /\ Permutation ord (seq 0 n).
Proof. exact (@clustering_unsup_order_anyorder). Qed.

Theorem C13_unsup_links_anyorder :
  forall (W : Type) (ltb : W -> W -> bool),
    strict_total_order ltb ->
    forall (zero top bot : W) (g : @knn W) (n : nat),
    length (k_label g) = n -> length (k_cost g) = n -> length (k_pred g) = n ->
    length (k_root g) = n -> length (k_plabel g) = n -> length (k_clabel g) = n ->
    (forall p q, In q (nth p (k_adj g) []) -> q < n) ->
    (forall i, i < n -> ltb (nth i (k_cost g) zero) (nth i (k_dens g) zero) = true) ->
    forall k : nat,
    let g' := clustering_unsup ltb zero top bot k g in
    let pred := fun q => nth q (k_pred g') None in
    let root := fun q => nth q (k_root g') 0 in
    let cost := fun q => nth q (k_cost g') zero in
    let clabel := fun q => nth q (k_clabel g') 0 in
    let dens := fun q => nth q (k_dens g) zero in
    let cost0 := fun q => nth q (k_cost g) zero in
    k_label g' = k_label g /\ k_dens g' = k_dens g /\
    (k_adj g', k_nplat g') = plateau_unsup ltb zero k n (k_dens g) (k_adj g) (k_nplat g) /\
    exists ord, k_order g' = k_order g ++ ord /\ Permutation ord (seq 0 n) /\
      forall q, q < n ->
        match pred q with
        | None => root q = q /\ cost q = dens q
        | Some p => p < n /\ before ord p q /\
                    In q (firstn (nth p (k_nplat g') 0 + k) (nth p (k_adj g') [])) /\
                    root q = root p /\ cost q = wmin ltb (cost p) (dens q) /\
                    ltb (cost0 q) (cost q) = true /\ clabel q = clabel p
        end.
Proof. exact (@clustering_unsup_links_anyorder). Qed.

Theorem C13_unsup_forest_anyorder :
  forall (W : Type) (ltb : W -> W -> bool),
    strict_total_order ltb ->
    forall (zero top bot : W) (g : @knn W) (n : nat),
    length (k_label g) = n -> length (k_cost g) = n -> length (k_pred g) = n ->
    length (k_root g) = n -> length (k_plabel g) = n -> length (k_clabel g) = n ->
    (forall p q, In q (nth p (k_adj g) []) -> q < n) ->
    (forall i, i < n -> ltb (nth i (k_cost g) zero) (nth i (k_dens g) zero) = true) ->
    forall k : nat,
    let g' := clustering_unsup ltb zero top bot k g in
    let pred := fun q => nth q (k_pred g') None in
    let root := fun q => nth q (k_root g') 0 in
    let cost := fun q => nth q (k_cost g') zero in
    let clabel := fun q => nth q (k_clabel g') 0 in
    let dens := fun q => nth q (k_dens g) zero in
    let cost0 := fun q => nth q (k_cost g) zero in
    forall q, q < n ->
      exists r j, j < n /\ r < n /\ reaches pred q r j /\ pred r = None /\
        (forall r', root_of pred q r' -> r' = r) /\
        root q = r /\ ltb (cost r) (cost q) = false /\ cost r = dens r /\
        ltb (cost0 q) (dens r) = true /\
        clabel q = clabel r.
Proof. exact (@clustering_unsup_forest_anyorder). Qed.

(* n_clusters = number of roots; the i-th root in removal order has identifier i; root
   identifiers are pairwise distinct and are exactly 0..n_clusters-1 *)
Theorem C13_unsup_ids_anyorder :
  forall (W : Type) (ltb : W -> W -> bool),
    strict_total_order ltb ->
    forall (zero top bot : W) (g : @knn W) (n : nat),
    length (k_label g) = n -> length (k_cost g) = n -> length (k_pred g) = n ->
    length (k_root g) = n -> length (k_plabel g) = n -> length (k_clabel g) = n ->
    (forall p q, In q (nth p (k_adj g) []) -> q < n) ->
    (forall i, i < n -> ltb (nth i (k_cost g) zero) (nth i (k_dens g) zero) = true) ->
    forall k : nat,
    let g' := clustering_unsup ltb zero top bot k g in
    let pred := fun q => nth q (k_pred g') None in
    let clabel := fun q => nth q (k_clabel g') 0 in
    let isroot := fun q => match pred q with None => true | Some _ => false end in
    k_nclusters g' = length (filter isroot (seq 0 n)) /\
    (exists ord, k_order g' = k_order g ++ ord /\ Permutation ord (seq 0 n) /\
       length (filter isroot ord) = k_nclusters g' /\
       forall i, i < k_nclusters g' -> clabel (nth i (filter isroot ord) 0) = i) /\
    (forall r, r < n -> pred r = None -> clabel r < k_nclusters g') /\
    (forall r r', r < n -> r' < n -> pred r = None -> pred r' = None ->
       clabel r = clabel r' -> r = r') /\
    (forall i, i < k_nclusters g' -> exists r, r < n /\ pred r = None /\ clabel r = i) /\
    (forall q, q < n -> clabel q < k_nclusters g').
Proof. exact (@clustering_unsup_ids_anyorder). Qed.

Theorem C13_propagate_labels_root_anyorder :
  forall (W : Type) (ltb : W -> W -> bool),
    strict_total_order ltb ->
    forall (zero top bot : W) (g : @knn W) (n : nat),
    length (k_label g) = n -> length (k_cost g) = n -> length (k_pred g) = n ->
    length (k_root g) = n -> length (k_plabel g) = n -> length (k_clabel g) = n ->
    (forall p q, In q (nth p (k_adj g) []) -> q < n) ->
    (forall i, i < n -> ltb (nth i (k_cost g) zero) (nth i (k_dens g) zero) = true) ->
    forall k : nat,
    let g' := clustering_unsup ltb zero top bot k g in
    let pred := fun q => nth q (k_pred g') None in
    forall q, q < n ->
      exists r, r < n /\ root_of pred q r /\ (forall r', root_of pred q r' -> r' = r) /\
        nth q (k_plabel (propagate_labels g')) 0 = nth r (k_label g) 0.
Proof. exact (@propagate_labels_root_anyorder). Qed.

(* non-vacuity at W := nat: the 5-node instance of Proofs/ClusterExample.v, weights shifted by one *)
Theorem C13_anyorder_example_premises :
  strict_total_order Nat.ltb /\
  length (k_label exn_g) = 5 /\ length (k_cost exn_g) = 5 /\ length (k_pred exn_g) = 5 /\
  length (k_root exn_g) = 5 /\ length (k_plabel exn_g) = 5 /\ length (k_clabel exn_g) = 5 /\
  (forall p q, In q (nth p (k_adj exn_g) []) -> q < 5) /\
  (forall i, i < 5 -> Nat.ltb (nth i (k_cost exn_g) 1) (nth i (k_dens exn_g) 1) = true) /\
  (forall force : bool, force = true ->
     forall i, i < 5 -> Nat.ltb 0 (nth i (k_cost exn_g) 1) = true).
Proof. exact exn_cluster_premises. Qed.

Theorem C13_anyorder_example_result :
  let g' := clustering_unsup Nat.ltb 1 1000 0 2 exn_g in
  k_pred g' = [None; Some 0; Some 0; None; Some 3] /\
  k_root g' = [0; 0; 0; 3; 3] /\
  k_cost g' = [6; 6; 4; 5; 4] /\
  k_clabel g' = [0; 0; 0; 1; 1] /\
  k_order g' = [0; 1; 3; 2; 4] /\
  k_nclusters g' = 2 /\
  k_plabel (propagate_labels g') = [0; 0; 0; 1; 1].
Proof. exact exn_unsup_result_explicit. Qed.
