(* C08 (float level, exactness part): two of the metric axioms hold EXACTLY under rounded arithmetic,
   for every admissible rounding function, for the regenerated code terms [ir_<name>].

   [metric_rnd rnd m x y : option R] (Model/MetricRnd.v) evaluates the generated term [m] with [rnd]
   applied after every arithmetic node (every partial sum of np.sum and the decorator's `+ EPSILON`
   included); [None] = sqrt of a negative, log of a non-positive, zero divisor.

   A. SYMMETRY.  [swap_sym m] (Model/MetricSym.v) accepts a body that is unchanged, when its two
      arguments are exchanged, up to commutativity of + * minimum maximum (never associativity) and
      sign flips absorbed by fabs / ** 2 or cancelling in products and quotients.
      [C08_float_sym_sound]: accepted => for every ODD rounding (rnd (-t) = - rnd t; round-to-nearest,
      toward zero, away from zero; nothing else is assumed) the two evaluations are the same option.
      [C08_float_symmetric]: 41 of the 42 symmetric identifiers are accepted (vm_compute on the
      generated terms).  Not accepted: jeffreys, sum((x-y)*log(x/y)), whose swapped body needs
      log(y/x) = -log(x/y): [C08_float_jeffreys_model_limit] gives an admissible odd rounding with
      different values (and numpy/binary64 differs in the last bits too: harness/c08_float.py).
      Negative control: the 5 identifiers documented as not symmetric are rejected.

   B. ZERO SELF-DISTANCE.  [zero_self c m]: a constant analysis on the diagonal x = y decides that the
      result is exactly 0 (u - u, 0 * e, 0 / e with e provably defined / non-zero by the sign-class
      analysis, fabs, ** 2, sqrt, sums and maxima of zeros, min/max, sibling calls).
      [zero_self_one c m] adds the rules through an exact 1 (e / e, 1 + 0, log 1), which need
      [rnd 1 = 1].  The class [c] is the class of the USER's vector (Any: all reals; NonNeg: a
      decorated metric then sees NonNeg + EPSILON = Pos).
      [C08_float_zero_sound] / [C08_float_zero_one_sound]: accepted => metric_rnd rnd m x x = Some 0.
      [C08_float_zero_self]: 31 identifiers for every [rounding rnd]; [C08_float_zero_self_one]: 40 of
      the 45 dissimilarities for every [rounding rnd] with [rnd 1 = 1].
      Zero only up to rounding in this model ([C08_float_zero_rejected]): bhattacharyya (sum of
      sqrt(x*x) is 1 only approximately), chord and cosine (rnd(sqrt s)^2 is s only approximately),
      jaccard (divisor s + s - s is a rounded subtraction, not provably non-zero:
      [C08_float_jaccard_model_limit]), jensen (needs rnd(2t)/2 = t); each comes with an admissible
      rounding (rnd 1 = 1) and a vector of the domain whose self-distance is not 0
      ([C08_float_bhattacharyya_refuted] -- already the identity rounding --, [C08_float_chord_model_limit],
      [C08_float_cosine_model_limit], [C08_float_jensen_model_limit]).  hassanat: accepted on
      non-negative user vectors only (undefined for some rounding on the real domain:
      C08_robust_hassanat_model_limit).  Negative control: gaussian and statistic (not
      dissimilarities) are rejected. *)
From Coq Require Import Reals QArith String List Bool.
From OPF Require Import Spec.MetricSpec Model.MetricIR Gen.Metrics_gen Model.MetricRnd Model.MetricSym
     Proofs.FloatSym Proofs.FloatZero Proofs.FloatTable Proofs.FloatZeroNeg Proofs.FloatNonneg.
Import ListNotations.
Open Scope string_scope.
Open Scope R_scope.

(* ---------------- A. symmetry ---------------- *)
Theorem C08_float_sym_sound :
  forall m : metric_ir,
    swap_sym m = true ->
    forall rnd, rnd_odd rnd ->
    forall x y, length x = length y ->
    metric_rnd rnd m x y = metric_rnd rnd m y x.
Proof. exact swap_sym_sound. Qed.

(* extra scalar parameters (gaussian's gamma) arbitrary *)
Theorem C08_float_sym_sound_with :
  forall m : metric_ir,
    swap_sym m = true ->
    forall rnd, rnd_odd rnd ->
    forall pe x y, length x = length y ->
    metric_rnd_with rnd pe m x y = metric_rnd_with rnd pe m y x.
Proof. exact swap_sym_sound_with. Qed.

Theorem C08_float_symmetric :
  forallb swap_sym_name
    ["additive_symmetric_distance"; "average_euclidean_distance"; "bhattacharyya_distance";
     "bray_curtis_distance"; "canberra_distance"; "chebyshev_distance"; "chi_squared_distance";
     "chord_distance"; "clark_distance"; "cosine_distance"; "dice_distance"; "divergence_distance";
     "euclidean_distance"; "gaussian_distance"; "gower_distance"; "hamming_distance";
     "hassanat_distance"; "hellinger_distance"; "jaccard_distance"; "jensen_distance";
     "jensen_shannon_distance"; "kulczynski_distance"; "log_euclidean_distance";
     "log_squared_euclidean_distance"; "lorentzian_distance"; "manhattan_distance";
     "matusita_distance"; "max_symmetric_distance"; "mean_censored_euclidean_distance";
     "min_symmetric_distance"; "non_intersection_distance"; "sangvi_distance"; "soergel_distance";
     "squared_distance"; "squared_chord_distance"; "squared_euclidean_distance"; "topsoe_distance";
     "vicis_symmetric1_distance"; "vicis_symmetric2_distance"; "vicis_symmetric3_distance";
     "vicis_wave_hedges_distance"] = true.
Proof. exact float_sym_tbl. Qed.

(* ... hence, for each of the 41 *)
Theorem C08_float_symmetric_all :
  forall n, In n float_sym_accepted ->
  exists m, lookup_ir n all_metrics_ir = Some m
            /\ forall rnd, rnd_odd rnd -> forall x y, length x = length y ->
               metric_rnd rnd m x y = metric_rnd rnd m y x.
Proof. exact float_sym_all. Qed.

(* the symmetric identifier that is NOT accepted (jeffreys), and the negative control: the 5 identifiers
   documented as not symmetric *)
Theorem C08_float_sym_rejected :
  map swap_sym_name
      ["jeffreys_distance"; "k_divergence_distance"; "kullback_leibler_distance"; "neyman_distance";
       "pearson_distance"; "statistic_distance"]
  = [false; false; false; false; false; false].
Proof. exact float_sym_rejected. Qed.

(* jeffreys is not symmetric under rounding: log(y/x) = -log(x/y) needs exact division *)
Theorem C08_float_jeffreys_model_limit :
  exists rnd, rounding rnd /\ rnd_odd rnd /\ rnd 1 = 1 /\ all_pos [5] /\ all_pos [10]
              /\ metric_rnd rnd ir_jeffreys [5] [10] <> metric_rnd rnd ir_jeffreys [10] [5].
Proof. exact jeffreys_model_limit. Qed.

(* negative control: associativity is never used.  `sum((x + 1) + y)` is symmetric over the reals, is
   rejected, and an admissible odd rounding gives different values *)
Theorem C08_float_assoc_control :
  swap_sym
    {| m_name := "assoc_control"; m_avoid_zero := false; m_njit := true;
       m_params := [("x", None); ("y", None)];
       m_body := SSum (VBin BAdd (VBin BAdd VX (VConstS (SConstQ (1 # 1)))) VY) |} = false
  /\ exists rnd, rounding rnd /\ rnd_odd rnd
       /\ metric_rnd rnd
            {| m_name := "assoc_control"; m_avoid_zero := false; m_njit := true;
               m_params := [("x", None); ("y", None)];
               m_body := SSum (VBin BAdd (VBin BAdd VX (VConstS (SConstQ (1 # 1)))) VY) |} [/ 2] [5]
          <> metric_rnd rnd
            {| m_name := "assoc_control"; m_avoid_zero := false; m_njit := true;
               m_params := [("x", None); ("y", None)];
               m_body := SSum (VBin BAdd (VBin BAdd VX (VConstS (SConstQ (1 # 1)))) VY) |} [5] [/ 2].
Proof. exact assoc_control. Qed.

(* ---------------- B. exact zero self-distance ---------------- *)
Theorem C08_float_zero_sound :
  forall (c : cls) (m : metric_ir),
    zero_self c m = true ->
    forall rnd, rounding rnd ->
    forall x, (1 <= length x)%nat -> Forall (in_cls c) x ->
    metric_rnd rnd m x x = Some 0.
Proof. exact zero_self_sound. Qed.

Theorem C08_float_zero_one_sound :
  forall (c : cls) (m : metric_ir),
    zero_self_one c m = true ->
    forall rnd, rounding rnd -> rnd 1 = 1 ->
    forall x, (1 <= length x)%nat -> Forall (in_cls c) x ->
    metric_rnd rnd m x x = Some 0.
Proof. exact zero_self_one_sound. Qed.

(* every admissible rounding *)
Theorem C08_float_zero_self :
  forallb zero_self_name
    [("additive_symmetric_distance", NonNeg); ("average_euclidean_distance", Any);
     ("bray_curtis_distance", NonNeg); ("canberra_distance", NonNeg); ("chebyshev_distance", Any);
     ("chi_squared_distance", NonNeg); ("clark_distance", NonNeg); ("divergence_distance", NonNeg);
     ("euclidean_distance", Any); ("gower_distance", Any); ("hamming_distance", Any);
     ("hellinger_distance", NonNeg); ("jeffreys_distance", NonNeg); ("kulczynski_distance", NonNeg);
     ("manhattan_distance", Any); ("matusita_distance", NonNeg); ("max_symmetric_distance", NonNeg);
     ("mean_censored_euclidean_distance", NonNeg); ("min_symmetric_distance", NonNeg);
     ("neyman_distance", NonNeg); ("non_intersection_distance", Any); ("pearson_distance", NonNeg);
     ("sangvi_distance", NonNeg); ("soergel_distance", NonNeg); ("squared_distance", NonNeg);
     ("squared_chord_distance", NonNeg); ("squared_euclidean_distance", Any);
     ("vicis_symmetric1_distance", NonNeg); ("vicis_symmetric2_distance", NonNeg);
     ("vicis_symmetric3_distance", NonNeg); ("vicis_wave_hedges_distance", NonNeg)] = true.
Proof. exact float_zero_tbl. Qed.

(* admissible roundings with rnd 1 = 1: the 31 above and 9 more *)
Theorem C08_float_zero_self_one :
  forallb zero_self_one_name
    ([("additive_symmetric_distance", NonNeg); ("average_euclidean_distance", Any);
      ("bray_curtis_distance", NonNeg); ("canberra_distance", NonNeg); ("chebyshev_distance", Any);
      ("chi_squared_distance", NonNeg); ("clark_distance", NonNeg); ("divergence_distance", NonNeg);
      ("euclidean_distance", Any); ("gower_distance", Any); ("hamming_distance", Any);
      ("hellinger_distance", NonNeg); ("jeffreys_distance", NonNeg); ("kulczynski_distance", NonNeg);
      ("manhattan_distance", Any); ("matusita_distance", NonNeg); ("max_symmetric_distance", NonNeg);
      ("mean_censored_euclidean_distance", NonNeg); ("min_symmetric_distance", NonNeg);
      ("neyman_distance", NonNeg); ("non_intersection_distance", Any); ("pearson_distance", NonNeg);
      ("sangvi_distance", NonNeg); ("soergel_distance", NonNeg); ("squared_distance", NonNeg);
      ("squared_chord_distance", NonNeg); ("squared_euclidean_distance", Any);
      ("vicis_symmetric1_distance", NonNeg); ("vicis_symmetric2_distance", NonNeg);
      ("vicis_symmetric3_distance", NonNeg); ("vicis_wave_hedges_distance", NonNeg)]
     ++ [("dice_distance", NonNeg); ("hassanat_distance", NonNeg); ("jensen_shannon_distance", NonNeg);
         ("k_divergence_distance", NonNeg); ("kullback_leibler_distance", NonNeg);
         ("log_euclidean_distance", Any); ("log_squared_euclidean_distance", Any);
         ("lorentzian_distance", Any); ("topsoe_distance", NonNeg)]) = true.
Proof. exact float_zero_one_tbl. Qed.

(* ... hence, for each entry *)
Theorem C08_float_zero_self_all :
  forall nc, In nc float_zero_accepted ->
  exists m, lookup_ir (fst nc) all_metrics_ir = Some m
            /\ forall rnd, rounding rnd ->
               forall x, (1 <= length x)%nat -> Forall (in_cls (snd nc)) x ->
               metric_rnd rnd m x x = Some 0.
Proof. exact float_zero_all. Qed.

Theorem C08_float_zero_self_one_all :
  forall nc, In nc float_zero_one_accepted ->
  exists m, lookup_ir (fst nc) all_metrics_ir = Some m
            /\ forall rnd, rounding rnd -> rnd 1 = 1 ->
               forall x, (1 <= length x)%nat -> Forall (in_cls (snd nc)) x ->
               metric_rnd rnd m x x = Some 0.
Proof. exact float_zero_one_all. Qed.

(* the 9 that go through an exact 1 are rejected by the plain checker, on every class *)
Theorem C08_float_zero_one_needed :
  forallb (fun nc => negb (zero_self_name (fst nc, Pos)) && negb (zero_self_name (fst nc, NonNeg))
                     && negb (zero_self_name (fst nc, Any)))
    [("dice_distance", NonNeg); ("hassanat_distance", NonNeg); ("jensen_shannon_distance", NonNeg);
     ("k_divergence_distance", NonNeg); ("kullback_leibler_distance", NonNeg);
     ("log_euclidean_distance", Any); ("log_squared_euclidean_distance", Any);
     ("lorentzian_distance", Any); ("topsoe_distance", NonNeg)] = true.
Proof. exact float_zero_one_needed. Qed.

(* rejected on every class even with rnd 1 = 1: the 5 dissimilarities that are zero only up to
   rounding; negative control: gaussian, statistic; hassanat on the real domain *)
Theorem C08_float_zero_rejected :
  forallb (fun n => negb (zero_self_one_name (n, Pos)) && negb (zero_self_one_name (n, NonNeg))
                    && negb (zero_self_one_name (n, Any)))
    ["bhattacharyya_distance"; "chord_distance"; "cosine_distance"; "jaccard_distance"; "jensen_distance";
     "gaussian_distance"; "statistic_distance"] = true
  /\ zero_self_one Any ir_hassanat = false.
Proof. exact float_zero_rejected. Qed.

Theorem C08_float_jaccard_model_limit :
  exists rnd, rounding rnd /\ all_pos [1] /\ metric_rnd rnd ir_jaccard [1] [1] <> Some 0.
Proof. exact jaccard_zero_model_limit. Qed.

(* the rejections are not an incompleteness of the checker: admissible roundings with rnd 1 = 1 under
   which the self-distance is defined and not 0 (bhattacharyya: already in exact arithmetic, on the
   probability vector [1], the decorated body computes -ln (1 + EPSILON)) *)
Theorem C08_float_bhattacharyya_refuted :
  rounding (fun a : R => a) /\ (fun a : R => a) 1 = 1 /\ prob [1]
  /\ metric_rnd (fun a : R => a) ir_bhattacharyya [1] [1] <> Some 0.
Proof. exact bhattacharyya_zero_refuted. Qed.

Theorem C08_float_jensen_model_limit :
  exists rnd, rounding rnd /\ rnd 1 = 1 /\ all_pos [1] /\ metric_rnd rnd ir_jensen [1] [1] <> Some 0.
Proof. exact jensen_zero_model_limit. Qed.

Theorem C08_float_cosine_model_limit :
  exists rnd, rounding rnd /\ rnd 1 = 1 /\ all_pos [1] /\ metric_rnd rnd ir_cosine [1] [1] <> Some 0.
Proof. exact cosine_zero_model_limit. Qed.

Theorem C08_float_chord_model_limit :
  exists rnd, rounding rnd /\ rnd 1 = 1 /\ all_pos [1] /\ metric_rnd rnd ir_chord [1] [1] <> Some 0.
Proof. exact chord_zero_model_limit. Qed.

(* ---------------- non-negativity under every admissible rounding ---------------- *)
(* 31 identifiers: the sign-class interpreter bounds the result by NonNeg/Pos, so the rounded evaluation is
   defined and >= 0 whatever the (monotone, sign-preserving) rounding does; user-level classes as above *)
Theorem C08_float_nonneg : forallb nonneg_result float_nonneg_list = true.
Proof. exact float_nonneg_tbl. Qed.

Theorem C08_float_nonneg_all : forall nc, In nc float_nonneg_list ->
  exists m, lookup_ir (fst nc) all_metrics_ir = Some m /\
  forall rnd, rounding rnd ->
  forall x y, length x = length y -> (1 <= length x)%nat ->
              Forall (in_cls (snd nc)) x -> Forall (in_cls (snd nc)) y ->
  exists r, metric_rnd rnd m x y = Some r /\ 0 <= r.
Proof. exact float_nonneg_all. Qed.

(* the 13 accepted identifiers whose sign the four-point lattice cannot bound (a logarithm needs "argument >= 1") *)
Theorem C08_float_nonneg_unknown : map result_class float_nonneg_unknown = repeat (Some Any) 13.
Proof. exact float_nonneg_unknown_tbl. Qed.

Theorem C08_float_nonneg_nonvacuous :
  In ("squared_distance"%string, NonNeg) float_nonneg_list /\ rounding (fun a : R => a) /\
  length [0; 2] = length [1; 0] /\ (1 <= length [0; 2])%nat /\
  Forall (in_cls NonNeg) [0; 2] /\ Forall (in_cls NonNeg) [1; 0].
Proof. exact float_nonneg_example. Qed.

(* ---------------- non-vacuity ---------------- *)
(* the identity and the plateau rounding [rndS] are admissible and odd; manhattan([1;2],[3;5]) = 5 *)
Theorem C08_float_sym_nonvacuous :
  swap_sym ir_manhattan = true /\ rnd_odd (fun a : R => a) /\ rounding (fun a : R => a)
  /\ length [1; 2] = length [3; 5]
  /\ metric_rnd (fun a : R => a) ir_manhattan [1; 2] [3; 5] = Some 5
  /\ swap_sym ir_hassanat = true /\ rnd_odd rndS /\ rounding rndS.
Proof. exact float_sym_nonvacuous. Qed.

Theorem C08_float_zero_nonvacuous :
  zero_self NonNeg ir_canberra = true /\ zero_self_one Any ir_lorentzian = true
  /\ rounding (fun a : R => a) /\ (fun a : R => a) 1 = 1
  /\ rounding rndS /\ rndS 1 = 1
  /\ (1 <= length [0; 2])%nat /\ Forall (in_cls NonNeg) [0; 2] /\ Forall (in_cls Any) [-3; 2]
  /\ metric_rnd rndS ir_canberra [0; 2] [0; 2] = Some 0
  /\ metric_rnd rndS ir_lorentzian [-3; 2] [-3; 2] = Some 0.
Proof. exact float_zero_nonvacuous. Qed.
