(* C08 at IEEE-754 binary64: the float-level exactness theorems of Props/C08_float.v and the robust-sign theorem of
   Props/C08_robust.v with the abstract rounding replaced by the binary64 rounding functions of Model/Binary64.v.

   SYMMETRY holds for the REAL binary64 rounding [rnd64] (gradual underflow included): the theorem only needs
   oddness, rnd64 (-t) = - rnd64 t, so there is no underflow caveat; overflow is outside (rnd64 is unbounded).
   ZERO SELF-DISTANCE, DEFINEDNESS (no sqrt of a negative, log of a non-positive, zero divisor) and
   NON-NEGATIVITY need the strict sign to survive rounding and are therefore stated for [rnd64x] (binary64 with
   no underflow): they describe every binary64 run in which no non-zero exact intermediate result is rounded to
   zero (see C06_binary64_rnd64_not_rounding for why rnd64 itself is not in the class). *)
From Coq Require Import Reals QArith String List Bool.
From OPF Require Import Spec.MetricSpec Model.MetricIR Gen.Metrics_gen Model.MetricRnd Model.MetricSym
     Proofs.FloatSym Proofs.FloatZero Proofs.FloatTable Proofs.FloatNonneg
     Model.Binary64 Proofs.Binary64 Proofs.Binary64Metric.
Import ListNotations.
Open Scope string_scope.
Open Scope R_scope.

(* ---------------- symmetry, at the real format ---------------- *)
Theorem C08_binary64_sym_sound :
  forall m : metric_ir,
    swap_sym m = true ->
    forall x y, length x = length y ->
    metric_rnd rnd64 m x y = metric_rnd rnd64 m y x.
Proof. exact b64_sym_sound. Qed.

(* for each of the 41 accepted identifiers (list: Props/C08_float.v, C08_float_symmetric) *)
Theorem C08_binary64_symmetric_all :
  forall n, In n float_sym_accepted ->
  exists m, lookup_ir n all_metrics_ir = Some m
            /\ forall x y, length x = length y -> metric_rnd rnd64 m x y = metric_rnd rnd64 m y x.
Proof. exact b64_sym_all. Qed.

(* the same without underflow *)
Theorem C08_binary64_sym_sound_nounderflow :
  forall m : metric_ir,
    swap_sym m = true ->
    forall x y, length x = length y ->
    metric_rnd rnd64x m x y = metric_rnd rnd64x m y x.
Proof. exact b64x_sym_sound. Qed.

(* ---------------- exact zero self-distance (no underflow) ---------------- *)
Theorem C08_binary64_zero_sound :
  forall (c : cls) (m : metric_ir),
    zero_self c m = true ->
    forall x, (1 <= length x)%nat -> Forall (in_cls c) x ->
    metric_rnd rnd64x m x x = Some 0.
Proof. exact b64_zero_sound. Qed.

Theorem C08_binary64_zero_one_sound :
  forall (c : cls) (m : metric_ir),
    zero_self_one c m = true ->
    forall x, (1 <= length x)%nat -> Forall (in_cls c) x ->
    metric_rnd rnd64x m x x = Some 0.
Proof. exact b64_zero_one_sound. Qed.

(* the 40 accepted (identifier, domain) pairs of C08_float_zero_self_one *)
Theorem C08_binary64_zero_self_all :
  forall nc, In nc float_zero_one_accepted ->
  exists m, lookup_ir (fst nc) all_metrics_ir = Some m
            /\ forall x, (1 <= length x)%nat -> Forall (in_cls (snd nc)) x ->
               metric_rnd rnd64x m x x = Some 0.
Proof. exact b64_zero_one_all. Qed.

(* ---------------- definedness and sign class (no underflow) ---------------- *)
Theorem C08_binary64_robust_sound :
  forall (c : cls) (m : metric_ir),
    robust_check c m = true ->
    forall x y, length x = length y -> (1 <= length x)%nat ->
                Forall (in_cls c) x -> Forall (in_cls c) y ->
    metric_rnd rnd64x m x y <> None
    /\ exists c' r, robust_class c m = Some c' /\ metric_rnd rnd64x m x y = Some r /\ in_cls c' r.
Proof. exact b64_robust_sound. Qed.

Theorem C08_binary64_nonneg_all :
  forall nc, In nc float_nonneg_list ->
  exists m, lookup_ir (fst nc) all_metrics_ir = Some m /\
  forall x y, length x = length y -> (1 <= length x)%nat ->
              Forall (in_cls (snd nc)) x -> Forall (in_cls (snd nc)) y ->
  exists r, metric_rnd rnd64x m x y = Some r /\ 0 <= r.
Proof. exact b64_nonneg_all. Qed.

(* ---------------- non-vacuity ---------------- *)
(* computed in binary64 arithmetic: manhattan([1; 2], [3; 5]) = 5 both ways; and the theorem on a pair with entries
   that are not binary64 numbers *)
Theorem C08_binary64_sym_nonvacuous :
  swap_sym ir_manhattan = true /\ swap_sym ir_hassanat = true /\ rnd_odd rnd64 /\
  length [1; 2] = length [3; 5] /\
  metric_rnd rnd64 ir_manhattan [1; 2] [3; 5] = Some 5 /\ metric_rnd rnd64 ir_manhattan [3; 5] [1; 2] = Some 5 /\
  metric_rnd rnd64 ir_euclidean [1 / 10; 2] [3; 1 / 3] = metric_rnd rnd64 ir_euclidean [3; 1 / 3] [1 / 10; 2].
Proof. exact b64_sym_nonvacuous. Qed.

Theorem C08_binary64_zero_nonvacuous :
  zero_self NonNeg ir_canberra = true /\ zero_self_one Any ir_lorentzian = true
  /\ (1 <= length [0; 1 / 10])%nat /\ Forall (in_cls NonNeg) [0; 1 / 10] /\ Forall (in_cls Any) [-3; 1 / 10]
  /\ metric_rnd rnd64x ir_canberra [0; 1 / 10] [0; 1 / 10] = Some 0
  /\ metric_rnd rnd64x ir_lorentzian [-3; 1 / 10] [-3; 1 / 10] = Some 0
  /\ rnd64x (1 / 10) <> 1 / 10.
Proof. exact b64_zero_nonvacuous. Qed.

Theorem C08_binary64_robust_nonvacuous :
  robust_check Pos ir_canberra = true /\ Forall (in_cls Pos) [1 / 10; 2] /\ Forall (in_cls Pos) [3; 1 / 3]
  /\ exists r, metric_rnd rnd64x ir_canberra [1 / 10; 2] [3; 1 / 3] = Some r.
Proof. exact b64_robust_nonvacuous. Qed.
