(* C08 (triangle inequality part): the closed forms of 13 dissimilarities satisfy the triangle
   inequality on vectors of equal, non-zero length (over the stated domains). *)
From Coq Require Import Reals List.
From OPF Require Import Spec.MetricSpec.
From OPF Require Import Proofs.TriangleL1 Proofs.TriangleL2 Proofs.TriangleCanberra Proofs.TriangleSoergel.

Theorem C08_triangle_euclidean : forall x y z : list R,
  length x = length y -> length y = length z -> (1 <= length x)%nat ->
  (sp_euclidean x z <= sp_euclidean x y + sp_euclidean y z)%R.
Proof. exact triangle_euclidean. Qed.

Theorem C08_triangle_manhattan : forall x y z : list R,
  length x = length y -> length y = length z -> (1 <= length x)%nat ->
  (sp_manhattan x z <= sp_manhattan x y + sp_manhattan y z)%R.
Proof. exact triangle_manhattan. Qed.

Theorem C08_triangle_chebyshev : forall x y z : list R,
  length x = length y -> length y = length z -> (1 <= length x)%nat ->
  (sp_chebyshev x z <= sp_chebyshev x y + sp_chebyshev y z)%R.
Proof. exact triangle_chebyshev. Qed.

Theorem C08_triangle_average_euclidean : forall x y z : list R,
  length x = length y -> length y = length z -> (1 <= length x)%nat ->
  (sp_average_euclidean x z <= sp_average_euclidean x y + sp_average_euclidean y z)%R.
Proof. exact triangle_average_euclidean. Qed.

Theorem C08_triangle_gower : forall x y z : list R,
  length x = length y -> length y = length z -> (1 <= length x)%nat ->
  (sp_gower x z <= sp_gower x y + sp_gower y z)%R.
Proof. exact triangle_gower. Qed.

Theorem C08_triangle_non_intersection : forall x y z : list R,
  length x = length y -> length y = length z -> (1 <= length x)%nat ->
  (sp_non_intersection x z <= sp_non_intersection x y + sp_non_intersection y z)%R.
Proof. exact triangle_non_intersection. Qed.

Theorem C08_triangle_hamming : forall x y z : list R,
  length x = length y -> length y = length z -> (1 <= length x)%nat ->
  (sp_hamming x z <= sp_hamming x y + sp_hamming y z)%R.
Proof. exact triangle_hamming. Qed.

Theorem C08_triangle_lorentzian : forall x y z : list R,
  length x = length y -> length y = length z -> (1 <= length x)%nat ->
  (sp_lorentzian x z <= sp_lorentzian x y + sp_lorentzian y z)%R.
Proof. exact triangle_lorentzian. Qed.

Theorem C08_triangle_log_euclidean : forall x y z : list R,
  length x = length y -> length y = length z -> (1 <= length x)%nat ->
  (sp_log_euclidean x z <= sp_log_euclidean x y + sp_log_euclidean y z)%R.
Proof. exact triangle_log_euclidean. Qed.

Theorem C08_triangle_hellinger : forall x y z : list R,
  length x = length y -> length y = length z -> (1 <= length x)%nat ->
  all_nonneg x -> all_nonneg y -> all_nonneg z ->
  (sp_hellinger x z <= sp_hellinger x y + sp_hellinger y z)%R.
Proof. exact triangle_hellinger. Qed.

Theorem C08_triangle_matusita : forall x y z : list R,
  length x = length y -> length y = length z -> (1 <= length x)%nat ->
  all_nonneg x -> all_nonneg y -> all_nonneg z ->
  (sp_matusita x z <= sp_matusita x y + sp_matusita y z)%R.
Proof. exact triangle_matusita. Qed.

Theorem C08_triangle_canberra : forall x y z : list R,
  length x = length y -> length y = length z -> (1 <= length x)%nat ->
  all_pos x -> all_pos y -> all_pos z ->
  (sp_canberra x z <= sp_canberra x y + sp_canberra y z)%R.
Proof. exact triangle_canberra. Qed.

Theorem C08_triangle_soergel : forall x y z : list R,
  length x = length y -> length y = length z -> (1 <= length x)%nat ->
  all_pos x -> all_pos y -> all_pos z ->
  (sp_soergel x z <= sp_soergel x y + sp_soergel y z)%R.
Proof. exact triangle_soergel. Qed.
