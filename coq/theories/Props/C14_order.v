From Coq Require Import List ZArith.
From OPF Require Import Model.Knn Proofs.KnnSort Proofs.KnnScan Proofs.KnnPick.
Import ListNotations.

(* Prediction scan (no sample is skipped): after scanning the n training samples with distances [dist],
   slots 0..m-1 (m = min k n) hold m distinct training samples with their distances, sorted by distance with
   ties in index order (so the result does not depend on anything but [dist]); every training sample left out is
   at least as far as every one kept; the remaining slots m..k-1 are empty ([top]). *)
Theorem C14_knn_predict_neighbours :
  forall (top : Z) (k n : nat) (dist : nat -> Z) (ns0 : list nat),
    k < length ns0 ->
    (forall j, j < n -> (dist j < top)%Z) ->
    forall ds ns, knn_scan Z.ltb top k n dist None ns0 = (ds, ns) ->
    let m := Nat.min k n in
    (forall l, l < m -> nth l ns 0 < n /\ nth l ds top = dist (nth l ns 0) /\ (nth l ds top < top)%Z) /\
    (forall l, m <= l -> l < k -> nth l ds top = top) /\
    NoDup (firstn m ns) /\
    (forall a b, a < b -> b < m ->
       (dist (nth a ns 0%nat) < dist (nth b ns 0%nat))%Z \/
       (dist (nth a ns 0) = dist (nth b ns 0) /\ nth a ns 0 < nth b ns 0)) /\
    (forall j, j < n -> ~ In j (firstn m ns) -> forall l, l < m ->
       (dist (nth l ns 0%nat) < dist j)%Z \/ (dist (nth l ns 0) = dist j /\ nth l ns 0 < j)).
Proof. exact knn_predict_neighbours. Qed.

(* The same scan as a function: the reported slots are the first k elements of the stable insertion sort of 0..n-1 *)
Theorem C14_knn_predict_neighbours_sorted :
  forall (top : Z) (k n : nat) (dist : nat -> Z) (ns0 : list nat),
    k < length ns0 ->
    (forall j, j < n -> (dist j < top)%Z) ->
    forall ds ns, knn_scan Z.ltb top k n dist None ns0 = (ds, ns) ->
    firstn (Nat.min k n) ns = firstn k (isort dist (seq 0 n)) /\
    firstn (Nat.min k n) ds = map dist (firstn k (isort dist (seq 0 n))).
Proof. exact knn_predict_neighbours_isort. Qed.

(* Arg-max: the label source is the neighbour in the FIRST non-empty slot l < k maximising
   min (cost neighbour) (density x) over the non-empty slots; nothing is picked iff all k slots are empty. *)
Theorem C14_knn_pick_argmax :
  forall (zero top bot : Z) (g : @knn Z) (k : nat) (densx : Z) (ds : list Z) (ns : list nat),
    let val l := Z.min (nth (nth l ns 0) (k_cost g) zero) densx in
    (forall l, l < k -> nth l ds top <> top -> (bot < val l)%Z) ->
    ((forall l, l < k -> nth l ds top = top) /\ knn_pick Z.ltb zero top bot g k densx ds ns = None) \/
    (exists l, l < k /\ nth l ds top <> top /\
       knn_pick Z.ltb zero top bot g k densx ds ns = Some (nth l ns 0) /\
       (forall l', l' < k -> nth l' ds top <> top -> (val l' <= val l)%Z) /\
       (forall l', l' < l -> nth l' ds top <> top -> (val l' < val l)%Z)).
Proof. exact knn_pick_argmax. Qed.

Theorem C14_knn_pick_none_iff :
  forall (zero top bot : Z) (g : @knn Z) (k : nat) (densx : Z) (ds : list Z) (ns : list nat),
    (forall l, l < k -> nth l ds top <> top -> (bot < Z.min (nth (nth l ns 0%nat) (k_cost g) zero) densx)%Z) ->
    (knn_pick Z.ltb zero top bot g k densx ds ns = None <-> forall l, l < k -> nth l ds top = top).
Proof. exact knn_pick_none_iff. Qed.

Print Assumptions C14_knn_predict_neighbours.
Print Assumptions C14_knn_predict_neighbours_sorted.
Print Assumptions C14_knn_pick_argmax.
