From Coq Require Import List ZArith.
From OPF Require Import Model.Knn Proofs.Select.
Import ListNotations.

(* KNNSupervisedOPF._learn: the kept k (1-based position in the list of validation accuracies of k = 1..max_k)
   is the smallest one attaining the maximum accuracy. *)
Theorem C16_knn_select_argmax :
  forall (zero : Z) (accs : list Z),
    accs <> [] -> (forall a, In a accs -> (zero <= a)%Z) ->
    exists i, knn_select Z.ltb zero accs = Some (S i) /\ i < length accs /\
      (forall j, j < length accs -> (nth j accs zero <= nth i accs zero)%Z) /\
      (forall j, j < i -> (nth j accs zero < nth i accs zero)%Z).
Proof. exact knn_select_argmax. Qed.

(* no candidate beats the initial max_acc = 0: the initial best_k = 1 is kept *)
Theorem C16_knn_select_all_zero :
  forall (zero : Z) (accs : list Z),
    (forall a, In a accs -> (a <= zero)%Z) -> knn_select Z.ltb zero accs = Some 1.
Proof. exact knn_select_all_zero. Qed.

(* UnsupervisedOPF._best_minimum_cut: [e] candidates are evaluated (up to and including the first cut that is
   exactly zero, all of them if there is none); the kept k = min_k + i is the smallest one attaining the minimum
   cut among the evaluated candidates. *)
Theorem C16_cut_select_argmin :
  forall (zero top : Z) (min_k : nat) (cuts : list Z),
    cuts <> [] -> (forall c, In c cuts -> (zero <= c < top)%Z) ->
    exists e i, cut_select Z.ltb zero top min_k cuts = (Some (min_k + i), e) /\
      1 <= e <= length cuts /\
      (forall j, S j < e -> nth j cuts zero <> zero) /\
      (e = length cuts \/ nth (e - 1) cuts zero = zero) /\
      i < e /\
      (forall j, j < e -> (nth i cuts zero <= nth j cuts zero)%Z) /\
      (forall j, j < i -> (nth i cuts zero < nth j cuts zero)%Z).
Proof. exact cut_select_argmin. Qed.

(* the same with the number of evaluated candidates given by the recursive function [cut_evaluated] *)
Theorem C16_cut_select_argmin_fun :
  forall (zero top : Z) (min_k : nat) (cuts : list Z),
    cuts <> [] -> (forall c, In c cuts -> (zero <= c < top)%Z) ->
    let e := cut_evaluated zero cuts in
    exists i, cut_select Z.ltb zero top min_k cuts = (Some (min_k + i), e) /\ i < e /\
      (forall j, j < e -> (nth i cuts zero <= nth j cuts zero)%Z) /\
      (forall j, j < i -> (nth i cuts zero < nth j cuts zero)%Z).
Proof. exact cut_select_argmin_fun. Qed.

Theorem C16_knn_select_ex_tie : knn_select Z.ltb 0%Z [3; 7; 5; 7; 2]%Z = Some 2.
Proof. exact knn_select_ex_tie. Qed.

Theorem C16_knn_select_ex_all_zero : knn_select Z.ltb 0%Z [0; 0; 0]%Z = Some 1.
Proof. exact knn_select_ex_all_zero. Qed.

Theorem C16_cut_select_ex_tie : cut_select Z.ltb 0%Z 1000%Z 3 [9; 4; 6; 4; 8]%Z = (Some 4, 5).
Proof. exact cut_select_ex_tie. Qed.

Theorem C16_cut_select_ex_early_zero : cut_select Z.ltb 0%Z 1000%Z 2 [5; 3; 0; 0; 1]%Z = (Some 4, 3).
Proof. exact cut_select_ex_early_zero. Qed.

Print Assumptions C16_knn_select_argmax.
Print Assumptions C16_cut_select_argmin.
