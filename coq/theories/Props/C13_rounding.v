(* C13 end to end at the FLOAT level: the final training stage of KNNSupervisedOPF.fit / UnsupervisedOPF.fit,

       destroy_arcs; create_arcs(best_k); calculate_pdf(best_k); _clustering(...)

   as the single terms [knn_sup_final] / [unsup_final] of Model/KnnFit.v instantiated at [RndOps rnd]
   (Base/NumOpsRnd.v: reals, [rnd] after every `+ - * /`, exact comparisons), for every [rnd] with
       rounding rnd, rnd 1 = 1, rnd_idem rnd, rnd x <= 2 x on x >= 0, and
       forall t in [1, 7994], rnd t = t -> rnd (t - 1) < t
   (the last one follows from "the integers 0..7993 are representable": [C13_rnd_gap_of_integers]; it is what
   makes the initial cost strictly smaller than the density, the hypothesis [cost0 i < dens i] of the order-only
   clustering theorems of Props/C13_anyorder.v, which are used here at W := R, ltb := Rltb).

   Compared with the exact statement (Props/C13_pipeline.v):
   - VERBATIM: labels, conquest order, links, unique roots, cluster identifiers, KNN-supervised keeps every
     training label; cost q = Rmin (cost p) (dens q) (min is exact); cost r = dens r at roots; cost q <= cost r;
     dens q - 1 < cost q and dens q < dens r + 1 (monotone rounding cannot invert a comparison between
     representable values; every final cost is a density of the root path, hence representable).
   - WEAKER: 1 <= dens q <= 7994 instead of <= 1000; the affine formula is the rounded expression tree, with weak
     monotonicity in the computed unmapped values; min/max attained needs the computed values below FLOAT_MAX. *)
From Coq Require Import Reals List Permutation ZArith.
From OPF Require Import Base.Lists Base.NumOps Base.NumOpsRnd Base.TotalOrder Model.Heap Model.Knn Model.Pdf
  Model.KnnFit Model.MetricRnd Spec.Paths Spec.Trees Proofs.PdfBase Proofs.KnnPipelineExample
  Proofs.PdfRndBase Proofs.PdfRndExample Proofs.PdfRndPipeline Proofs.PdfRndPipelineExample.
Import ListNotations.
Local Open Scope R_scope.

Theorem C13_rnd_gap_of_integers (rnd : R -> R) (M : Z) :
  rounding rnd -> (forall z, (0 <= z <= M)%Z -> rnd (IZR z) = IZR z) ->
  forall t, 1 <= t <= IZR M + 1 -> rnd t = t -> rnd (t - 1) < t.
Proof. exact (gap_of_integers rnd M). Qed.

(* create_arcs only compares: the float-level run builds the same arcs as the exact run *)
Theorem C13_rnd_same_arcs (rnd : R -> R) (fmax thr one : R) (k : nat) (labels : list nat) (gdens0 : R)
    (d e : nat -> nat -> R) (g2 : @knn R) (c mn mx : R) :
  arcs_and_pdf (RndOps rnd) fmax thr one 1000 k d e (fit_start (RndOps rnd) labels gdens0) = (g2, (c, mn, mx)) ->
  exists g2R cR mnR mxR dc,
    arcs_and_pdf ROps fmax thr one 1000 k d e (fit_start ROps labels gdens0) = (g2R, (cR, mnR, mxR)) /\
    calculate_pdf (RndOps rnd) fmax 1000 (length labels) k (k_gdens g2R)
                  (fun i l => e i (nth l (nth i (k_adj g2R) []) 0%nat)) = (c, mn, mx, dc) /\
    k_label g2 = k_label g2R /\ k_adj g2 = k_adj g2R /\ k_nplat g2 = k_nplat g2R /\
    k_pred g2 = k_pred g2R /\ k_root g2 = k_root g2R /\ k_plabel g2 = k_plabel g2R /\
    k_clabel g2 = k_clabel g2R /\ k_order g2 = k_order g2R /\
    k_dens g2 = map fst dc /\ k_cost g2 = map snd dc.
Proof. exact (arcs_and_pdf_rnd_shape rnd fmax thr one k labels gdens0 d e g2 c mn mx). Qed.

Theorem C13_rnd_knn_sup_final_forest :
  forall rnd : R -> R,
    rounding rnd -> rnd 1 = 1 -> rnd_idem rnd ->
    (forall x, 0 <= x -> rnd x <= 2 * x) ->
    (forall t, 1 <= t <= 7994 -> rnd t = t -> rnd (t - 1) < t) ->
  forall (fmax thr one gdens0 : R) (k : nat) (labels : list nat) (d e : nat -> nat -> R),
    let n := length labels in
    0 < fmax ->
    (forall i j, (i < n)%nat -> (j < n)%nat -> i <> j -> 0 <= d i j < fmax) ->
    forall (g' : @knn R) (c mn mx : R),
    knn_sup_final (RndOps rnd) fmax thr one 1000 k labels gdens0 d e = (g', (c, mn, mx)) ->
    let pred := fun q => nth q (k_pred g') None in
    let root := fun q => nth q (k_root g') 0%nat in
    let cost := fun q => nth q (k_cost g') 0 in
    let dens := fun q => nth q (k_dens g') 0 in
    let plabel := fun q => nth q (k_plabel g') 0%nat in
    let label := fun q => nth q labels 0%nat in
    let adj := fun q => nth q (k_adj g') [] in
    k_label g' = labels /\
    Permutation (k_order g') (seq 0 n) /\
    (forall q, (q < n)%nat -> 1 <= dens q <= 7994) /\
    (exists adj0 : list (list nat),
       (length adj0 = n /\
        (forall i, (i < n)%nat ->
           let a := nth i adj0 [] in
           length a = Nat.min k (n - 1) /\ NoDup a /\ ~ In i a /\ (forall j, In j a -> (j < n)%nat) /\
           (forall x y, (x <= y)%nat -> (y < length a)%nat -> d i (nth x a 0%nat) <= d i (nth y a 0%nat)) /\
           (forall j, (j < n)%nat -> j <> i -> ~ In j a -> forall x, In x a -> d i x <= d i j)) /\
        let p := fun i => pdf_value (RndOps rnd) k (fun l => e i (nth l (nth i adj0 []) 0%nat)) in
        (forall i, (i < n)%nat -> mn <= p i <= mx) /\
        (mn = mx -> forall i, (i < n)%nat -> dens i = 1000) /\
        (mn <> mx -> forall i, (i < n)%nat ->
           dens i = rnd (rnd (rnd (999 * rnd (p i - mn)) / rnd (mx - mn)) + 1)) /\
        (forall i j, (i < n)%nat -> (j < n)%nat ->
           (p i <= p j -> dens i <= dens j) /\ (dens i < dens j -> p i < p j)) /\
        (mn <> mx -> forall i, (i < n)%nat -> p i = mn -> dens i = 1) /\
        ((1 <= n)%nat -> 0 <= fmax ->
         (forall i j, (i < n)%nat -> (j < n)%nat -> 0 <= e i j) ->
         (forall i, (i < n)%nat -> p i <= fmax) ->
         (exists i, (i < n)%nat /\ mn = p i) /\ (exists i, (i < n)%nat /\ mx = p i) /\ 0 <= mn /\ mn <= mx)) /\
       k_adj g' = plateau_sup Rltb 0 n (k_dens g') adj0) /\
    (forall q, (q < n)%nat ->
       match pred q with
       | None => root q = q /\ cost q = dens q /\ plabel q = label q
       | Some p => (p < n)%nat /\ before (k_order g') p q /\ In q (adj p) /\
                   root q = root p /\ cost q = Rmin (cost p) (dens q) /\
                   dens q - 1 < cost q /\ plabel q = plabel p /\ label p = label q
       end) /\
    (forall q, (q < n)%nat ->
       exists r j, (j < n)%nat /\ (r < n)%nat /\ reaches pred q r j /\ pred r = None /\
         (forall r', root_of pred q r' -> r' = r) /\
         root q = r /\ dens q - 1 < cost q /\ cost q <= cost r /\ cost r = dens r /\
         dens q < dens r + 1 /\
         plabel q = label r /\ label q = label r) /\
    (forall q, (q < n)%nat -> plabel q = label q).
Proof. exact knn_sup_final_forest_rnd. Qed.

Theorem C13_rnd_unsup_final_forest :
  forall rnd : R -> R,
    rounding rnd -> rnd 1 = 1 -> rnd_idem rnd ->
    (forall x, 0 <= x -> rnd x <= 2 * x) ->
    (forall t, 1 <= t <= 7994 -> rnd t = t -> rnd (t - 1) < t) ->
  forall (fmax thr one gdens0 : R) (k : nat) (labels : list nat) (d e : nat -> nat -> R),
    let n := length labels in
    (k <= n - 1)%nat ->
    0 < fmax ->
    (forall i j, (i < n)%nat -> (j < n)%nat -> i <> j -> 0 <= d i j < fmax) ->
    forall (g' : @knn R) (c mn mx : R),
    unsup_final (RndOps rnd) fmax thr one 1000 k labels gdens0 d e = (g', (c, mn, mx)) ->
    let pred := fun q => nth q (k_pred g') None in
    let root := fun q => nth q (k_root g') 0%nat in
    let cost := fun q => nth q (k_cost g') 0 in
    let dens := fun q => nth q (k_dens g') 0 in
    let clabel := fun q => nth q (k_clabel g') 0%nat in
    let adj := fun q => nth q (k_adj g') [] in
    let nplat := fun q => nth q (k_nplat g') 0%nat in
    let isroot := fun q => match pred q with None => true | Some _ => false end in
    k_label g' = labels /\
    Permutation (k_order g') (seq 0 n) /\
    (forall q, (q < n)%nat -> 1 <= dens q <= 7994) /\
    (exists adj0 : list (list nat),
       (length adj0 = n /\
        (forall i, (i < n)%nat ->
           let a := nth i adj0 [] in
           length a = Nat.min k (n - 1) /\ NoDup a /\ ~ In i a /\ (forall j, In j a -> (j < n)%nat) /\
           (forall x y, (x <= y)%nat -> (y < length a)%nat -> d i (nth x a 0%nat) <= d i (nth y a 0%nat)) /\
           (forall j, (j < n)%nat -> j <> i -> ~ In j a -> forall x, In x a -> d i x <= d i j)) /\
        let p := fun i => pdf_value (RndOps rnd) k (fun l => e i (nth l (nth i adj0 []) 0%nat)) in
        (forall i, (i < n)%nat -> mn <= p i <= mx) /\
        (mn = mx -> forall i, (i < n)%nat -> dens i = 1000) /\
        (mn <> mx -> forall i, (i < n)%nat ->
           dens i = rnd (rnd (rnd (999 * rnd (p i - mn)) / rnd (mx - mn)) + 1)) /\
        (forall i j, (i < n)%nat -> (j < n)%nat ->
           (p i <= p j -> dens i <= dens j) /\ (dens i < dens j -> p i < p j)) /\
        (mn <> mx -> forall i, (i < n)%nat -> p i = mn -> dens i = 1) /\
        ((1 <= n)%nat -> 0 <= fmax ->
         (forall i j, (i < n)%nat -> (j < n)%nat -> 0 <= e i j) ->
         (forall i, (i < n)%nat -> p i <= fmax) ->
         (exists i, (i < n)%nat /\ mn = p i) /\ (exists i, (i < n)%nat /\ mx = p i) /\ 0 <= mn /\ mn <= mx)) /\
       (forall i, (i < n)%nat -> length (nth i adj0 []) = k) /\
       (k_adj g', k_nplat g') = plateau_unsup Rltb 0 k n (k_dens g') adj0 (repeat 0%nat n)) /\
    (forall q, (q < n)%nat ->
       match pred q with
       | None => root q = q /\ cost q = dens q
       | Some p => (p < n)%nat /\ before (k_order g') p q /\ In q (firstn (nplat p + k) (adj p)) /\
                   root q = root p /\ cost q = Rmin (cost p) (dens q) /\
                   dens q - 1 < cost q /\ clabel q = clabel p
       end) /\
    (forall q, (q < n)%nat ->
       exists r j, (j < n)%nat /\ (r < n)%nat /\ reaches pred q r j /\ pred r = None /\
         (forall r', root_of pred q r' -> r' = r) /\
         root q = r /\ dens q - 1 < cost q /\ cost q <= cost r /\ cost r = dens r /\
         dens q < dens r + 1 /\
         clabel q = clabel r) /\
    k_nclusters g' = length (filter isroot (seq 0 n)) /\
    length (filter isroot (k_order g')) = k_nclusters g' /\
    (forall i, (i < k_nclusters g')%nat -> clabel (nth i (filter isroot (k_order g')) 0%nat) = i) /\
    (forall r, (r < n)%nat -> pred r = None -> (clabel r < k_nclusters g')%nat) /\
    (forall r r', (r < n)%nat -> (r' < n)%nat -> pred r = None -> pred r' = None ->
       clabel r = clabel r' -> r = r') /\
    (forall i, (i < k_nclusters g')%nat -> exists r, (r < n)%nat /\ pred r = None /\ clabel r = i) /\
    (forall q, (q < n)%nat -> (clabel q < k_nclusters g')%nat).
Proof. exact unsup_final_forest_rnd. Qed.

(* ---------- non-vacuity: the data of Props/C13_pipeline.v's example under the plateau rounding rH ---------- *)

Theorem C13_rnd_example_rounding :
  (rounding rH /\ rH 1 = 1 /\ rnd_idem rH /\ (forall x, 0 <= x -> rH x <= 2 * x) /\
   (forall t, 1 <= t <= 7994 -> rH t = t -> rH (t - 1) < t)) /\
  (rounding (fun t : R => t) /\ (fun t : R => t) 1 = 1 /\ rnd_idem (fun t => t) /\
   (forall x, 0 <= x -> (fun t : R => t) x <= 2 * x) /\
   (forall t, 1 <= t <= 7994 -> (fun t : R => t) t = t -> (fun t : R => t) (t - 1) < t)).
Proof. exact (conj rH_pipeline_hyps id_pipeline_hyps). Qed.

Theorem C13_rnd_example_sup :
  exists (g' : @knn R) (c mn mx : R),
    knn_sup_final (RndOps rH) 10 (1/100000) 1 1000 1 exr_labels 0 exr_d exr_e = (g', (c, mn, mx)) /\
    Permutation (k_order g') [0; 1; 2]%nat /\
    (forall q, (q < 3)%nat -> nth q (k_plabel g') 0%nat = nth q exr_labels 0%nat) /\
    (forall q, (q < 3)%nat -> 1 <= nth q (k_dens g') 0 <= 7994) /\
    (forall q, (q < 3)%nat ->
       exists r, (r < 3)%nat /\ nth r (k_pred g') None = None /\ nth q (k_root g') 0%nat = r /\
         nth q (k_dens g') 0 - 1 < nth q (k_cost g') 0 /\
         nth q (k_dens g') 0 < nth r (k_dens g') 0 + 1 /\
         nth q exr_labels 0%nat = nth r exr_labels 0%nat) /\
    0 <= mn /\ mn <= mx.
Proof. exact exr_sup_rnd. Qed.

Theorem C13_rnd_example_unsup :
  exists (g' : @knn R) (c mn mx : R),
    unsup_final (RndOps rH) 10 (1/100000) 1 1000 1 exr_labels 0 exr_d exr_e = (g', (c, mn, mx)) /\
    Permutation (k_order g') [0; 1; 2]%nat /\
    (1 <= k_nclusters g' <= 3)%nat /\
    (forall q, (q < 3)%nat -> (nth q (k_clabel g') 0 < k_nclusters g')%nat) /\
    (forall q, (q < 3)%nat ->
       exists r, (r < 3)%nat /\ nth r (k_pred g') None = None /\ nth q (k_root g') 0%nat = r /\
         nth q (k_dens g') 0 - 1 < nth q (k_cost g') 0 /\
         nth q (k_dens g') 0 < nth r (k_dens g') 0 + 1 /\
         nth q (k_clabel g') 0%nat = nth r (k_clabel g') 0%nat).
Proof. exact exr_unsup_rnd. Qed.
