From Coq Require Import ZArith List Permutation.
From OPF Require Import Base.Lists Model.Sup Model.Learn Spec.Paths.
From OPF Require Import Proofs.Predict Proofs.PredictRel Proofs.Learn.
Import ListNotations.

(* C17 - learning conserves samples and keeps the best model; relevance marking is exact;
   pruning only discards. *)

(* Supervised learning (Model/Learn.v: learn) only exchanges samples between the training and
   the validation set: whatever accuracies, error positions, prototype flags, stop decisions
   and random draws the iterations see, the (row, label) pairs over both sets afterwards are a
   permutation of the initial ones and the four arrays keep their lengths. *)
Theorem C17_learn_conserves :
  forall (R : Type) (its : list iter_in) (n_iterations : nat) (draws : list nat) (st : lstate R),
    length (l_Xt st) = length (l_Yt st) -> length (l_Xv st) = length (l_Yv st) ->
    let st' := r_state (learn its n_iterations draws st) in
    Permutation (combine (l_Xt st' ++ l_Xv st') (l_Yt st' ++ l_Yv st'))
                (combine (l_Xt st ++ l_Xv st) (l_Yt st ++ l_Yv st)) /\
    length (l_Xt st') = length (l_Xt st) /\ length (l_Yt st') = length (l_Yt st) /\
    length (l_Xv st') = length (l_Xv st) /\ length (l_Yv st') = length (l_Yv st).
Proof. exact (@learn_conserves). Qed.

(* The classifier left in the object is the snapshot of iteration [r_best]: the smallest
   iteration index whose validation accuracy is maximal among the [r_iters] iterations run. *)
Theorem C17_learn_keeps_best :
  forall (R : Type) (its : list iter_in) (n_iterations : nat) (draws : list nat) (st : lstate R),
    its <> [] ->
    let res := learn its n_iterations draws st in
    let acc i := nth i (map it_acc its) 0%Z in
    (1 <= r_iters res <= length its)%nat /\
    (r_best res < r_iters res)%nat /\
    (forall i, (i < r_iters res)%nat -> (acc i <= acc (r_best res))%Z) /\
    (forall i, (i < r_best res)%nat -> (acc i < acc (r_best res))%Z).
Proof. exact (@learn_keeps_best). Qed.

(* ... and that snapshot was fitted on the training set exactly as it stood when iteration
   [r_best] started ([state_at], Proofs/Learn.v, replays the exchanges of the earlier iterations). *)
Theorem C17_learn_snapshot :
  forall (R : Type) (its : list iter_in) (n_iterations : nat) (draws : list nat) (st : lstate R),
    let res := learn its n_iterations draws st in
    let sb := state_at its (r_best res) draws st in
    r_snap res = (l_Xt sb, l_Yt sb).
Proof. exact (@learn_snapshot). Qed.

(* After a prediction pass over [ds] on a model whose predecessor map is a forest (every node
   reaches a root in fewer than n steps: C01) and whose flags were all clear, training sample t
   is flagged relevant iff it lies on the predecessor path from the conqueror of some predicted
   sample to its root; the fuel [S n] of the model's mark_nodes is enough. *)
Theorem C17_relevant_exact :
  forall (W : Type) (ltb : W -> W -> bool) (zero : W) (nd : @nodes W) (ds : list (nat -> W)),
    let n := length (n_cost nd) in
    let pred q := nth q (n_pred nd) None in
    (1 <= n)%nat ->
    length (n_pred nd) = n ->
    n_relevant nd = repeat false n ->
    Permutation (n_order nd) (seq 0%nat n) ->
    (forall q p, (q < n)%nat -> pred q = Some p -> (p < n)%nat) ->
    (forall q, (q < n)%nat -> exists r k, reaches pred q r k /\ pred r = None /\ (k < n)%nat) ->
    let nd' := fst (predict_batch ltb zero nd ds) in
    forall t,
      nth t (n_relevant nd') false = true <->
      exists d, In d ds /\ exists c, snd (predict_one ltb zero nd d) = Some c /\
                                     exists k, reaches pred c t k.
Proof. exact (@relevant_exact). Qed.

(* the same for positions inside the training set, from the forest premise alone *)
Theorem C17_relevant_exact_in_range :
  forall (W : Type) (ltb : W -> W -> bool) (zero : W) (nd : @nodes W) (ds : list (nat -> W)),
    let n := length (n_cost nd) in
    let pred q := nth q (n_pred nd) None in
    length (n_pred nd) = n ->
    n_relevant nd = repeat false n ->
    (forall q, (q < n)%nat -> exists r k, reaches pred q r k /\ pred r = None /\ (k < n)%nat) ->
    let nd' := fst (predict_batch ltb zero nd ds) in
    length (n_relevant nd') = n /\
    forall t, (t < n)%nat ->
      (nth t (n_relevant nd') false = true <->
       exists d, In d ds /\ exists c, snd (predict_one ltb zero nd d) = Some c /\
                                      exists k, reaches pred c t k).
Proof. exact (@relevant_exact_in_range). Qed.

(* with W := Z and the conquest order sorted by cost (C01), the conqueror of C17_relevant_exact
   is the first minimiser of max(cost, d) in conquest order (C03_predict_is_argmin) *)
Theorem C17_conqueror_is_winner :
  forall (zero : Z) (nd : @nodes Z) (d : nat -> Z),
    let n := length (n_cost nd) in
    let cost q := nth q (n_cost nd) zero in
    let val q := Z.max (cost q) (d q) in
    (1 <= n)%nat ->
    Permutation (n_order nd) (seq 0%nat n) ->
    (forall i j, (i < j)%nat -> (j < n)%nat ->
       (cost (nth i (n_order nd) 0%nat) <= cost (nth j (n_order nd) 0%nat))%Z) ->
    exists t, (t < n)%nat /\
      fst (predict_one Z.ltb zero nd d) = nth t (n_plabel nd) 0%nat /\
      snd (predict_one Z.ltb zero nd d) = Some t /\
      forall s, (s < n)%nat -> (val t <= val s)%Z.
Proof. exact predict_label_is_argmin. Qed.

(* Pruning (Model/Learn.v: prune, rounds of "keep the rows flagged relevant") only discards:
   whatever flags the rounds see, the final training set - rows paired with labels - is a
   sublist of the original pairing, hence a sub-multiset (the discarded pairs complete it to a
   permutation); every surviving row keeps its own label; sizes do not grow. *)
Theorem C17_prune_sublist :
  forall (R : Type) (flagss : list (list bool)) (Xt : list R) (Yt : list nat),
    let X' := fst (prune flagss Xt Yt) in
    let Y' := snd (prune flagss Xt Yt) in
    sublist (combine X' Y') (combine Xt Yt) /\
    (exists discarded, Permutation (combine X' Y' ++ discarded) (combine Xt Yt)) /\
    sublist X' Xt /\ sublist Y' Yt /\
    (length X' <= length Xt)%nat /\ (length Y' <= length Yt)%nat /\
    (length Xt = length Yt -> length X' = length Y').
Proof. exact (@prune_sublist). Qed.
