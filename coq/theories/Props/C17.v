From OPF Require Import Model.Sup.
