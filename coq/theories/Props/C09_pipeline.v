(* C09, KNN part, beyond W := Z:
   (1) for an ARBITRARY weight type with a strict total order (Base/TotalOrder.v): the batch
       prediction with its threaded scratch array is the pointwise map of the fresh-array single
       prediction, and position-free (statements of Props/C09_knn.v with  a < b  written
       ltb a b = true; proved over (W, ltb) from the lifted scan specification
       C12_knn_scan_spec_anyorder, Proofs/KnnPredictPipelineBatch.v);
   (2) over the REAL numbers on the graphs fitted by [knn_sup_final] / [unsup_final]
       (Props/C13_pipeline.v), with the actual query density of the code ([query_densx],
       Model/KnnPredict.v: it reads the distance array only, so the locality premise of (1) holds
       by definition): a whole predict call [knn_query_batch] is the map of the single-query
       [knn_query] characterised by Props/C14_pipeline.v.  Hypotheses about the data only. *)
From Coq Require Import Reals List Arith.
From OPF Require Import Base.Lists Base.NumOps Base.TotalOrder Model.Heap Model.Knn Model.Pdf Model.KnnFit
  Model.KnnPredict Proofs.KnnPipeline Proofs.Lift2Predict Proofs.KnnPredictPipelineBatch
  Proofs.KnnPredictPipelineMain.
Import ListNotations.

(* ---------- (1) any strict total order ---------- *)

Theorem C09_knn_predict_pointwise_anyorder :
  forall (W : Type) (ltb : W -> W -> bool),
    strict_total_order ltb ->
    forall (zero top bot : W) (g : @knn W) (k n : nat) (densx_of : list W -> list nat -> W)
           (qs : list (nat -> W)),
    (forall dist, In dist qs -> forall j, j < n -> ltb (dist j) top = true) ->
    (forall ds ns ns', length ds = S k -> length ns = S k -> length ns' = S k ->
       (forall l, l < k -> nth l ds top <> top -> nth l ns 0 = nth l ns' 0) ->
       densx_of ds ns = densx_of ds ns') ->
    knn_predict_batch ltb zero top bot g k n densx_of qs
    = map (knn_predict_one ltb zero top bot g k n densx_of) qs.
Proof. exact (@knn_batch_pointwise_anyorder). Qed.

Theorem C09_knn_predict_nth_anyorder :
  forall (W : Type) (ltb : W -> W -> bool),
    strict_total_order ltb ->
    forall (zero top bot : W) (g : @knn W) (k n : nat) (densx_of : list W -> list nat -> W)
           (qs : list (nat -> W)),
    (forall dist, In dist qs -> forall j, j < n -> ltb (dist j) top = true) ->
    (forall ds ns ns', length ds = S k -> length ns = S k -> length ns' = S k ->
       (forall l, l < k -> nth l ds top <> top -> nth l ns 0 = nth l ns' 0) ->
       densx_of ds ns = densx_of ds ns') ->
    length (knn_predict_batch ltb zero top bot g k n densx_of qs) = length qs /\
    forall i d0, i < length qs ->
      nth i (knn_predict_batch ltb zero top bot g k n densx_of qs) None
      = knn_predict_one ltb zero top bot g k n densx_of (nth i qs d0).
Proof. exact (@knn_batch_nth_anyorder). Qed.

Theorem C09_knn_position_free_anyorder :
  forall (W : Type) (ltb : W -> W -> bool),
    strict_total_order ltb ->
    forall (zero top bot : W) (g : @knn W) (k n : nat) (densx_of : list W -> list nat -> W)
           (qs qs' : list (nat -> W)) (i i' : nat) (d0 : nat -> W),
    (forall dist, In dist qs -> forall j, j < n -> ltb (dist j) top = true) ->
    (forall dist, In dist qs' -> forall j, j < n -> ltb (dist j) top = true) ->
    (forall ds ns ns', length ds = S k -> length ns = S k -> length ns' = S k ->
       (forall l, l < k -> nth l ds top <> top -> nth l ns 0 = nth l ns' 0) ->
       densx_of ds ns = densx_of ds ns') ->
    i < length qs -> i' < length qs' ->
    (forall j, j < n -> nth i qs d0 j = nth i' qs' d0 j) ->
    nth i (knn_predict_batch ltb zero top bot g k n densx_of qs) None
    = nth i' (knn_predict_batch ltb zero top bot g k n densx_of qs') None.
Proof. exact (@knn_position_free_anyorder). Qed.

(* non-vacuity at W := nat: the graph of C14_anyorder_example (costs 1,7,3,9,9,2), k = 3, query
   density 8, a batch with the same query at positions 0 and 2 *)
Theorem C09_anyorder_example_premises :
  strict_total_order Nat.ltb /\
  (forall dist, In dist [pkn_dist; pkn_dist2; pkn_dist] -> forall j, j < 6 -> Nat.ltb (dist j) 1000 = true).
Proof. exact pkn_batch_premises. Qed.

Theorem C09_anyorder_example_result :
  knn_predict_batch Nat.ltb 0 1000 0 pkn_g 3 6 (fun _ _ => 8) [pkn_dist; pkn_dist2; pkn_dist]
  = [Some 4; Some 1; Some 4] /\
  map (knn_predict_one Nat.ltb 0 1000 0 pkn_g 3 6 (fun _ _ => 8)) [pkn_dist; pkn_dist2; pkn_dist]
  = [Some 4; Some 1; Some 4].
Proof. exact pkn_batch_result. Qed.

(* ---------- (2) over R, on the fitted graphs ---------- *)

Local Open Scope R_scope.

(* any graph: the query density of the code reads [ds] only *)
Theorem C09_pipeline_batch_pointwise :
  forall (fmax eps : R) (E : R -> R) (fit : @knn R * (R * R * R)) (k : nat) (qs : list (nat -> R)),
    (forall dq, In dq qs -> forall j, (j < length (k_label (fst fit)))%nat -> dq j < fmax) ->
    knn_query_batch ROps fmax eps 1000 E fit k qs = map (knn_query ROps fmax eps 1000 E fit k) qs.
Proof. exact knn_query_batch_pointwise. Qed.

Theorem C09_pipeline_position_free :
  forall (fmax eps : R) (E : R -> R) (fit : @knn R * (R * R * R)) (k : nat)
         (qs qs' : list (nat -> R)) (i i' : nat) (d0 : nat -> R),
    (forall dq, In dq qs -> forall j, (j < length (k_label (fst fit)))%nat -> dq j < fmax) ->
    (forall dq, In dq qs' -> forall j, (j < length (k_label (fst fit)))%nat -> dq j < fmax) ->
    (i < length qs)%nat -> (i' < length qs')%nat ->
    (forall j, (j < length (k_label (fst fit)))%nat -> nth i qs d0 j = nth i' qs' d0 j) ->
    nth i (knn_query_batch ROps fmax eps 1000 E fit k qs) None
    = nth i' (knn_query_batch ROps fmax eps 1000 E fit k qs') None /\
    nth i (knn_query_batch ROps fmax eps 1000 E fit k qs) None
    = knn_query ROps fmax eps 1000 E fit k (nth i qs d0).
Proof. exact knn_query_position_free. Qed.

(* KNNSupervisedOPF: fit, then predict a batch *)
Theorem C09_knn_sup_fitted_batch :
  forall (fmax thr one gdens0 eps : R) (k : nat) (labels : list nat) (d e : nat -> nat -> R) (E : R -> R),
    let n := length labels in
    1 <= fmax ->
    (forall i j, (i < n)%nat -> (j < n)%nat -> i <> j -> 0 <= d i j < fmax) ->
    forall (g' : @knn R) (c mn mx : R) (qs : list (nat -> R)),
    knn_sup_final ROps fmax thr one 1000 k labels gdens0 d e = (g', (c, mn, mx)) ->
    (forall dq, In dq qs -> forall j, (j < n)%nat -> dq j < fmax) ->
    knn_query_batch ROps fmax eps 1000 E (g', (c, mn, mx)) k qs
    = map (knn_query ROps fmax eps 1000 E (g', (c, mn, mx)) k) qs.
Proof. exact knn_sup_batch_pointwise. Qed.

(* UnsupervisedOPF: fit, (propagate_labels,) then predict a batch *)
Theorem C09_unsup_fitted_batch :
  forall (fmax thr one gdens0 eps : R) (k : nat) (labels : list nat) (d e : nat -> nat -> R) (E : R -> R),
    let n := length labels in
    1 <= fmax ->
    (forall i j, (i < n)%nat -> (j < n)%nat -> i <> j -> 0 <= d i j < fmax) ->
    forall (g' : @knn R) (c mn mx : R) (qs : list (nat -> R)),
    (k <= n - 1)%nat ->
    unsup_final ROps fmax thr one 1000 k labels gdens0 d e = (g', (c, mn, mx)) ->
    (forall dq, In dq qs -> forall j, (j < n)%nat -> dq j < fmax) ->
    knn_query_batch ROps fmax eps 1000 E (with_propagated_labels (g', (c, mn, mx))) k qs
    = map (knn_query ROps fmax eps 1000 E (g', (c, mn, mx)) k) qs /\
    knn_query_batch ROps fmax eps 1000 E (g', (c, mn, mx)) k qs
    = map (knn_query ROps fmax eps 1000 E (g', (c, mn, mx)) k) qs.
Proof. exact unsup_batch_pointwise. Qed.
