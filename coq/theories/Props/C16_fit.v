(* C16 for the WHOLE training routines.

   Model/KnnLearn.v gives KNNSupervisedOPF.fit and UnsupervisedOPF.fit - k-search included - as single terms
   over Base/NumOps.v: [knn_sup_fit_core] (everything up to the final destroy_arcs) and [unsup_fit].  The harness
   runs the same terms at PrimFloat and compares them bit for bit with the real fit() (per-candidate criteria,
   best_k, final forest): harness/knnfull.py, stream "whole fit" of bin/check C16.  The theorems below are about
   the terms at [ROps] (real numbers).  Nothing is assumed about recorded criteria: the validation accuracies /
   normalised cuts are those the model computes from the distances ([d] training x training, [dq] validation x
   training) and the tables standing for exp(-d/constant) ([ep c], [eq c]: candidate number c; [efin]: final stage).

   KNN-supervised ([C16_knn_sup_fit_selects]): every candidate accuracy lies in [0,1]; the kept k is
   [Knn.knn_select] of the model-computed list, i.e. the SMALLEST k attaining the maximum accuracy; the graph
   returned equals [KnnFit.knn_sup_final] at that k (for any incoming density bound: create_arcs resets it) up
   to the removal order, which carries the candidates' removals as a prefix.

   Unsupervised ([C16_unsup_fit_selects]): candidates are evaluated from min_k on, up to and including the first
   whose cut is exactly 0 (all of them if there is none); each evaluated cut lies in [0, n]; the kept k is
   [Knn.cut_select] of the evaluated list, i.e. the smallest k attaining the minimum among the evaluated
   candidates; the graph returned equals [KnnFit.unsup_final] at that k up to the removal-order prefix.
   The state the search leaves behind (adjacency lists shifted by plateau insertions, accumulated n_plateaus,
   stale densities / costs / predecessors / cluster ids) does not matter: fit destroys and re-creates the arcs,
   and every stale field is overwritten before it is read ([C16_*_final_stage_ignores_search_state], closed).

   [C16_*_fit_forest]: the C13 / C04 conclusions of Props/C13_pipeline.v for the result of the whole fit. *)
From Coq Require Import Reals List Permutation ZArith.
From OPF Require Import Base.Lists Base.NumOps Model.Heap Model.Knn Model.Pdf Model.KnnFit Model.KnnLearn
  Spec.Paths Spec.Trees Proofs.KnnPipelineMain Proofs.KnnPipelineExample
  Proofs.KnnLearnFrame Proofs.KnnLearnStages Proofs.KnnLearnLoop Proofs.KnnLearnReal Proofs.KnnLearnAccuracy
  Proofs.KnnLearnMain Proofs.KnnLearnExample.
Import ListNotations.
Local Open Scope R_scope.

Theorem C16_knn_sup_fit_selects :
  forall (fmax thr one eps : R) (d : nat -> nat -> R) (dq : list (nat -> R)) (vlabels : list nat)
         (ep eq : nat -> nat -> nat -> R) (labels : list nat) (max_k : nat) (efin : nat -> nat -> R),
    let n := length labels in
    0 < fmax ->
    (forall i j, (i < n)%nat -> (j < n)%nat -> i <> j -> 0 <= d i j < fmax) ->
    length vlabels = length dq ->
    (1 <= max_k)%nat ->
    forall (accs : list R) (best : nat) (g : @knn R) (cmm : R * R * R),
    knn_sup_fit_core ROps fmax thr one eps 1000 d dq vlabels ep eq labels max_k efin = (accs, best, g, cmm) ->
    let acc := fun k => nth (k - 1) accs 0 in
    length accs = max_k /\
    knn_select Rltb 0 accs = Some best /\
    (1 <= best <= max_k)%nat /\
    (forall k, (1 <= k <= max_k)%nat -> 0 <= acc k <= 1) /\
    (forall k, (1 <= k <= max_k)%nat -> acc k <= acc best) /\
    (forall k, (1 <= k < best)%nat -> acc k < acc best) /\
    forall gdens0 : R, exists (pre : list nat) (g' : @knn R),
      knn_sup_final ROps fmax thr one 1000 best labels gdens0 d efin = (g', cmm) /\
      g = with_order g' (pre ++ k_order g').
Proof. exact knn_sup_fit_selects. Qed.

Theorem C16_unsup_fit_selects :
  forall (fmax thr one : R) (d : nat -> nat -> R) (ep : nat -> nat -> nat -> R) (labels : list nat)
         (min_k max_k : nat) (efin : nat -> nat -> R),
    let n := length labels in
    0 < fmax -> INR n < fmax ->
    (forall i j, (i < n)%nat -> (j < n)%nat -> i <> j -> 0 <= d i j < fmax) ->
    (1 <= min_k <= max_k)%nat -> (max_k <= n - 1)%nat ->
    exists (cuts : list R) (best : nat) (g : @knn R) (cmm : R * R * R),
      unsup_fit ROps fmax thr one 1000 d ep labels min_k max_k efin = Some (cuts, best, g, cmm) /\
      let e := length cuts in
      let cut := fun k => nth (k - min_k) cuts 0 in
      cut_select Rltb 0 fmax min_k cuts = (Some best, e) /\
      (1 <= e <= max_k - min_k + 1)%nat /\
      (forall k, (min_k <= k < min_k + e)%nat -> 0 <= cut k <= INR n) /\
      (forall k, (min_k <= k)%nat -> (S k < min_k + e)%nat -> cut k <> 0) /\
      (e = (max_k - min_k + 1)%nat \/ cut (min_k + e - 1)%nat = 0) /\
      (min_k <= best < min_k + e)%nat /\
      (forall k, (min_k <= k < min_k + e)%nat -> cut best <= cut k) /\
      (forall k, (min_k <= k < best)%nat -> cut best < cut k) /\
      forall gdens0 : R, exists (pre : list nat) (g' : @knn R),
        unsup_final ROps fmax thr one 1000 best labels gdens0 d efin = (g', cmm) /\
        g = with_order g' (pre ++ k_order g').
Proof. exact unsup_fit_selects. Qed.

(* ---------- C13 / C04 for the result of the whole fit ---------- *)

Theorem C16_knn_sup_fit_forest :
  forall (fmax thr one eps : R) (d : nat -> nat -> R) (dq : list (nat -> R)) (vlabels : list nat)
         (ep eq : nat -> nat -> nat -> R) (labels : list nat) (max_k : nat) (efin : nat -> nat -> R),
    let n := length labels in
    0 < fmax ->
    (forall i j, (i < n)%nat -> (j < n)%nat -> i <> j -> 0 <= d i j < fmax) ->
    length vlabels = length dq ->
    (1 <= max_k)%nat ->
    forall (accs : list R) (best : nat) (g : @knn R) (c mn mx : R),
    knn_sup_fit_core ROps fmax thr one eps 1000 d dq vlabels ep eq labels max_k efin = (accs, best, g, (c, mn, mx)) ->
    exists pre ord, k_order g = pre ++ ord /\
      let pred := fun q => nth q (k_pred g) None in
      let root := fun q => nth q (k_root g) 0%nat in
      let cost := fun q => nth q (k_cost g) 0 in
      let dens := fun q => nth q (k_dens g) 0 in
      let plabel := fun q => nth q (k_plabel g) 0%nat in
      let label := fun q => nth q labels 0%nat in
      let adj := fun q => nth q (k_adj g) [] in
      k_label g = labels /\
      Permutation ord (seq 0 n) /\
      (forall q, (q < n)%nat -> 1 <= dens q <= 1000) /\
      (exists adj0 : list (list nat),
         knn_graph fmax best n d efin dens mn mx adj0 /\
         k_adj g = plateau_sup Rltb 0 n (k_dens g) adj0) /\
      (forall q, (q < n)%nat ->
         match pred q with
         | None => root q = q /\ cost q = dens q /\ plabel q = label q
         | Some p => (p < n)%nat /\ before ord p q /\ In q (adj p) /\
                     root q = root p /\ cost q = Rmin (cost p) (dens q) /\
                     dens q - 1 < cost q /\ plabel q = plabel p /\ label p = label q
         end) /\
      (forall q, (q < n)%nat ->
         exists r j, (j < n)%nat /\ (r < n)%nat /\ reaches pred q r j /\ pred r = None /\
           (forall r', root_of pred q r' -> r' = r) /\
           root q = r /\ dens q - 1 < cost q /\ cost q <= cost r /\ cost r = dens r /\
           dens q < dens r + 1 /\
           plabel q = label r /\ label q = label r) /\
      (forall q, (q < n)%nat -> plabel q = label q).
Proof. exact knn_sup_fit_forest. Qed.

Theorem C16_unsup_fit_forest :
  forall (fmax thr one : R) (d : nat -> nat -> R) (ep : nat -> nat -> nat -> R) (labels : list nat)
         (min_k max_k : nat) (efin : nat -> nat -> R),
    let n := length labels in
    0 < fmax -> INR n < fmax ->
    (forall i j, (i < n)%nat -> (j < n)%nat -> i <> j -> 0 <= d i j < fmax) ->
    (1 <= min_k <= max_k)%nat -> (max_k <= n - 1)%nat ->
    exists (cuts : list R) (best : nat) (g : @knn R) (c mn mx : R) (pre ord : list nat),
      unsup_fit ROps fmax thr one 1000 d ep labels min_k max_k efin = Some (cuts, best, g, (c, mn, mx)) /\
      (min_k <= best <= max_k)%nat /\
      k_order g = pre ++ ord /\
      let pred := fun q => nth q (k_pred g) None in
      let root := fun q => nth q (k_root g) 0%nat in
      let cost := fun q => nth q (k_cost g) 0 in
      let dens := fun q => nth q (k_dens g) 0 in
      let clabel := fun q => nth q (k_clabel g) 0%nat in
      let adj := fun q => nth q (k_adj g) [] in
      let nplat := fun q => nth q (k_nplat g) 0%nat in
      let isroot := fun q => match pred q with None => true | Some _ => false end in
      k_label g = labels /\
      Permutation ord (seq 0 n) /\
      (forall q, (q < n)%nat -> 1 <= dens q <= 1000) /\
      (exists adj0 : list (list nat),
         knn_graph fmax best n d efin dens mn mx adj0 /\
         (forall i, (i < n)%nat -> length (nth i adj0 []) = best) /\
         (k_adj g, k_nplat g) = plateau_unsup Rltb 0 best n (k_dens g) adj0 (repeat 0%nat n)) /\
      (forall q, (q < n)%nat ->
         match pred q with
         | None => root q = q /\ cost q = dens q
         | Some p => (p < n)%nat /\ before ord p q /\ In q (firstn (nplat p + best) (adj p)) /\
                     root q = root p /\ cost q = Rmin (cost p) (dens q) /\
                     dens q - 1 < cost q /\ clabel q = clabel p
         end) /\
      (forall q, (q < n)%nat ->
         exists r j, (j < n)%nat /\ (r < n)%nat /\ reaches pred q r j /\ pred r = None /\
           (forall r', root_of pred q r' -> r' = r) /\
           root q = r /\ dens q - 1 < cost q /\ cost q <= cost r /\ cost r = dens r /\
           dens q < dens r + 1 /\
           clabel q = clabel r) /\
      k_nclusters g = length (filter isroot (seq 0 n)) /\
      length (filter isroot ord) = k_nclusters g /\
      (forall i, (i < k_nclusters g)%nat -> clabel (nth i (filter isroot ord) 0%nat) = i) /\
      (forall r, (r < n)%nat -> pred r = None -> (clabel r < k_nclusters g)%nat) /\
      (forall r r', (r < n)%nat -> (r' < n)%nat -> pred r = None -> pred r' = None ->
         clabel r = clabel r' -> r = r') /\
      (forall i, (i < k_nclusters g)%nat -> exists r, (r < n)%nat /\ pred r = None /\ clabel r = i) /\
      (forall q, (q < n)%nat -> (clabel q < k_nclusters g)%nat).
Proof. exact unsup_fit_forest. Qed.

(* ---------- the criteria as real numbers ---------- *)

(* opf_accuracy as the float code evaluates it (pairwise np.sum included), read over R, is in [0, 1] *)
Theorem C16_accuracy_F_bounds :
  forall labels preds : list nat,
    length labels = length preds -> 0 <= accuracy_F ROps labels preds <= 1.
Proof. exact accuracy_F_bounds. Qed.

Theorem C16_normalized_cut_bounds :
  forall (k : nat) (d : nat -> nat -> R) (g : @knn R),
    0 <= normalized_cut ROps k d g <= INR (k_nclusters g).
Proof. exact normalized_cut_bounds. Qed.

(* [knn_select] on an arbitrary list of reals (no sign hypothesis) *)
Theorem C16_knn_select_R :
  forall (accs : list R) (best : nat),
    knn_select Rltb 0 accs = Some best ->
    ((1 <= best <= length accs)%nat /\ 0 < nth (best - 1) accs 0 /\
     (forall k, (1 <= k <= length accs)%nat -> nth (k - 1) accs 0 <= nth (best - 1) accs 0) /\
     (forall k, (1 <= k < best)%nat -> nth (k - 1) accs 0 < nth (best - 1) accs 0)) \/
    (best = 1%nat /\ forall k, (1 <= k <= length accs)%nat -> nth (k - 1) accs 0 <= 0).
Proof. exact knn_select_R. Qed.

(* ---------- structure, any numeric carrier (closed under the global context) ---------- *)

(* the (max_acc, best_k) pair threaded by _learn is Knn.knn_select of the accuracies the loop produced, and the
   graph it leaves has the shape the final stage relies on *)
Theorem C16_knn_sup_learn_is_knn_select :
  forall (F : Type) (O : NumOps F) (fmax thr one eps : F) (maxd : Z) (d : nat -> nat -> F) (dq : list (nat -> F))
         (vlabels : list nat) (ep eq : nat -> nat -> nat -> F) (labels : list nat) (Pa : F -> Prop),
    (forall (k : nat) (g : @knn F), Pa (fst (sup_candidate O fmax thr one eps maxd d dq vlabels ep eq k g))) ->
    forall (max_k : nat) (g : @knn F) (accs : list F) (mx : F) (best : nat),
    knn_sup_learn O fmax thr one eps maxd d dq vlabels ep eq labels max_k = (g, accs, mx, best) ->
    sup_state labels g /\ length accs = max_k /\ (forall a, In a accs -> Pa a) /\
    knn_select (nltb O) (fzero O) accs = Some best /\ (best = 1%nat \/ (1 <= best <= max_k)%nat).
Proof. exact (@knn_sup_learn_spec). Qed.

(* the final stage started from the graph the search left = the final stage started from [fit_start]:
   same (constant, min, max); every field the same except the removal order (own prefix, same suffix [rem]);
   predicted labels agree on every node of [rem] *)
Theorem C16_knn_sup_final_stage_ignores_search_state :
  forall (F : Type) (O : NumOps F) (fmax thr one : F) (maxd : Z) (d : nat -> nat -> F) (labels : list nat)
         (g : @knn F) (k : nat) (efin : nat -> nat -> F) (gdens0 : F),
    sup_state labels g ->
    let r1 := arcs_and_pdf O fmax thr one maxd k d efin g in
    let r2 := arcs_and_pdf O fmax thr one maxd k d efin (fit_start O labels gdens0) in
    snd r1 = snd r2 /\
    k_nclusters (clustering_sup (nltb O) (fzero O) fmax (fbot O fmax) true (fst r1))
    = k_nclusters (clustering_sup (nltb O) (fzero O) fmax (fbot O fmax) true (fst r2)) /\
    length (k_plabel (clustering_sup (nltb O) (fzero O) fmax (fbot O fmax) true (fst r2))) = length labels /\
    exists rem, csim true (k_order g) [] rem
                     (clustering_sup (nltb O) (fzero O) fmax (fbot O fmax) true (fst r1))
                     (clustering_sup (nltb O) (fzero O) fmax (fbot O fmax) true (fst r2)).
Proof. exact (@sup_final_sim). Qed.

Theorem C16_unsup_final_stage_ignores_search_state :
  forall (F : Type) (O : NumOps F) (fmax thr one : F) (maxd : Z) (labels : list nat) (g : @knn F) (k : nat)
         (d efin : nat -> nat -> F) (gdens0 : F),
    unsup_state labels g ->
    let r1 := arcs_and_pdf O fmax thr one maxd k d efin (destroy_arcs g) in
    let r2 := arcs_and_pdf O fmax thr one maxd k d efin (fit_start O labels gdens0) in
    snd r1 = snd r2 /\
    k_nclusters (clustering_unsup (nltb O) (fzero O) fmax (fbot O fmax) k (fst r1))
    = k_nclusters (clustering_unsup (nltb O) (fzero O) fmax (fbot O fmax) k (fst r2)) /\
    length (k_clabel (clustering_unsup (nltb O) (fzero O) fmax (fbot O fmax) k (fst r2))) = length labels /\
    exists rem, csim false (k_order g) [] rem
                     (clustering_unsup (nltb O) (fzero O) fmax (fbot O fmax) k (fst r1))
                     (clustering_unsup (nltb O) (fzero O) fmax (fbot O fmax) k (fst r2)).
Proof. exact (@unsup_final_sim). Qed.

(* the hypothesis [sup_state] is inhabited: the fresh subgraph *)
Theorem C16_sup_state_fresh :
  forall (F : Type) (O : NumOps F) (labels : list nat), sup_state labels (knn_init (fzero O) labels).
Proof. exact (@sup_state_init). Qed.

(* ---------- non-vacuity: three rational samples, two validation rows, candidates k = 1, 2 ---------- *)

Theorem C16_fit_example_data :
  exr_labels = [0; 0; 1]%nat /\ exf_vlabels = [0; 1]%nat /\ exf_dq = [exr_d 0%nat; exr_d 2%nat] /\
  (forall i j, exr_d i j = nth j (nth i [[0; 1/2; 3/2]; [1/2; 0; 1]; [3/2; 1; 0]] []) 0) /\
  (forall c i j, exf_ep c i j = nth j (nth i [[1; 3/4; 1/4]; [3/4; 1; 1/2]; [1/4; 1/2; 1]] []) 0).
Proof. exact (conj eq_refl (conj eq_refl (conj eq_refl (conj (fun i j => eq_refl) (fun c i j => eq_refl))))). Qed.

Theorem C16_fit_example_premises :
  length exr_labels = 3%nat /\ length exf_vlabels = length exf_dq /\ 0 < 10 /\ INR 3 < 10 /\
  (forall i j, (i < 3)%nat -> (j < 3)%nat -> i <> j -> 0 <= exr_d i j < 10) /\
  (1 <= 1 <= 2)%nat /\ (2 <= 3 - 1)%nat.
Proof. exact exf_premises. Qed.

Theorem C16_fit_example_sup :
  exists (accs : list R) (best : nat) (g : @knn R) (c mn mx : R) (pre ord : list nat),
    knn_sup_fit_core ROps 10 (1/100000) 1 (1/100000000) 1000 exr_d exf_dq exf_vlabels exf_ep exf_eq exr_labels 2 exr_e
    = (accs, best, g, (c, mn, mx)) /\
    length accs = 2%nat /\ (1 <= best <= 2)%nat /\
    knn_select Rltb 0 accs = Some best /\
    (forall k, (1 <= k <= 2)%nat -> 0 <= nth (k - 1) accs 0 <= nth (best - 1) accs 0) /\
    (forall k, (1 <= k < best)%nat -> nth (k - 1) accs 0 < nth (best - 1) accs 0) /\
    k_order g = pre ++ ord /\ Permutation ord [0; 1; 2]%nat /\
    (forall q, (q < 3)%nat -> nth q (k_plabel g) 0%nat = nth q exr_labels 0%nat) /\
    (forall q, (q < 3)%nat -> 1 <= nth q (k_dens g) 0 <= 1000).
Proof. exact exf_sup. Qed.

Theorem C16_fit_example_unsup :
  exists (cuts : list R) (best : nat) (g : @knn R) (c mn mx : R) (pre ord : list nat),
    unsup_fit ROps 10 (1/100000) 1 1000 exr_d exf_ep exr_labels 1 2 exr_e = Some (cuts, best, g, (c, mn, mx)) /\
    (1 <= length cuts <= 2)%nat /\ (1 <= best < 1 + length cuts)%nat /\
    cut_select Rltb 0 10 1 cuts = (Some best, length cuts) /\
    (forall k, (1 <= k < 1 + length cuts)%nat -> 0 <= nth (best - 1) cuts 0 <= nth (k - 1) cuts 0) /\
    (length cuts = 2%nat \/ nth (length cuts - 1) cuts 0 = 0) /\
    k_order g = pre ++ ord /\ Permutation ord [0; 1; 2]%nat /\
    (1 <= k_nclusters g <= 3)%nat /\
    (forall q, (q < 3)%nat -> (nth q (k_clabel g) 0 < k_nclusters g)%nat).
Proof. exact exf_unsup. Qed.
