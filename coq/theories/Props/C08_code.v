(* C08 (code level) - the metric axioms of harness/axiom_table.py about the code terms ir_<name> regenerated
   from opfython/math/distance.py, on the user's domain.  Assembled by bin/gen_code_axioms.py from
   Proofs/CodeAxioms.v, Proofs/CodeAxiomsBhattacharyya.v, Proofs/CodeAxiomsGaussian.v. *)
From Coq Require Import Reals List.
From OPF Require Import Spec.MetricSpec Gen.Metrics_gen Model.MetricEval
     Proofs.CodeAxioms Proofs.CodeAxiomsBhattacharyya Proofs.CodeAxiomsGaussian.

Theorem C08_code_symmetric :
  (forall x y : list R, length x = length y -> metric_value ir_additive_symmetric x y = metric_value ir_additive_symmetric y x)%R
  /\ (forall x y : list R, length x = length y -> metric_value ir_average_euclidean x y = metric_value ir_average_euclidean y x)%R
  /\ (forall x y : list R, length x = length y -> metric_value ir_bhattacharyya x y = metric_value ir_bhattacharyya y x)%R
  /\ (forall x y : list R, length x = length y -> metric_value ir_bray_curtis x y = metric_value ir_bray_curtis y x)%R
  /\ (forall x y : list R, length x = length y -> metric_value ir_canberra x y = metric_value ir_canberra y x)%R
  /\ (forall x y : list R, length x = length y -> metric_value ir_chebyshev x y = metric_value ir_chebyshev y x)%R
  /\ (forall x y : list R, length x = length y -> metric_value ir_chi_squared x y = metric_value ir_chi_squared y x)%R
  /\ (forall x y : list R, length x = length y -> metric_value ir_chord x y = metric_value ir_chord y x)%R
  /\ (forall x y : list R, length x = length y -> metric_value ir_clark x y = metric_value ir_clark y x)%R
  /\ (forall x y : list R, length x = length y -> metric_value ir_cosine x y = metric_value ir_cosine y x)%R
  /\ (forall x y : list R, length x = length y -> metric_value ir_dice x y = metric_value ir_dice y x)%R
  /\ (forall x y : list R, length x = length y -> metric_value ir_divergence x y = metric_value ir_divergence y x)%R
  /\ (forall x y : list R, length x = length y -> metric_value ir_euclidean x y = metric_value ir_euclidean y x)%R
  /\ (forall x y : list R, length x = length y -> metric_value ir_gaussian x y = metric_value ir_gaussian y x)%R
  /\ (forall x y : list R, length x = length y -> metric_value ir_gower x y = metric_value ir_gower y x)%R
  /\ (forall x y : list R, length x = length y -> metric_value ir_hamming x y = metric_value ir_hamming y x)%R
  /\ (forall x y : list R, length x = length y -> metric_value ir_hassanat x y = metric_value ir_hassanat y x)%R
  /\ (forall x y : list R, length x = length y -> metric_value ir_hellinger x y = metric_value ir_hellinger y x)%R
  /\ (forall x y : list R, length x = length y -> metric_value ir_jaccard x y = metric_value ir_jaccard y x)%R
  /\ (forall x y : list R, length x = length y -> metric_value ir_jeffreys x y = metric_value ir_jeffreys y x)%R
  /\ (forall x y : list R, length x = length y -> metric_value ir_jensen x y = metric_value ir_jensen y x)%R
  /\ (forall x y : list R, length x = length y -> metric_value ir_jensen_shannon x y = metric_value ir_jensen_shannon y x)%R
  /\ (forall x y : list R, length x = length y -> metric_value ir_kulczynski x y = metric_value ir_kulczynski y x)%R
  /\ (forall x y : list R, length x = length y -> metric_value ir_log_euclidean x y = metric_value ir_log_euclidean y x)%R
  /\ (forall x y : list R, length x = length y -> metric_value ir_log_squared_euclidean x y = metric_value ir_log_squared_euclidean y x)%R
  /\ (forall x y : list R, length x = length y -> metric_value ir_lorentzian x y = metric_value ir_lorentzian y x)%R
  /\ (forall x y : list R, length x = length y -> metric_value ir_manhattan x y = metric_value ir_manhattan y x)%R
  /\ (forall x y : list R, length x = length y -> metric_value ir_matusita x y = metric_value ir_matusita y x)%R
  /\ (forall x y : list R, length x = length y -> metric_value ir_max_symmetric x y = metric_value ir_max_symmetric y x)%R
  /\ (forall x y : list R, length x = length y -> metric_value ir_mean_censored_euclidean x y = metric_value ir_mean_censored_euclidean y x)%R
  /\ (forall x y : list R, length x = length y -> metric_value ir_min_symmetric x y = metric_value ir_min_symmetric y x)%R
  /\ (forall x y : list R, length x = length y -> metric_value ir_non_intersection x y = metric_value ir_non_intersection y x)%R
  /\ (forall x y : list R, length x = length y -> metric_value ir_sangvi x y = metric_value ir_sangvi y x)%R
  /\ (forall x y : list R, length x = length y -> metric_value ir_soergel x y = metric_value ir_soergel y x)%R
  /\ (forall x y : list R, length x = length y -> metric_value ir_squared x y = metric_value ir_squared y x)%R
  /\ (forall x y : list R, length x = length y -> metric_value ir_squared_chord x y = metric_value ir_squared_chord y x)%R
  /\ (forall x y : list R, length x = length y -> metric_value ir_squared_euclidean x y = metric_value ir_squared_euclidean y x)%R
  /\ (forall x y : list R, length x = length y -> metric_value ir_topsoe x y = metric_value ir_topsoe y x)%R
  /\ (forall x y : list R, length x = length y -> metric_value ir_vicis_symmetric1 x y = metric_value ir_vicis_symmetric1 y x)%R
  /\ (forall x y : list R, length x = length y -> metric_value ir_vicis_symmetric2 x y = metric_value ir_vicis_symmetric2 y x)%R
  /\ (forall x y : list R, length x = length y -> metric_value ir_vicis_symmetric3 x y = metric_value ir_vicis_symmetric3 y x)%R
  /\ (forall x y : list R, length x = length y -> metric_value ir_vicis_wave_hedges x y = metric_value ir_vicis_wave_hedges y x)%R.
Proof. exact (conj code_sym_additive_symmetric (conj code_sym_average_euclidean (conj code_sym_bhattacharyya (conj code_sym_bray_curtis (conj code_sym_canberra (conj code_sym_chebyshev (conj code_sym_chi_squared (conj code_sym_chord (conj code_sym_clark (conj code_sym_cosine (conj code_sym_dice (conj code_sym_divergence (conj code_sym_euclidean (conj code_sym_gaussian (conj code_sym_gower (conj code_sym_hamming (conj code_sym_hassanat (conj code_sym_hellinger (conj code_sym_jaccard (conj code_sym_jeffreys (conj code_sym_jensen (conj code_sym_jensen_shannon (conj code_sym_kulczynski (conj code_sym_log_euclidean (conj code_sym_log_squared_euclidean (conj code_sym_lorentzian (conj code_sym_manhattan (conj code_sym_matusita (conj code_sym_max_symmetric (conj code_sym_mean_censored_euclidean (conj code_sym_min_symmetric (conj code_sym_non_intersection (conj code_sym_sangvi (conj code_sym_soergel (conj code_sym_squared (conj code_sym_squared_chord (conj code_sym_squared_euclidean (conj code_sym_topsoe (conj code_sym_vicis_symmetric1 (conj code_sym_vicis_symmetric2 (conj code_sym_vicis_symmetric3 code_sym_vicis_wave_hedges))))))))))))))))))))))))))))))))))))))))). Qed.

Theorem C08_code_nonneg :
  (forall x y : list R, length x = length y -> (1 <= length x)%nat -> all_nonneg x -> all_nonneg y -> 0 <= metric_value ir_additive_symmetric x y)%R
  /\ (forall x y : list R, length x = length y -> (1 <= length x)%nat -> 0 <= metric_value ir_average_euclidean x y)%R
  /\ (forall x y : list R, length x = length y -> (1 <= length x)%nat -> all_nonneg x -> all_nonneg y -> sum (shift x) = 1 -> sum (shift y) = 1 -> 0 <= metric_value ir_bhattacharyya x y)%R
  /\ (forall x y : list R, length x = length y -> (1 <= length x)%nat -> all_nonneg x -> all_nonneg y -> 0 <= metric_value ir_bray_curtis x y)%R
  /\ (forall x y : list R, length x = length y -> (1 <= length x)%nat -> all_nonneg x -> all_nonneg y -> 0 <= metric_value ir_canberra x y)%R
  /\ (forall x y : list R, length x = length y -> (1 <= length x)%nat -> 0 <= metric_value ir_chebyshev x y)%R
  /\ (forall x y : list R, length x = length y -> (1 <= length x)%nat -> all_nonneg x -> all_nonneg y -> 0 <= metric_value ir_chi_squared x y)%R
  /\ (forall x y : list R, length x = length y -> (1 <= length x)%nat -> all_nonneg x -> all_nonneg y -> 0 <= metric_value ir_chord x y)%R
  /\ (forall x y : list R, length x = length y -> (1 <= length x)%nat -> all_nonneg x -> all_nonneg y -> 0 <= metric_value ir_clark x y)%R
  /\ (forall x y : list R, length x = length y -> (1 <= length x)%nat -> all_nonneg x -> all_nonneg y -> 0 <= metric_value ir_cosine x y)%R
  /\ (forall x y : list R, length x = length y -> (1 <= length x)%nat -> all_nonneg x -> all_nonneg y -> 0 <= metric_value ir_dice x y)%R
  /\ (forall x y : list R, length x = length y -> (1 <= length x)%nat -> all_nonneg x -> all_nonneg y -> 0 <= metric_value ir_divergence x y)%R
  /\ (forall x y : list R, length x = length y -> (1 <= length x)%nat -> 0 <= metric_value ir_euclidean x y)%R
  /\ (forall x y : list R, length x = length y -> (1 <= length x)%nat -> 0 <= metric_value ir_gower x y)%R
  /\ (forall x y : list R, length x = length y -> (1 <= length x)%nat -> 0 <= metric_value ir_hamming x y)%R
  /\ (forall x y : list R, length x = length y -> (1 <= length x)%nat -> 0 <= metric_value ir_hassanat x y)%R
  /\ (forall x y : list R, length x = length y -> (1 <= length x)%nat -> all_nonneg x -> all_nonneg y -> 0 <= metric_value ir_hellinger x y)%R
  /\ (forall x y : list R, length x = length y -> (1 <= length x)%nat -> all_nonneg x -> all_nonneg y -> 0 <= metric_value ir_jaccard x y)%R
  /\ (forall x y : list R, length x = length y -> (1 <= length x)%nat -> all_nonneg x -> all_nonneg y -> 0 <= metric_value ir_jeffreys x y)%R
  /\ (forall x y : list R, length x = length y -> (1 <= length x)%nat -> all_nonneg x -> all_nonneg y -> 0 <= metric_value ir_jensen x y)%R
  /\ (forall x y : list R, length x = length y -> (1 <= length x)%nat -> all_nonneg x -> all_nonneg y -> 0 <= metric_value ir_jensen_shannon x y)%R
  /\ (forall x y : list R, length x = length y -> (1 <= length x)%nat -> all_nonneg x -> all_nonneg y -> sum x = sum y -> 0 <= metric_value ir_k_divergence x y)%R
  /\ (forall x y : list R, length x = length y -> (1 <= length x)%nat -> all_nonneg x -> all_nonneg y -> 0 <= metric_value ir_kulczynski x y)%R
  /\ (forall x y : list R, length x = length y -> (1 <= length x)%nat -> all_nonneg x -> all_nonneg y -> sum x = sum y -> 0 <= metric_value ir_kullback_leibler x y)%R
  /\ (forall x y : list R, length x = length y -> (1 <= length x)%nat -> 0 <= metric_value ir_log_euclidean x y)%R
  /\ (forall x y : list R, length x = length y -> (1 <= length x)%nat -> 0 <= metric_value ir_log_squared_euclidean x y)%R
  /\ (forall x y : list R, length x = length y -> (1 <= length x)%nat -> 0 <= metric_value ir_lorentzian x y)%R
  /\ (forall x y : list R, length x = length y -> (1 <= length x)%nat -> 0 <= metric_value ir_manhattan x y)%R
  /\ (forall x y : list R, length x = length y -> (1 <= length x)%nat -> all_nonneg x -> all_nonneg y -> 0 <= metric_value ir_matusita x y)%R
  /\ (forall x y : list R, length x = length y -> (1 <= length x)%nat -> all_nonneg x -> all_nonneg y -> 0 <= metric_value ir_max_symmetric x y)%R
  /\ (forall x y : list R, length x = length y -> (1 <= length x)%nat -> all_nonneg x -> all_nonneg y -> 0 <= metric_value ir_mean_censored_euclidean x y)%R
  /\ (forall x y : list R, length x = length y -> (1 <= length x)%nat -> all_nonneg x -> all_nonneg y -> 0 <= metric_value ir_min_symmetric x y)%R
  /\ (forall x y : list R, length x = length y -> (1 <= length x)%nat -> all_nonneg x -> all_nonneg y -> 0 <= metric_value ir_neyman x y)%R
  /\ (forall x y : list R, length x = length y -> (1 <= length x)%nat -> 0 <= metric_value ir_non_intersection x y)%R
  /\ (forall x y : list R, length x = length y -> (1 <= length x)%nat -> all_nonneg x -> all_nonneg y -> 0 <= metric_value ir_pearson x y)%R
  /\ (forall x y : list R, length x = length y -> (1 <= length x)%nat -> all_nonneg x -> all_nonneg y -> 0 <= metric_value ir_sangvi x y)%R
  /\ (forall x y : list R, length x = length y -> (1 <= length x)%nat -> all_nonneg x -> all_nonneg y -> 0 <= metric_value ir_soergel x y)%R
  /\ (forall x y : list R, length x = length y -> (1 <= length x)%nat -> all_nonneg x -> all_nonneg y -> 0 <= metric_value ir_squared x y)%R
  /\ (forall x y : list R, length x = length y -> (1 <= length x)%nat -> all_nonneg x -> all_nonneg y -> 0 <= metric_value ir_squared_chord x y)%R
  /\ (forall x y : list R, length x = length y -> (1 <= length x)%nat -> 0 <= metric_value ir_squared_euclidean x y)%R
  /\ (forall x y : list R, length x = length y -> (1 <= length x)%nat -> all_nonneg x -> all_nonneg y -> 0 <= metric_value ir_topsoe x y)%R
  /\ (forall x y : list R, length x = length y -> (1 <= length x)%nat -> all_nonneg x -> all_nonneg y -> 0 <= metric_value ir_vicis_symmetric1 x y)%R
  /\ (forall x y : list R, length x = length y -> (1 <= length x)%nat -> all_nonneg x -> all_nonneg y -> 0 <= metric_value ir_vicis_symmetric2 x y)%R
  /\ (forall x y : list R, length x = length y -> (1 <= length x)%nat -> all_nonneg x -> all_nonneg y -> 0 <= metric_value ir_vicis_symmetric3 x y)%R
  /\ (forall x y : list R, length x = length y -> (1 <= length x)%nat -> all_nonneg x -> all_nonneg y -> 0 <= metric_value ir_vicis_wave_hedges x y)%R.
Proof. exact (conj code_nonneg_additive_symmetric (conj code_nonneg_average_euclidean (conj code_nonneg_bhattacharyya (conj code_nonneg_bray_curtis (conj code_nonneg_canberra (conj code_nonneg_chebyshev (conj code_nonneg_chi_squared (conj code_nonneg_chord (conj code_nonneg_clark (conj code_nonneg_cosine (conj code_nonneg_dice (conj code_nonneg_divergence (conj code_nonneg_euclidean (conj code_nonneg_gower (conj code_nonneg_hamming (conj code_nonneg_hassanat (conj code_nonneg_hellinger (conj code_nonneg_jaccard (conj code_nonneg_jeffreys (conj code_nonneg_jensen (conj code_nonneg_jensen_shannon (conj code_nonneg_k_divergence (conj code_nonneg_kulczynski (conj code_nonneg_kullback_leibler (conj code_nonneg_log_euclidean (conj code_nonneg_log_squared_euclidean (conj code_nonneg_lorentzian (conj code_nonneg_manhattan (conj code_nonneg_matusita (conj code_nonneg_max_symmetric (conj code_nonneg_mean_censored_euclidean (conj code_nonneg_min_symmetric (conj code_nonneg_neyman (conj code_nonneg_non_intersection (conj code_nonneg_pearson (conj code_nonneg_sangvi (conj code_nonneg_soergel (conj code_nonneg_squared (conj code_nonneg_squared_chord (conj code_nonneg_squared_euclidean (conj code_nonneg_topsoe (conj code_nonneg_vicis_symmetric1 (conj code_nonneg_vicis_symmetric2 (conj code_nonneg_vicis_symmetric3 code_nonneg_vicis_wave_hedges)))))))))))))))))))))))))))))))))))))))))))). Qed.

Theorem C08_code_zero_self :
  (forall x : list R, (1 <= length x)%nat -> all_nonneg x -> metric_value ir_additive_symmetric x x = 0)%R
  /\ (forall x : list R, (1 <= length x)%nat -> metric_value ir_average_euclidean x x = 0)%R
  /\ (forall x : list R, (1 <= length x)%nat -> all_nonneg x -> sum (shift x) = 1 -> metric_value ir_bhattacharyya x x = 0)%R
  /\ (forall x : list R, (1 <= length x)%nat -> all_nonneg x -> metric_value ir_bray_curtis x x = 0)%R
  /\ (forall x : list R, (1 <= length x)%nat -> all_nonneg x -> metric_value ir_canberra x x = 0)%R
  /\ (forall x : list R, (1 <= length x)%nat -> metric_value ir_chebyshev x x = 0)%R
  /\ (forall x : list R, (1 <= length x)%nat -> all_nonneg x -> metric_value ir_chi_squared x x = 0)%R
  /\ (forall x : list R, (1 <= length x)%nat -> all_nonneg x -> metric_value ir_chord x x = 0)%R
  /\ (forall x : list R, (1 <= length x)%nat -> all_nonneg x -> metric_value ir_clark x x = 0)%R
  /\ (forall x : list R, (1 <= length x)%nat -> all_nonneg x -> metric_value ir_cosine x x = 0)%R
  /\ (forall x : list R, (1 <= length x)%nat -> all_nonneg x -> metric_value ir_dice x x = 0)%R
  /\ (forall x : list R, (1 <= length x)%nat -> all_nonneg x -> metric_value ir_divergence x x = 0)%R
  /\ (forall x : list R, (1 <= length x)%nat -> metric_value ir_euclidean x x = 0)%R
  /\ (forall x : list R, (1 <= length x)%nat -> metric_value ir_gower x x = 0)%R
  /\ (forall x : list R, (1 <= length x)%nat -> metric_value ir_hamming x x = 0)%R
  /\ (forall x : list R, (1 <= length x)%nat -> metric_value ir_hassanat x x = 0)%R
  /\ (forall x : list R, (1 <= length x)%nat -> all_nonneg x -> metric_value ir_hellinger x x = 0)%R
  /\ (forall x : list R, (1 <= length x)%nat -> all_nonneg x -> metric_value ir_jaccard x x = 0)%R
  /\ (forall x : list R, (1 <= length x)%nat -> all_nonneg x -> metric_value ir_jeffreys x x = 0)%R
  /\ (forall x : list R, (1 <= length x)%nat -> all_nonneg x -> metric_value ir_jensen x x = 0)%R
  /\ (forall x : list R, (1 <= length x)%nat -> all_nonneg x -> metric_value ir_jensen_shannon x x = 0)%R
  /\ (forall x : list R, (1 <= length x)%nat -> all_nonneg x -> metric_value ir_k_divergence x x = 0)%R
  /\ (forall x : list R, (1 <= length x)%nat -> all_nonneg x -> metric_value ir_kulczynski x x = 0)%R
  /\ (forall x : list R, (1 <= length x)%nat -> all_nonneg x -> metric_value ir_kullback_leibler x x = 0)%R
  /\ (forall x : list R, (1 <= length x)%nat -> metric_value ir_log_euclidean x x = 0)%R
  /\ (forall x : list R, (1 <= length x)%nat -> metric_value ir_log_squared_euclidean x x = 0)%R
  /\ (forall x : list R, (1 <= length x)%nat -> metric_value ir_lorentzian x x = 0)%R
  /\ (forall x : list R, (1 <= length x)%nat -> metric_value ir_manhattan x x = 0)%R
  /\ (forall x : list R, (1 <= length x)%nat -> all_nonneg x -> metric_value ir_matusita x x = 0)%R
  /\ (forall x : list R, (1 <= length x)%nat -> all_nonneg x -> metric_value ir_max_symmetric x x = 0)%R
  /\ (forall x : list R, (1 <= length x)%nat -> all_nonneg x -> metric_value ir_mean_censored_euclidean x x = 0)%R
  /\ (forall x : list R, (1 <= length x)%nat -> all_nonneg x -> metric_value ir_min_symmetric x x = 0)%R
  /\ (forall x : list R, (1 <= length x)%nat -> all_nonneg x -> metric_value ir_neyman x x = 0)%R
  /\ (forall x : list R, (1 <= length x)%nat -> metric_value ir_non_intersection x x = 0)%R
  /\ (forall x : list R, (1 <= length x)%nat -> all_nonneg x -> metric_value ir_pearson x x = 0)%R
  /\ (forall x : list R, (1 <= length x)%nat -> all_nonneg x -> metric_value ir_sangvi x x = 0)%R
  /\ (forall x : list R, (1 <= length x)%nat -> all_nonneg x -> metric_value ir_soergel x x = 0)%R
  /\ (forall x : list R, (1 <= length x)%nat -> all_nonneg x -> metric_value ir_squared x x = 0)%R
  /\ (forall x : list R, (1 <= length x)%nat -> all_nonneg x -> metric_value ir_squared_chord x x = 0)%R
  /\ (forall x : list R, (1 <= length x)%nat -> metric_value ir_squared_euclidean x x = 0)%R
  /\ (forall x : list R, (1 <= length x)%nat -> all_nonneg x -> metric_value ir_topsoe x x = 0)%R
  /\ (forall x : list R, (1 <= length x)%nat -> all_nonneg x -> metric_value ir_vicis_symmetric1 x x = 0)%R
  /\ (forall x : list R, (1 <= length x)%nat -> all_nonneg x -> metric_value ir_vicis_symmetric2 x x = 0)%R
  /\ (forall x : list R, (1 <= length x)%nat -> all_nonneg x -> metric_value ir_vicis_symmetric3 x x = 0)%R
  /\ (forall x : list R, (1 <= length x)%nat -> all_nonneg x -> metric_value ir_vicis_wave_hedges x x = 0)%R.
Proof. exact (conj code_zero_self_additive_symmetric (conj code_zero_self_average_euclidean (conj code_zero_self_bhattacharyya (conj code_zero_self_bray_curtis (conj code_zero_self_canberra (conj code_zero_self_chebyshev (conj code_zero_self_chi_squared (conj code_zero_self_chord (conj code_zero_self_clark (conj code_zero_self_cosine (conj code_zero_self_dice (conj code_zero_self_divergence (conj code_zero_self_euclidean (conj code_zero_self_gower (conj code_zero_self_hamming (conj code_zero_self_hassanat (conj code_zero_self_hellinger (conj code_zero_self_jaccard (conj code_zero_self_jeffreys (conj code_zero_self_jensen (conj code_zero_self_jensen_shannon (conj code_zero_self_k_divergence (conj code_zero_self_kulczynski (conj code_zero_self_kullback_leibler (conj code_zero_self_log_euclidean (conj code_zero_self_log_squared_euclidean (conj code_zero_self_lorentzian (conj code_zero_self_manhattan (conj code_zero_self_matusita (conj code_zero_self_max_symmetric (conj code_zero_self_mean_censored_euclidean (conj code_zero_self_min_symmetric (conj code_zero_self_neyman (conj code_zero_self_non_intersection (conj code_zero_self_pearson (conj code_zero_self_sangvi (conj code_zero_self_soergel (conj code_zero_self_squared (conj code_zero_self_squared_chord (conj code_zero_self_squared_euclidean (conj code_zero_self_topsoe (conj code_zero_self_vicis_symmetric1 (conj code_zero_self_vicis_symmetric2 (conj code_zero_self_vicis_symmetric3 code_zero_self_vicis_wave_hedges)))))))))))))))))))))))))))))))))))))))))))). Qed.

Theorem C08_code_triangle :
  (forall x y z : list R, length x = length y -> length y = length z -> (1 <= length x)%nat -> metric_value ir_average_euclidean x z <= metric_value ir_average_euclidean x y + metric_value ir_average_euclidean y z)%R
  /\ (forall x y z : list R, length x = length y -> length y = length z -> (1 <= length x)%nat -> all_nonneg x -> all_nonneg y -> all_nonneg z -> metric_value ir_canberra x z <= metric_value ir_canberra x y + metric_value ir_canberra y z)%R
  /\ (forall x y z : list R, length x = length y -> length y = length z -> (1 <= length x)%nat -> metric_value ir_chebyshev x z <= metric_value ir_chebyshev x y + metric_value ir_chebyshev y z)%R
  /\ (forall x y z : list R, length x = length y -> length y = length z -> (1 <= length x)%nat -> metric_value ir_euclidean x z <= metric_value ir_euclidean x y + metric_value ir_euclidean y z)%R
  /\ (forall x y z : list R, length x = length y -> length y = length z -> (1 <= length x)%nat -> metric_value ir_gower x z <= metric_value ir_gower x y + metric_value ir_gower y z)%R
  /\ (forall x y z : list R, length x = length y -> length y = length z -> (1 <= length x)%nat -> metric_value ir_hamming x z <= metric_value ir_hamming x y + metric_value ir_hamming y z)%R
  /\ (forall x y z : list R, length x = length y -> length y = length z -> (1 <= length x)%nat -> all_nonneg x -> all_nonneg y -> all_nonneg z -> metric_value ir_hellinger x z <= metric_value ir_hellinger x y + metric_value ir_hellinger y z)%R
  /\ (forall x y z : list R, length x = length y -> length y = length z -> (1 <= length x)%nat -> metric_value ir_log_euclidean x z <= metric_value ir_log_euclidean x y + metric_value ir_log_euclidean y z)%R
  /\ (forall x y z : list R, length x = length y -> length y = length z -> (1 <= length x)%nat -> metric_value ir_lorentzian x z <= metric_value ir_lorentzian x y + metric_value ir_lorentzian y z)%R
  /\ (forall x y z : list R, length x = length y -> length y = length z -> (1 <= length x)%nat -> metric_value ir_manhattan x z <= metric_value ir_manhattan x y + metric_value ir_manhattan y z)%R
  /\ (forall x y z : list R, length x = length y -> length y = length z -> (1 <= length x)%nat -> all_nonneg x -> all_nonneg y -> all_nonneg z -> metric_value ir_matusita x z <= metric_value ir_matusita x y + metric_value ir_matusita y z)%R
  /\ (forall x y z : list R, length x = length y -> length y = length z -> (1 <= length x)%nat -> metric_value ir_non_intersection x z <= metric_value ir_non_intersection x y + metric_value ir_non_intersection y z)%R
  /\ (forall x y z : list R, length x = length y -> length y = length z -> (1 <= length x)%nat -> all_nonneg x -> all_nonneg y -> all_nonneg z -> metric_value ir_soergel x z <= metric_value ir_soergel x y + metric_value ir_soergel y z)%R.
Proof. exact (conj code_triangle_average_euclidean (conj code_triangle_canberra (conj code_triangle_chebyshev (conj code_triangle_euclidean (conj code_triangle_gower (conj code_triangle_hamming (conj code_triangle_hellinger (conj code_triangle_log_euclidean (conj code_triangle_lorentzian (conj code_triangle_manhattan (conj code_triangle_matusita (conj code_triangle_non_intersection code_triangle_soergel)))))))))))). Qed.

(* gaussian is a similarity: 1 at identity, in (0, 1] elsewhere (gamma at its default 1, and any gamma >= 0) *)
Theorem C08_code_gaussian :
  (forall x : list R, metric_value ir_gaussian x x = 1)%R
  /\ (forall x y : list R, length x = length y -> 0 < metric_value ir_gaussian x y <= 1)%R
  /\ (forall (g : R) (x y : list R), length x = length y ->
       metric_value_with (fun _ => g) ir_gaussian x y = metric_value_with (fun _ => g) ir_gaussian y x)%R
  /\ (forall (g : R) (x : list R), metric_value_with (fun _ => g) ir_gaussian x x = 1)%R
  /\ (forall (g : R) (x y : list R), length x = length y -> (0 <= g)%R ->
       0 < metric_value_with (fun _ => g) ir_gaussian x y <= 1)%R.
Proof. exact (conj code_gaussian_self (conj code_gaussian_range (conj code_sym_gaussian_gamma (conj code_gaussian_self_gamma code_gaussian_range_gamma)))). Qed.

(* bhattacharyya on probability vectors (sum exactly 1): the decorator's shift makes the sums 1 + n * EPSILON, so the
   self-distance is -ln(1 + n * EPSILON) (not 0) and every distance is >= that; the defect is below n * 1e-20 *)
Theorem C08_code_bhattacharyya_prob :
  (forall x : list R, (1 <= length x)%nat -> all_nonneg x -> sum x = 1 ->
     metric_value ir_bhattacharyya x x = - ln (1 + INR (length x) * EPSILON))%R
  /\ (forall x : list R, (1 <= length x)%nat -> all_nonneg x -> sum x = 1 ->
     - (INR (length x) * EPSILON) <= metric_value ir_bhattacharyya x x < 0)%R
  /\ (forall x y : list R, length x = length y -> (1 <= length x)%nat -> all_nonneg x -> all_nonneg y ->
     sum x = 1 -> sum y = 1 ->
     - ln (1 + INR (length x) * EPSILON) <= metric_value ir_bhattacharyya x y)%R
  /\ (forall x y : list R, length x = length y -> (1 <= length x)%nat -> all_nonneg x -> all_nonneg y ->
     sum x = 1 -> sum y = 1 ->
     - (INR (length x) * EPSILON) <= metric_value ir_bhattacharyya x y)%R.
Proof. exact (conj code_self_bhattacharyya_prob (conj code_self_bhattacharyya_prob_bounds (conj code_nonneg_bhattacharyya_prob code_nonneg_bhattacharyya_prob_eps))). Qed.
