From Coq Require Import PrimFloat.
From OPF Require Import Proofs.HeapPrelude Base.Lists Base.TotalOrder Model.Heap Proofs.HeapInv Proofs.HeapHist.
From OPF Require Import Proofs.WeakOrder Proofs.ParamHeap Proofs.HeapLift Proofs.FloatOrder Proofs.FloatRank
  Proofs.FloatHeap.

(* C05 for the heap as the library uses it: costs are binary64 numbers compared with  <  and  >,
   i.e. through PrimFloat.ltb (Proofs/FloatOrder.v).  On the non-NaN floats that comparison is a
   strict weak order (C01_float_weak_order), so the weak-order form of the heap theorems
   (Props/C05_anyorder.v) applies with -0 and +0 left distinct.  Hypotheses: the sentinel (FLOAT_MAX
   for the minimum policy, FLOAT_MIN for the maximum policy) and every cost carried by an update are
   not NaN ([ops_in]); the history is valid in the sense of Props/C05.v, validity decided by
   PrimFloat.ltb.

   Print Assumptions: the primitive float type/operations, FloatAxioms.ltb_spec, eqb_spec
   (and Prim2SF_valid for the statement about the IEEE codes). *)

Theorem C05_float_inv_reachable :
  forall (top : float), is_nan top = false ->
  forall (size : nat) (pol : policy) (ops : list (@op float)),
    ops_in (fun x => is_nan x = false) ops ->
    valid_histW PrimFloat.ltb top (h_init top size pol) ops ->
    let h := fst (run PrimFloat.ltb top (h_init top size pol) ops) in
    InvW PrimFloat.ltb h /\ hsize h = size /\ hpol h = pol.
Proof. exact float_heap_inv. Qed.

Theorem C05_float_step_refines_pq :
  forall (top : float), is_nan top = false ->
  forall (h : heap float) (o : @op float),
    Forall (fun x => is_nan x = false) (hcost h) -> Forall (fun x => is_nan x = false) (op_costs o) ->
    InvW PrimFloat.ltb h -> valid_opW PrimFloat.ltb top h o ->
    let '(h', r) := step PrimFloat.ltb top h o in
    InvW PrimFloat.ltb h' /\ hsize h' = hsize h /\ hpol h' = hpol h /\
    pq_stepW PrimFloat.ltb top (hsize h) (hpol h) (absW h) o r (absW h') /\
    Permutation (queued h ++ ins_ofW h o r) (rem_of r ++ queued h').
Proof. exact float_heap_step. Qed.

Theorem C05_float_remove_extremal :
  forall (top : float), is_nan top = false ->
  forall (size : nat) (pol : policy) (ops : list (@op float)),
    ops_in (fun x => is_nan x = false) ops ->
    valid_histW PrimFloat.ltb top (h_init top size pol) ops ->
    let h := fst (run PrimFloat.ltb top (h_init top size pol) ops) in
    match step PrimFloat.ltb top h ORem with
    | (h', RElem p) =>
        In p (queued h) /\
        (forall q, In q (queued h) ->
           better PrimFloat.ltb pol (nth q (hcost h) top) (nth p (hcost h) top) = false) /\
        Permutation (queued h) (p :: queued h') /\ hcost h' = hcost h
    | (h', RFalse) => queued h = [] /\ h' = h
    | _ => False
    end.
Proof. exact float_heap_remove_extremal. Qed.

Theorem C05_float_histories_refine_pq :
  forall (top : float), is_nan top = false ->
  forall (size : nat) (pol : policy) (ops : list (@op float)),
    ops_in (fun x => is_nan x = false) ops ->
    valid_histW PrimFloat.ltb top (h_init top size pol) ops ->
    pq_runW PrimFloat.ltb top size pol (absW (h_init top size pol)) ops
            (snd (run PrimFloat.ltb top (h_init top size pol) ops))
            (absW (fst (run PrimFloat.ltb top (h_init top size pol) ops))).
Proof. exact float_heap_refines. Qed.

Theorem C05_float_conservation :
  forall (top : float), is_nan top = false ->
  forall (size : nat) (pol : policy) (ops : list (@op float)),
    ops_in (fun x => is_nan x = false) ops ->
    valid_histW PrimFloat.ltb top (h_init top size pol) ops ->
    Permutation (insertedW PrimFloat.ltb top (h_init top size pol) ops)
                (removed (snd (run PrimFloat.ltb top (h_init top size pol) ops))
                 ++ queued (fst (run PrimFloat.ltb top (h_init top size pol) ops))).
Proof. exact float_heap_conservation. Qed.

(* the heap on floats and the heap on integer codes ordered like the floats (the IEEE code fenc,
   its dense rank, ...) return the same outputs and the same arrays p / pos / color / last, and the
   coded cost array: what the correspondence check of C05 relies on when it feeds rank-encoded
   costs to the model *)
Theorem C05_float_run_coded :
  forall (top : float), is_nan top = false ->
  forall (f : float -> Z) (size : nat) (pol : policy) (ops : list (@op float)),
    (forall a b, is_nan a = false -> is_nan b = false -> Z.ltb (f a) (f b) = PrimFloat.ltb a b) ->
    ops_in (fun x => is_nan x = false) ops ->
    run Z.ltb (f top) (h_init (f top) size pol) (map (map_op f) ops)
    = (map_heap f (fst (run PrimFloat.ltb top (h_init top size pol) ops)),
       snd (run PrimFloat.ltb top (h_init top size pol) ops)).
Proof. exact float_heap_coded. Qed.

Theorem C05_float_run_enc :
  forall (top : float), is_nan top = false ->
  forall (size : nat) (pol : policy) (ops : list (@op float)),
    ops_in (fun x => is_nan x = false) ops ->
    run Z.ltb (fenc top) (h_init (fenc top) size pol) (map (map_op fenc) ops)
    = (map_heap fenc (fst (run PrimFloat.ltb top (h_init top size pol) ops)),
       snd (run PrimFloat.ltb top (h_init top size pol) ops)).
Proof. exact float_heap_enc. Qed.

(* ---------- non-vacuity: capacity 3, minimum policy, FLOAT_MAX sentinel ---------- *)

(* costs 0.5, 0.5 tie for the first removal; +0 and -0 tie for the second and third *)
Theorem C05_float_example_premises :
  is_nan exfh_top = false /\ ops_in (fun x => is_nan x = false) exfh_ops /\
  valid_histW PrimFloat.ltb exfh_top (h_init exfh_top 3 PMin) exfh_ops /\
  exfh_top = 0x1.fffffffffffffp+1023%float /\
  exfh_ops = [OIsEmpty; OUpd 0 0.5; OUpd 1 0.5; OIns 2; OIsFull; ORem; OUpd 2 0; OUpd 1 (-0);
              OIns 0; OIsFull; ORem; ORem; OUpd 0 0.25; ORem; ORem; OIsEmpty]%float.
Proof.
  exact (conj (proj1 exfh_premises) (conj (proj1 (proj2 exfh_premises))
        (conj (proj2 (proj2 exfh_premises)) (conj eq_refl eq_refl)))).
Qed.

Theorem C05_float_example_result :
  snd (run PrimFloat.ltb exfh_top (h_init exfh_top 3 PMin) exfh_ops) =
    [RBool true; RUnit; RUnit; RBool true; RBool true; RElem 0; RUnit; RUnit; RBool true;
     RBool true; RElem 2; RElem 1; RUnit; RElem 0; RFalse; RBool true].
Proof. exact exfh_outputs. Qed.
