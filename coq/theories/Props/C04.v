(* C04 (supervised half): "If all pairwise training distances are distinct, supervised
   training assigns every training sample its own true label, and predicting the training
   set returns the training labels exactly, for every metric that is a symmetric
   non-negative dissimilarity with zero self-distance."

   Model: [sup_fit] / [predict_one] / [predict_batch] of Model/Sup.v at W := Z (IEEE-order
   encoded floats), arc weights as a function [w]; [zero] is the self-distance 0, [top] is
   c.FLOAT_MAX.  "Distinct" is read as [tie_free]: symmetric weights, pairwise distinct on
   unordered pairs of distinct samples, and strictly above the self-distance (two coincident
   samples of different classes defeat the property for any classifier).  At least two classes
   must occur; with one class the model has no prototype (last-but-one theorem).  The KNN half
   is Props/C04_knn.v. *)
From Coq Require Import ZArith List Reals.
From OPF Require Import Base.Lists Model.Heap Model.Sup Spec.Paths Spec.Trees Spec.MetricSpec
  Proofs.FitExample Proofs.ResubBase Proofs.Resub Proofs.ResubMetric Proofs.ResubExample.
Import ListNotations.

(* the hypothesis, spelled out *)
Theorem C04_tie_free_def :
  forall (n : nat) (w : nat -> nat -> Z) (zero top : Z),
    tie_free n w zero top <->
    (forall p q, p < n -> q < n -> w p q = w q p) /\
    (forall a b c d, a < n -> b < n -> c < n -> d < n -> a <> b -> c <> d ->
       w a b = w c d -> (a = c /\ b = d) \/ (a = d /\ b = c)) /\
    (forall p q, p < n -> q < n -> p <> q -> (zero < w p q < top)%Z).
Proof. exact tie_free_def. Qed.

(* Every training sample is assigned its own label. *)
Theorem C04_sup_train_labels_own :
  forall (zero top : Z) (n : nat) (w : nat -> nat -> Z) (labels : list nat),
    length labels = n -> tie_free n w zero top ->
    (exists a b, a < n /\ b < n /\ nth a labels 0 <> nth b labels 0) ->
    let nd := sup_fit Z.ltb zero top labels w in
    forall q, q < n -> nth q (n_plabel nd) 0 = nth q labels 0.
Proof. exact sup_train_labels_own. Qed.

(* The reason: every sample is reached from a prototype strictly below its distance to any
   sample of another class, so no arc of the forest joins two classes. *)
Theorem C04_sup_cost_below_other_class :
  forall (zero top : Z) (n : nat) (w : nat -> nat -> Z) (labels : list nat),
    length labels = n -> tie_free n w zero top ->
    (exists a b, a < n /\ b < n /\ nth a labels 0 <> nth b labels 0) ->
    let nd := sup_fit Z.ltb zero top labels w in
    forall a b, a < n -> b < n -> nth a labels 0 <> nth b labels 0 ->
      (nth b (n_cost nd) zero < w a b)%Z.
Proof. exact sup_cost_lt_cross. Qed.

Theorem C04_sup_forest_arcs_within_class :
  forall (zero top : Z) (n : nat) (w : nat -> nat -> Z) (labels : list nat),
    length labels = n -> tie_free n w zero top ->
    (exists a b, a < n /\ b < n /\ nth a labels 0 <> nth b labels 0) ->
    let nd := sup_fit Z.ltb zero top labels w in
    forall q p, q < n -> nth q (n_pred nd) None = Some p -> nth p labels 0 = nth q labels 0.
Proof. exact sup_link_same_label. Qed.

(* Predicting training row t - distances [d s = w s t] to the other samples ((train, query)
   argument order as in the code) and self-distance [zero] - returns t's label. *)
Theorem C04_sup_predict_train_exact :
  forall (zero top : Z) (n : nat) (w : nat -> nat -> Z) (labels : list nat),
    length labels = n -> tie_free n w zero top ->
    (exists a b, a < n /\ b < n /\ nth a labels 0 <> nth b labels 0) ->
    let nd := sup_fit Z.ltb zero top labels w in
    forall (t : nat) (d : nat -> Z), t < n ->
      d t = zero -> (forall s, s < n -> s <> t -> d s = w s t) ->
      fst (predict_one Z.ltb zero nd d) = nth t labels 0.
Proof. exact sup_predict_train_exact. Qed.

(* The whole training set as one batch: zero resubstitution error. *)
Theorem C04_sup_predict_train_batch_exact :
  forall (zero top : Z) (n : nat) (w : nat -> nat -> Z) (labels : list nat),
    length labels = n -> tie_free n w zero top ->
    (exists a b, a < n /\ b < n /\ nth a labels 0 <> nth b labels 0) ->
    let nd := sup_fit Z.ltb zero top labels w in
    snd (predict_batch Z.ltb zero nd
           (map (fun t => fun s => if Nat.eqb s t then zero else w s t) (seq 0 n))) = labels.
Proof. exact sup_predict_train_batch_exact. Qed.

(* One class only: no prototype is marked (and the competition conquers nothing, see
   C04_example_single_class). *)
Theorem C04_sup_single_class_no_prototypes :
  forall (zero top : Z) (n : nat) (w : nat -> nat -> Z) (labels : list nat),
    1 <= n -> length labels = n ->
    (forall p q, p < n -> q < n -> p <> q -> (w p q < top)%Z) ->
    (forall a b, a < n -> b < n -> nth a labels 0 = nth b labels 0) ->
    forall q, q < n -> nth q (n_status (sup_fit Z.ltb zero top labels w)) false = false.
Proof. exact sup_single_class_no_prototypes. Qed.

(* "Every metric that is a symmetric non-negative dissimilarity with zero self-distance":
   the closed forms for which Props/C08_basic.v states the three facts without side
   conditions on the feature vectors (list generated from that file). *)
Theorem C04_dissimilarity_R_def :
  forall f : list R -> list R -> R,
    dissimilarity_R f <->
    (forall x y, length x = length y -> f x y = f y x)%R /\
    (forall x y, length x = length y -> (1 <= length x)%nat -> 0 <= f x y)%R /\
    (forall x, (1 <= length x)%nat -> f x x = 0)%R.
Proof. exact dissimilarity_R_def. Qed.

Theorem C04_metric_hypotheses_R :
  dissimilarity_R sp_average_euclidean /\
  dissimilarity_R sp_canberra /\
  dissimilarity_R sp_chebyshev /\
  dissimilarity_R sp_clark /\
  dissimilarity_R sp_euclidean /\
  dissimilarity_R sp_gower /\
  dissimilarity_R sp_hamming /\
  dissimilarity_R sp_hassanat /\
  dissimilarity_R sp_hellinger /\
  dissimilarity_R sp_jaccard /\
  dissimilarity_R sp_log_euclidean /\
  dissimilarity_R sp_log_squared_euclidean /\
  dissimilarity_R sp_lorentzian /\
  dissimilarity_R sp_manhattan /\
  dissimilarity_R sp_matusita /\
  dissimilarity_R sp_mean_censored_euclidean /\
  dissimilarity_R sp_non_intersection /\
  dissimilarity_R sp_squared_chord /\
  dissimilarity_R sp_squared_euclidean.
Proof. exact metric_hypotheses_R. Qed.

(* Non-vacuity: five points 0, 2, 6, 14, 30 on a line, classes 0 0 0 1 1, weights = gaps. *)
Theorem C04_example_premises :
  tie_free 5 rx_w 0%Z rx_top /\ length rx_labels = 5 /\
  (exists a b, a < 5 /\ b < 5 /\ nth a rx_labels 0 <> nth b rx_labels 0).
Proof. exact rx_example_premises. Qed.

Theorem C04_example_result :
  rx_top = 1000%Z /\ rx_nd = sup_fit Z.ltb 0%Z rx_top rx_labels rx_w /\
  rx_nd = mkNodes [4; 4; 0; 0; 16]%Z [Some 1; Some 2; None; None; Some 3] [0; 0; 0; 1; 1]
            [0; 0; 0; 1; 1] [false; false; true; true; false]
            [false; false; false; false; false] [2; 3; 1; 0; 4] /\
  n_plabel rx_nd = rx_labels /\
  snd (predict_batch Z.ltb 0%Z rx_nd (map (train_row 0%Z rx_w) (seq 0 5))) = rx_labels.
Proof. exact rx_example_result. Qed.

Theorem C04_example_single_class :
  sup_fit Z.ltb 0%Z rx_top [1; 1; 1; 1; 1] rx_w =
  mkNodes [1000; 2; 4; 8; 16]%Z [None; Some 0; Some 1; Some 2; Some 3] [1; 1; 1; 1; 1]
    [0; 0; 0; 0; 0] [false; false; false; false; false] [false; false; false; false; false] [].
Proof. exact rx_single_class. Qed.

(* The hypothesis cannot be dropped: with ties (four corners of a 2 x 1 rectangle, classes
   0 1 0 0, squared Euclidean distances) sample 3 is conquered by the prototype of class 1. *)
Theorem C04_example_ties_break_it :
  tie_free_b 4 ex3_w 0%Z 1000%Z = false /\
  (forall p q, p < 4 -> q < 4 -> ex3_w p q = ex3_w q p) /\
  (forall p q, p < 4 -> q < 4 -> p <> q -> (0 < ex3_w p q < 1000)%Z) /\
  ex3_labels = [0; 1; 0; 0] /\
  n_plabel (sup_fit Z.ltb 0%Z 1000%Z ex3_labels ex3_w) = [0; 1; 0; 1] /\
  snd (predict_batch Z.ltb 0%Z (sup_fit Z.ltb 0%Z 1000%Z ex3_labels ex3_w)
         (map (train_row 0%Z ex3_w) (seq 0 4))) = [0; 1; 0; 1].
Proof. exact rx_tie_counterexample. Qed.
