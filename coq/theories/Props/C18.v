(* C18 - splitting, merging, loading, parsing and converting preserve every sample.
   Models: Model/Stream.v (splitter.py, parser.py), Model/Converter.v (converter.py, loader.load_json).
   Outside these theorems (exercised exactly by the correspondence harness only):
   np.random.permutation returns a permutation determined by the seed; struct's little-endian
   decoding; the text / JSON print-parse round trip of float32 values; np.savetxt / np.loadtxt. *)
From Coq Require Import List Arith ZArith Permutation.
From OPF Require Import Model.Stream Model.Converter Proofs.StreamPerm Proofs.ConverterLayout.
Import ListNotations.

(* every sample goes to exactly one side, with its own label and its original row index *)
Theorem split_partition :
  forall (A B : Type) (dX : A) (dY : B) (perm : list nat) (h n : nat) (X : list A) (Y : list B),
  length X = n -> length Y = n -> Permutation perm (seq 0 n) -> h <= n ->
  let '(X1, X2, Y1, Y2, I1, I2) := split_with_index dX dY perm h X Y in
  Permutation (combine3 (X1 ++ X2) (Y1 ++ Y2) (I1 ++ I2)) (combine3 X Y (seq 0 n)) /\
  length X1 = h /\ length Y1 = h /\ length X2 = n - h /\ length Y2 = n - h /\
  I1 = firstn h perm /\ I2 = skipn h perm /\ NoDup (I1 ++ I2) /\
  split dX dY perm h X Y = (X1, X2, Y1, Y2).
Proof. exact @split_partition. Qed.

Theorem merge_split :
  forall (A B : Type) (dX : A) (dY : B) (perm : list nat) (h n : nat) (X : list A) (Y : list B),
  length X = n -> length Y = n -> Permutation perm (seq 0 n) -> h <= n ->
  let '(X1, X2, Y1, Y2) := split dX dY perm h X Y in
  let '(Xm, Ym) := merge X1 X2 Y1 Y2 in
  Permutation (combine Xm Ym) (combine X Y) /\ length Xm = n /\ length Ym = n.
Proof. exact @merge_split. Qed.

(* for labels >= 0:  #distinct = max + 1  <->  the label set is exactly {0, .., max} *)
Theorem parse_accepts_iff_sequential : forall data : list (list Z),
  Forall (fun y => (0 <= y)%Z) (labels_of data) ->
  (parse_loader data <> None <->
   forall k : Z, (0 <= k <= zmax (labels_of data))%Z -> In k (labels_of data)).
Proof. exact parse_accepts_iff_sequential. Qed.

(* what is returned: columns 2.. and column 1 *)
Theorem parse_columns : forall (data : list (list Z)) (X : list (list Z)) (Y : list Z),
  parse_loader data = Some (X, Y) ->
  X = map (skipn 2) data /\ Y = map (fun r => nth 1 r 0%Z) data.
Proof. exact parse_columns. Qed.

(* the acceptance test is not "sequential" once a label is negative ({-1, 1, 2} passes) *)
Theorem parse_accepts_nonsequential_with_negative :
  exists data : list (list Z),
    parse_loader data <> None /\
    ~ (forall k : Z, (0 <= k <= zmax (labels_of data))%Z -> In k (labels_of data)).
Proof. exact parse_accepts_nonsequential_with_negative. Qed.

Theorem dat_layout_roundtrip : forall (ds : dataset) (extra : list Z),
  Forall (fun s => length (sfeat s) = ds_nfeat ds) (ds_samples ds) ->
  opf2txt_samples (encode_dat ds ++ extra)
  = Some (map (fun s => sid s :: (slabel s - 1)%Z :: sfeat s) (ds_samples ds)).
Proof. exact dat_layout_roundtrip. Qed.

Theorem three_formats_agree : forall ws : list Z,
  opf2csv_samples ws = opf2txt_samples ws /\
  option_map load_json_rows (opf2json_data ws) = opf2txt_samples ws.
Proof. exact three_formats_agree. Qed.

(* convert -> load -> parse, any of the three formats: accepted iff the shifted labels are
   sequential, and then the features and labels (shifted to start at 0) of every sample, in order *)
Theorem convert_parse_roundtrip :
  forall (ds : dataset) (extra : list Z) (rows : list Z -> option (list (list Z))),
  rows = rows_txt \/ rows = rows_csv \/ rows = rows_json ->
  Forall (fun s => length (sfeat s) = ds_nfeat ds) (ds_samples ds) ->
  Forall (fun s => (1 <= slabel s)%Z) (ds_samples ds) ->
  let Y := map (fun s => (slabel s - 1)%Z) (ds_samples ds) in
  (bind (rows (encode_dat ds ++ extra)) parse_loader <> None
     <-> forall k : Z, (0 <= k <= zmax Y)%Z -> In k Y) /\
  ((forall k : Z, (0 <= k <= zmax Y)%Z -> In k Y) ->
   bind (rows (encode_dat ds ++ extra)) parse_loader = Some (map sfeat (ds_samples ds), Y)).
Proof. exact convert_parse_roundtrip. Qed.

(* non-vacuity: a well-formed 3-sample dataset goes through; a concrete permutation splits *)
Theorem c18_nonvacuous :
  (exists ds, Forall (fun s => length (sfeat s) = ds_nfeat ds) (ds_samples ds) /\
              length (ds_samples ds) = 3 /\
              bind (rows_json (encode_dat ds)) parse_loader <> None) /\
  Permutation [2; 0; 3; 1] (seq 0 4).
Proof. exact c18_nonvacuous. Qed.
