(* C11 (permutation half): "For tie-free data, permuting the order of the training samples
   changes neither any training sample's cost, prototype status or assigned label nor any
   prediction."

   [sigma] / [sigma_inv] are mutually inverse bijections of 0..n-1; position p of the
   permuted run holds original sample [sigma p], i.e. the permuted run is trained on
   [w' p q := w (sigma p) (sigma q)] and [labels' := [labels[sigma 0]; ...; labels[sigma (n-1)]]].
   Hypotheses as in Props/C04.v ([tie_free], spelled out in C04_tie_free_def; two classes).
   For predictions the query is in general position: its distances to the training samples
   are pairwise distinct, distinct from every training weight, and not below [zero]; then
   all minimisers of max(cost, distance) carry one label (C11_equal_value_same_label), so the
   result does not depend on which of them the scan meets first.  (The rescaling half of C11
   is proved separately, Proofs/Rescale*.v.) *)
From Coq Require Import ZArith List.
From OPF Require Import Base.Lists Model.Heap Model.Sup Spec.Paths Spec.Trees
  Proofs.ResubBase Proofs.Resub Proofs.PermBase Proofs.Perm Proofs.ResubExample.
Import ListNotations.

Theorem C11_perm_invariant_prototypes :
  forall (zero top : Z) (n : nat) (w : nat -> nat -> Z) (labels : list nat)
         (sigma sigma_inv : nat -> nat),
    length labels = n -> tie_free n w zero top ->
    (exists a b, a < n /\ b < n /\ nth a labels 0 <> nth b labels 0) ->
    ((forall x, x < n -> sigma x < n) /\ (forall x, x < n -> sigma_inv x < n) /\
     (forall x, x < n -> sigma_inv (sigma x) = x) /\ (forall x, x < n -> sigma (sigma_inv x) = x)) ->
    let w' := fun p q => w (sigma p) (sigma q) in
    let labels' := map (fun p => nth (sigma p) labels 0) (seq 0 n) in
    let nd := sup_fit Z.ltb zero top labels w in
    let nd' := sup_fit Z.ltb zero top labels' w' in
    forall p, p < n -> nth p (n_status nd') false = nth (sigma p) (n_status nd) false.
Proof. exact perm_invariant_prototypes_sec. Qed.

Theorem C11_perm_invariant_costs :
  forall (zero top : Z) (n : nat) (w : nat -> nat -> Z) (labels : list nat)
         (sigma sigma_inv : nat -> nat),
    length labels = n -> tie_free n w zero top ->
    (exists a b, a < n /\ b < n /\ nth a labels 0 <> nth b labels 0) ->
    ((forall x, x < n -> sigma x < n) /\ (forall x, x < n -> sigma_inv x < n) /\
     (forall x, x < n -> sigma_inv (sigma x) = x) /\ (forall x, x < n -> sigma (sigma_inv x) = x)) ->
    let w' := fun p q => w (sigma p) (sigma q) in
    let labels' := map (fun p => nth (sigma p) labels 0) (seq 0 n) in
    let nd := sup_fit Z.ltb zero top labels w in
    let nd' := sup_fit Z.ltb zero top labels' w' in
    forall p, p < n -> nth p (n_cost nd') zero = nth (sigma p) (n_cost nd) zero.
Proof. exact perm_invariant_costs_sec. Qed.

Theorem C11_perm_invariant_labels :
  forall (zero top : Z) (n : nat) (w : nat -> nat -> Z) (labels : list nat)
         (sigma sigma_inv : nat -> nat),
    length labels = n -> tie_free n w zero top ->
    (exists a b, a < n /\ b < n /\ nth a labels 0 <> nth b labels 0) ->
    ((forall x, x < n -> sigma x < n) /\ (forall x, x < n -> sigma_inv x < n) /\
     (forall x, x < n -> sigma_inv (sigma x) = x) /\ (forall x, x < n -> sigma (sigma_inv x) = x)) ->
    let w' := fun p q => w (sigma p) (sigma q) in
    let labels' := map (fun p => nth (sigma p) labels 0) (seq 0 n) in
    let nd := sup_fit Z.ltb zero top labels w in
    let nd' := sup_fit Z.ltb zero top labels' w' in
    forall p, p < n -> nth p (n_plabel nd') 0 = nth (sigma p) (n_plabel nd) 0.
Proof. exact perm_invariant_labels_sec. Qed.

(* [d s] is the distance between original sample s and the query; the permuted run sees
   [d' p := d (sigma p)]. *)
Theorem C11_perm_invariant_predictions :
  forall (zero top : Z) (n : nat) (w : nat -> nat -> Z) (labels : list nat)
         (sigma sigma_inv : nat -> nat),
    length labels = n -> tie_free n w zero top ->
    (exists a b, a < n /\ b < n /\ nth a labels 0 <> nth b labels 0) ->
    ((forall x, x < n -> sigma x < n) /\ (forall x, x < n -> sigma_inv x < n) /\
     (forall x, x < n -> sigma_inv (sigma x) = x) /\ (forall x, x < n -> sigma (sigma_inv x) = x)) ->
    let w' := fun p q => w (sigma p) (sigma q) in
    let labels' := map (fun p => nth (sigma p) labels 0) (seq 0 n) in
    let nd := sup_fit Z.ltb zero top labels w in
    let nd' := sup_fit Z.ltb zero top labels' w' in
    forall d : nat -> Z,
      ((forall s, s < n -> (zero <= d s)%Z) /\
       (forall s s', s < n -> s' < n -> s <> s' -> d s <> d s') /\
       (forall s a b, s < n -> a < n -> b < n -> a <> b -> d s <> w a b)) ->
      fst (predict_one Z.ltb zero nd' (fun p => d (sigma p))) = fst (predict_one Z.ltb zero nd d).
Proof. exact perm_invariant_predictions_sec. Qed.

(* Two samples with the same positive cost belong to one class (same bottleneck arc, hence
   the same tree of the forest). *)
Theorem C11_equal_cost_same_class :
  forall (zero top : Z) (n : nat) (w : nat -> nat -> Z) (labels : list nat),
    length labels = n -> tie_free n w zero top ->
    (exists a b, a < n /\ b < n /\ nth a labels 0 <> nth b labels 0) ->
    let nd := sup_fit Z.ltb zero top labels w in
    forall s s', s < n -> s' < n ->
      nth s (n_cost nd) zero = nth s' (n_cost nd) zero -> (zero < nth s (n_cost nd) zero)%Z ->
      nth s labels 0 = nth s' labels 0.
Proof. exact sup_equal_cost_same_class. Qed.

(* For a query in general position, all samples offering the same value max(cost, d) carry
   one label. *)
Theorem C11_equal_value_same_label :
  forall (zero top : Z) (n : nat) (w : nat -> nat -> Z) (labels : list nat),
    length labels = n -> tie_free n w zero top ->
    (exists a b, a < n /\ b < n /\ nth a labels 0 <> nth b labels 0) ->
    let nd := sup_fit Z.ltb zero top labels w in
    forall d : nat -> Z,
      ((forall s, s < n -> (zero <= d s)%Z) /\
       (forall s s', s < n -> s' < n -> s <> s' -> d s <> d s') /\
       (forall s a b, s < n -> a < n -> b < n -> a <> b -> d s <> w a b)) ->
      forall s s', s < n -> s' < n ->
        Z.max (nth s (n_cost nd) zero) (d s) = Z.max (nth s' (n_cost nd) zero) (d s') ->
        nth s labels 0 = nth s' labels 0.
Proof. exact sup_equal_val_same_label. Qed.

(* Non-vacuity: the instance of C04_example_premises, presented in the order 3 0 4 1 2. *)
Theorem C11_perm_example_premises :
  tie_free 5 rx_w 0%Z rx_top /\ length rx_labels = 5 /\
  (exists a b, a < 5 /\ b < 5 /\ nth a rx_labels 0 <> nth b rx_labels 0) /\
  map rx_sigma (seq 0 5) = [3; 0; 4; 1; 2] /\
  ((forall x, x < 5 -> rx_sigma x < 5) /\ (forall x, x < 5 -> rx_sigma_inv x < 5) /\
   (forall x, x < 5 -> rx_sigma_inv (rx_sigma x) = x) /\
   (forall x, x < 5 -> rx_sigma (rx_sigma_inv x) = x)) /\
  map rx_d (seq 0 5) = [9; 7; 3; 5; 21]%Z /\
  ((forall s, s < 5 -> (0 <= rx_d s)%Z) /\
   (forall s s', s < 5 -> s' < 5 -> s <> s' -> rx_d s <> rx_d s') /\
   (forall s a b, s < 5 -> a < 5 -> b < 5 -> a <> b -> rx_d s <> rx_w a b)).
Proof. exact rx_perm_example_premises. Qed.

Theorem C11_perm_example_result :
  (rx_top = 1000%Z /\
   rx_nd = sup_fit Z.ltb 0%Z rx_top rx_labels rx_w /\
   rx_nd' = sup_fit Z.ltb 0%Z rx_top rx_labels' rx_w' /\
   rx_w' = (fun p q => rx_w (rx_sigma p) (rx_sigma q)) /\
   rx_labels' = map (fun p => nth (rx_sigma p) rx_labels 0) (seq 0 5)) /\
  (rx_labels' = [1; 0; 1; 0; 0] /\
   rx_nd' = mkNodes [0; 4; 16; 4; 0]%Z [None; Some 3; Some 0; Some 4; None] [1; 0; 1; 0; 0]
              [1; 0; 1; 0; 0] [true; false; false; false; true]
              [false; false; false; false; false] [0; 4; 3; 1; 2]) /\
  (map (fun p => nth (rx_sigma p) (n_status rx_nd) false) (seq 0 5) = n_status rx_nd' /\
   map (fun p => nth (rx_sigma p) (n_cost rx_nd) 0%Z) (seq 0 5) = n_cost rx_nd' /\
   map (fun p => nth (rx_sigma p) (n_plabel rx_nd) 0) (seq 0 5) = n_plabel rx_nd') /\
  (predict_one Z.ltb 0%Z rx_nd rx_d = (0, Some 2) /\
   predict_one Z.ltb 0%Z rx_nd' (fun p => rx_d (rx_sigma p)) = (0, Some 4) /\
   rx_sigma 4 = 2).
Proof. exact rx_perm_example_result. Qed.
