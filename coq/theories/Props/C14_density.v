(* C14 (arithmetic part): "x's density is computed from those k distances with the model's stored
   constant and density range".  Statements about [query_density] of Model/Pdf.v at [ROps];
   [eps] is c.EPSILON, [mn]/[mx]/[c] the values recorded by calculate_pdf. *)
From Coq Require Import Reals List ZArith.
From OPF Require Import Base.NumOps Model.Pdf Proofs.PdfBase Proofs.PdfReal.
Import ListNotations.
Local Open Scope R_scope.

Theorem C14_query_density_spec (eps mn mx : R) (k : nat) (e : nat -> R) :
  query_density ROps 1000 eps mn mx k e =
  (Rsum_upto k e / INR k - mn) * (1000 - 1) / (mx - mn + eps) + 1.
Proof. exact (query_density_spec eps mn mx k e). Qed.

(* the expression tree exactly as evaluated *)
Theorem C14_query_density_tree (eps mn mx : R) (k : nat) (e : nat -> R) :
  query_density ROps 1000 eps mn mx k e =
  999 * (Rsum_upto k e / INR k - mn) / ((mx - mn) + eps) + 1.
Proof. exact (query_density_tree eps mn mx k e). Qed.

Theorem C14_query_density_props (eps mn mx : R) (k : nat) (e e' : nat -> R) :
  0 < eps -> mn <= mx ->
  let s := Rsum_upto k e / INR k in
  let s' := Rsum_upto k e' / INR k in
  0 < mx - mn + eps /\
  (s < s' -> query_density ROps 1000 eps mn mx k e < query_density ROps 1000 eps mn mx k e') /\
  (mn <= s <= mx -> 1 <= query_density ROps 1000 eps mn mx k e < 1000).
Proof. exact (query_density_props eps mn mx k e e'). Qed.

Theorem C14_query_density_of_fit (fmax : R) (n k : nat) (gdens : R) (e : nat -> nat -> R)
    (c mn mx : R) (dc : list (R * R)) (eps : R) (kq : nat) (d : nat -> R) :
  (1 <= n)%nat ->
  calculate_pdf ROps fmax 1000 n k gdens e = (c, mn, mx, dc) ->
  0 < eps ->
  let s := Rsum_upto kq (fun l => exp (- d l / c)) / INR kq in
  let q := query_density ROps 1000 eps mn mx kq (fun l => exp (- d l / c)) in
  c = 2 * gdens / 9 /\
  q = (s - mn) * (1000 - 1) / (mx - mn + eps) + 1 /\
  0 < mx - mn + eps /\
  (mn <= s <= mx -> 1 <= q < 1000) /\
  (s < mn -> q < 1) /\
  (mx < s -> (1000 - 1) * (mx - mn) / (mx - mn + eps) + 1 < q).
Proof. exact (query_density_of_fit fmax n k gdens e c mn mx dc eps kq d). Qed.
