From Coq Require Import ZArith List Bool PrimFloat SpecFloat FloatOps.
From OPF Require Import Base.Lists Base.TotalOrder Model.Heap Model.Sup Spec.Paths.
From Coq Require Import Permutation.
From OPF Require Import Proofs.FitBase Proofs.OrderEmbed Proofs.LiftSup Proofs.WeakOrder Proofs.LiftSupWeak Proofs.FloatOrder
  Proofs.FloatRank Proofs.FitExample Proofs.FloatRankExample.
Import ListNotations.

(* The order that the implementation's comparisons put on its weights.

   Costs, arc weights and densities are binary64 numbers compared with Python's  <  >  ==  != .
   On Coq's primitive floats these are  PrimFloat.ltb x y  (x < y;  x > y  is  ltb y x)  and
   PrimFloat.eqb x y  (x == y), specified by the standard library's FloatAxioms.ltb_spec /
   eqb_spec.  The models are written over an abstract  ltb  and the theorems assume a
   [strict_total_order] (Base/TotalOrder.v).  This file states what is true of the floats:

     1. [ltb] is a strict weak order on the non-NaN floats; incomparability is [eqb]; the classes
        are the singletons and {-0, +0};
     2. on the canonical non-NaN floats [nfloat] (one representative per class, [canon]) it is a
        [strict_total_order], so every Cxx_anyorder theorem applies at W := nfloat;
     3. the IEEE code [fenc] (harness/common.py: enc) and its dense rank among the codes of a finite
        list ([ranker]; harness/common.py: Ranker) preserve and reflect [ltb] and identify exactly
        the [eqb]-equal floats; so does the counting rank [rk] of Proofs/OrderEmbed.v;
     4. hence supervised training run on float weights through [PrimFloat.ltb] and run on the
        integer ranks yield the same predecessors, labels, prototype flags and conquest order, and
        costs that are the ranks of the float costs: "the model on ranks agrees with the code on
        floats" is a theorem about [PrimFloat.ltb], with no canonicalisation of -0 (the
        abstraction theorem only needs the two comparisons to agree; Leibniz antisymmetry, which
        the floats lack because of the two zeros, is used by Proofs/OrderEmbed.rk_ltb through
        [so_trichotomy] only to conclude  rk a = rk b  from incomparability - for a weak order that
        follows from "incomparable elements have the same elements below them").

     5. C01 itself: for a strict weak order on the occurring weights (zero <= w p q < top, a prototype
        exists) the trained table is an optimum-path forest - the statement of C01_sup_fit_anyorder with
        the equalities between costs read up to "neither below the other" ([eqv]; on floats: ==);
        instance: binary64 weights without NaN, zero = 0.0, top = FLOAT_MAX, under PrimFloat.ltb.

   Print Assumptions: the primitive type and operations, and FloatAxioms.ltb_spec, eqb_spec,
   SF2Prim_Prim2SF (injectivity of the decoding), Prim2SF_valid (only where [fenc] occurs). *)

(* ---------- 1. strict weak order ---------- *)

Theorem C01_float_ltb_irreflexive :
  forall x : float, PrimFloat.ltb x x = false.
Proof. exact ltb_irrefl. Qed.

Theorem C01_float_ltb_asymmetric :
  forall x y : float, PrimFloat.ltb x y = true -> PrimFloat.ltb y x = false.
Proof. exact ltb_asym. Qed.

Theorem C01_float_ltb_transitive :
  forall x y z : float, PrimFloat.ltb x y = true -> PrimFloat.ltb y z = true -> PrimFloat.ltb x z = true.
Proof. exact ltb_trans. Qed.

(* "not below" is transitive through a non-NaN middle element *)
Theorem C01_float_ltb_negatively_transitive :
  forall x y z : float, is_nan y = false ->
    PrimFloat.ltb x y = false -> PrimFloat.ltb y z = false -> PrimFloat.ltb x z = false.
Proof. exact ltb_ntrans. Qed.

Theorem C01_float_incomparability_transitive :
  forall x y z : float, is_nan y = false ->
    PrimFloat.ltb x y = false -> PrimFloat.ltb y x = false ->
    PrimFloat.ltb y z = false -> PrimFloat.ltb z y = false ->
    PrimFloat.ltb x z = false /\ PrimFloat.ltb z x = false.
Proof. exact incomparable_trans. Qed.

(* the hypothesis cannot be dropped: NaN is incomparable to everything *)
Theorem C01_float_nan_incomparable :
  PrimFloat.ltb 1 nan = false /\ PrimFloat.ltb nan 1 = false /\
  PrimFloat.ltb nan 2 = false /\ PrimFloat.ltb 2 nan = false /\ PrimFloat.ltb 1 2 = true.
Proof. exact (conj eq_refl (conj eq_refl (conj eq_refl (conj eq_refl eq_refl)))). Qed.

Theorem C01_float_weak_order :
  strict_weak_order_on (fun x : float => is_nan x = false) PrimFloat.ltb.
Proof. exact float_weak_order. Qed.

(* Python's == is "neither below the other" *)
Theorem C01_float_eqb_iff_incomparable :
  forall x y : float, is_nan x = false -> is_nan y = false ->
    (PrimFloat.eqb x y = true <-> (PrimFloat.ltb x y = false /\ PrimFloat.ltb y x = false)).
Proof. exact eqb_iff_incomparable. Qed.

Theorem C01_float_eqb_equivalence :
  (forall x : float, is_nan x = false -> PrimFloat.eqb x x = true) /\
  (forall x y : float, PrimFloat.eqb x y = PrimFloat.eqb y x) /\
  (forall x y z : float, PrimFloat.eqb x y = true -> PrimFloat.eqb y z = true -> PrimFloat.eqb x z = true).
Proof. exact (conj eqb_refl (conj eqb_sym eqb_trans)). Qed.

Theorem C01_float_ltb_compatible_with_eqb :
  forall x x' y y' : float, PrimFloat.eqb x x' = true -> PrimFloat.eqb y y' = true ->
    PrimFloat.ltb x y = PrimFloat.ltb x' y'.
Proof. exact ltb_compat. Qed.

(* the classes of ==: a float alone, or the two zeros *)
Theorem C01_float_eqb_classes :
  forall x y : float,
    PrimFloat.eqb x y = true <->
    (is_nan x = false /\
     (x = y \/ (exists s1 s2, Prim2SF x = S754_zero s1 /\ Prim2SF y = S754_zero s2))).
Proof. exact eqb_classes. Qed.

Theorem C01_float_trichotomy :
  forall x y : float, is_nan x = false -> is_nan y = false ->
    (PrimFloat.ltb x y = true /\ PrimFloat.eqb x y = false /\ PrimFloat.ltb y x = false) \/
    (PrimFloat.ltb x y = false /\ PrimFloat.eqb x y = true /\ PrimFloat.ltb y x = false) \/
    (PrimFloat.ltb x y = false /\ PrimFloat.eqb x y = false /\ PrimFloat.ltb y x = true).
Proof. exact float_trichotomy. Qed.

(* ---------- 2. canonical representatives; a strict total order ---------- *)

(* canon x = if x == 0 then +0 else x *)
Theorem C01_float_canon :
  (forall x : float, is_nan x = false -> PrimFloat.eqb (canon x) x = true) /\
  (forall x : float, is_nan x = false -> is_nan (canon x) = false) /\
  (forall x : float, canon (canon x) = canon x) /\
  (forall x y : float, is_nan x = false -> is_nan y = false ->
     (canon x = canon y <-> PrimFloat.eqb x y = true)) /\
  (forall x y : float, is_nan x = false -> is_nan y = false ->
     PrimFloat.ltb (canon x) (canon y) = PrimFloat.ltb x y).
Proof. exact (conj canon_eqb (conj canon_nn (conj canon_idem (conj canon_eq_iff canon_ltb)))). Qed.

(* nfloat = { x : float | x is neither NaN nor -0 },  nfltb a b = ltb (nfval a) (nfval b) *)
Theorem C01_float_canonical_strict_total_order : strict_total_order nfltb.
Proof. exact nfloat_order. Qed.

(* every non-NaN float is == to the value of a canonical float, with the same comparisons *)
Theorem C01_float_to_canonical :
  forall (x y : float) (Hx : is_nan x = false) (Hy : is_nan y = false),
    PrimFloat.eqb (nfval (to_nfloat x Hx)) x = true /\
    nfltb (to_nfloat x Hx) (to_nfloat y Hy) = PrimFloat.ltb x y.
Proof. exact (fun x y Hx Hy => conj (to_nfloat_eqb x Hx) (to_nfloat_ltb x y Hx Hy)). Qed.

(* ---------- 3. the rank encodings are order embeddings ---------- *)

(* harness/common.py: enc.  sfenc reads the integer off the decoded value:
   0 for both zeros, +-(2047 * 2^52) for the infinities, +-((e + 1074) * 2^52 + m) for m * 2^e *)
Theorem C01_float_enc_order_embedding :
  forall x y : float, is_nan x = false -> is_nan y = false ->
    PrimFloat.ltb x y = Z.ltb (fenc x) (fenc y) /\
    PrimFloat.eqb x y = Z.eqb (fenc x) (fenc y) /\
    (- (2047 * 2 ^ 52) <= fenc x <= 2047 * 2 ^ 52)%Z.
Proof. exact (fun x y Hx Hy => conj (fenc_ltb x y Hx Hy) (conj (fenc_eqb x y Hx Hy) (fenc_range x Hx))). Qed.

(* the definition agrees with struct.pack(">d", x) on these bit patterns *)
Theorem C01_float_enc_bit_patterns :
  fenc 1 = 0x3FF0000000000000%Z /\ fenc 0 = 0%Z /\ fenc (-0) = 0%Z /\
  fenc (-2.5) = (- 0x4004000000000000)%Z /\ fenc 0x1p-1074 = 1%Z /\
  fenc 0x1.fffffffffffffp+1023 = 0x7FEFFFFFFFFFFFFF%Z /\
  fenc infinity = 0x7FF0000000000000%Z /\ fenc neg_infinity = (- 0x7FF0000000000000)%Z.
Proof.
  exact (conj fenc_one (conj (proj2 fenc_mzero) (conj (proj1 fenc_mzero)
        (conj fenc_minus_two_and_a_half (conj fenc_min_subnormal (conj fenc_float_max fenc_infinity)))))).
Qed.

(* harness/common.py: Ranker.  ranker vals x = number of distinct codes of vals strictly below fenc x *)
Theorem C01_float_ranker_order_embedding :
  forall vals : list float,
    Forall (fun x => is_nan x = false) vals ->
    let r := ranker vals in
    (forall x y, In x vals -> In y vals -> PrimFloat.ltb x y = Z.ltb (r x) (r y)) /\
    (forall x y, In x vals -> In y vals -> (r x = r y <-> PrimFloat.eqb x y = true)) /\
    (forall x, In x vals -> (0 <= r x < Z.of_nat (length (nodup Z.eq_dec (map fenc vals))))%Z).
Proof. exact ranker_embedding. Qed.

(* the counting rank of Proofs/OrderEmbed.v (C01_finite_order_embedding) on floats *)
Theorem C01_float_rank_embedding :
  forall vals : list float,
    Forall (fun x => is_nan x = false) vals ->
    let r := rk PrimFloat.ltb vals in
    (forall x y, In x vals -> In y vals -> PrimFloat.ltb x y = Z.ltb (r x) (r y)) /\
    (forall x y, In x vals -> In y vals -> (r x = r y <-> PrimFloat.eqb x y = true)) /\
    (forall x, (0 <= r x <= Z.of_nat (length vals))%Z).
Proof. exact float_rank_embedding. Qed.

(* the same for every strict weak order *)
Theorem C01_finite_weak_order_embedding :
  forall (W : Type) (P : W -> Prop) (ltb : W -> W -> bool),
    strict_weak_order_on P ltb ->
    forall vals : list W, Forall P vals -> exists f : W -> Z,
      (forall a b, In a vals -> In b vals -> Z.ltb (f a) (f b) = ltb a b) /\
      (forall a b, In a vals -> In b vals -> (f a = f b <-> (ltb a b = false /\ ltb b a = false))) /\
      (forall a, (0 <= f a <= Z.of_nat (length vals))%Z).
Proof. exact (@finite_weak_order_embedding). Qed.

(* ---------- 4. training on floats = training on ranks ---------- *)

(* C01_sup_fit_rank_related for a strict weak order on the values that occur *)
Theorem C01_sup_fit_rank_related_weak_order :
  forall (W : Type) (P : W -> Prop) (ltb : W -> W -> bool),
    strict_weak_order_on P ltb ->
    forall (zero top : W) (labels : list nat) (w : nat -> nat -> W),
      let n := length labels in
      let vals := zero :: top :: weight_vals n w in
      let r := rk ltb vals in
      Forall P vals ->
      let a := sup_fit ltb zero top labels w in
      let b := sup_fit Z.ltb (r zero) (r top) labels (fun p q => r (w p q)) in
      Forall2 (fun x z => In x vals /\ z = r x) (n_cost a) (n_cost b) /\
      n_pred a = n_pred b /\ n_label a = n_label b /\ n_plabel a = n_plabel b /\
      n_status a = n_status b /\ n_relevant a = n_relevant b /\ n_order a = n_order b.
Proof. exact (@sup_fit_rank_related_w). Qed.

(* floats, the harness's dense ranks: zero, top (FLOAT_MAX) and the weights below n not NaN *)
Theorem C01_sup_fit_float_ranker :
  forall (zero top : float) (labels : list nat) (w : nat -> nat -> float),
    let n := length labels in
    let vals := zero :: top :: weight_vals n w in
    Forall (fun x => is_nan x = false) vals ->
    let r := ranker vals in
    let a := sup_fit PrimFloat.ltb zero top labels w in
    let b := sup_fit Z.ltb (r zero) (r top) labels (fun p q => r (w p q)) in
    Forall2 (fun x z => In x vals /\ z = r x) (n_cost a) (n_cost b) /\
    n_pred a = n_pred b /\ n_label a = n_label b /\ n_plabel a = n_plabel b /\
    n_status a = n_status b /\ n_relevant a = n_relevant b /\ n_order a = n_order b.
Proof. exact sup_fit_float_ranker. Qed.

(* floats, counting ranks *)
Theorem C01_sup_fit_float_rank_related :
  forall (zero top : float) (labels : list nat) (w : nat -> nat -> float),
    let n := length labels in
    let vals := zero :: top :: weight_vals n w in
    Forall (fun x => is_nan x = false) vals ->
    let r := rk PrimFloat.ltb vals in
    let a := sup_fit PrimFloat.ltb zero top labels w in
    let b := sup_fit Z.ltb (r zero) (r top) labels (fun p q => r (w p q)) in
    Forall2 (fun x z => In x vals /\ z = r x) (n_cost a) (n_cost b) /\
    n_pred a = n_pred b /\ n_label a = n_label b /\ n_plabel a = n_plabel b /\
    n_status a = n_status b /\ n_relevant a = n_relevant b /\ n_order a = n_order b.
Proof. exact sup_fit_float_rk. Qed.

(* floats, the IEEE codes themselves *)
Theorem C01_sup_fit_float_enc :
  forall (zero top : float) (labels : list nat) (w : nat -> nat -> float),
    let n := length labels in
    let vals := zero :: top :: weight_vals n w in
    Forall (fun x => is_nan x = false) vals ->
    let a := sup_fit PrimFloat.ltb zero top labels w in
    let b := sup_fit Z.ltb (fenc zero) (fenc top) labels (fun p q => fenc (w p q)) in
    Forall2 (fun x z => In x vals /\ z = fenc x) (n_cost a) (n_cost b) /\
    n_pred a = n_pred b /\ n_label a = n_label b /\ n_plabel a = n_plabel b /\
    n_status a = n_status b /\ n_relevant a = n_relevant b /\ n_order a = n_order b.
Proof. exact sup_fit_float_enc. Qed.

(* any integer coding that orders the occurring values as ltb does (no order law needed) *)
Theorem C01_sup_fit_float_coded :
  forall (zero top : float) (labels : list nat) (w : nat -> nat -> float) (f : float -> Z),
    let n := length labels in
    let vals := zero :: top :: weight_vals n w in
    (forall x y, In x vals -> In y vals -> Z.ltb (f x) (f y) = PrimFloat.ltb x y) ->
    let a := sup_fit PrimFloat.ltb zero top labels w in
    let b := sup_fit Z.ltb (f zero) (f top) labels (fun p q => f (w p q)) in
    Forall2 (fun x z => In x vals /\ z = f x) (n_cost a) (n_cost b) /\
    n_pred a = n_pred b /\ n_label a = n_label b /\ n_plabel a = n_plabel b /\
    n_status a = n_status b /\ n_relevant a = n_relevant b /\ n_order a = n_order b.
Proof. exact sup_fit_float_coded. Qed.

(* floats versus canonical floats (nf x = canon x as an nfloat): the run on the raw floats and the run
   on W := nfloat - to which C01_sup_fit_anyorder applies through C01_float_canonical_strict_total_order -
   have the same discrete outputs, and the canonical cost is the canon of the float cost *)
Theorem C01_sup_fit_float_canonical :
  forall (zero top : float) (labels : list nat) (w : nat -> nat -> float),
    let n := length labels in
    let vals := zero :: top :: weight_vals n w in
    Forall (fun x => is_nan x = false) vals ->
    let a := sup_fit PrimFloat.ltb zero top labels w in
    let b := sup_fit nfltb (nf zero) (nf top) labels (fun p q => nf (w p q)) in
    Forall2 (fun x c => In x vals /\ c = nf x) (n_cost a) (n_cost b) /\
    n_pred a = n_pred b /\ n_label a = n_label b /\ n_plabel a = n_plabel b /\
    n_status a = n_status b /\ n_relevant a = n_relevant b /\ n_order a = n_order b.
Proof. exact sup_fit_float_canonical. Qed.

Theorem C01_float_nf :
  (forall x : float, is_nan x = false -> nfval (nf x) = canon x) /\
  (forall x y : float, is_nan x = false -> is_nan y = false -> nfltb (nf x) (nf y) = PrimFloat.ltb x y) /\
  (forall a : nfloat, nf (nfval a) = a).
Proof. exact (conj nf_val (conj nf_ltb nf_nfval)). Qed.

(* ---------- 5. C01 itself, for a strict weak order and for the floats ---------- *)

(* C01_sup_fit_anyorder with every equality between COSTS weakened to
   eqv ltb a b := ltb a b = false /\ ltb b a = false  ("==" on floats: C01_float_eqv_is_eqb);
   everything else - permutation, predecessors, labels, root paths, order - as in C01 *)
Theorem C01_sup_fit_weak_order :
  forall (W : Type) (P : W -> Prop) (ltb : W -> W -> bool),
    strict_weak_order_on P ltb ->
    forall (zero top : W) (labels : list nat) (w : nat -> nat -> W),
    let n := length labels in
    let vals := zero :: top :: weight_vals n w in
    let fp := find_prototypes ltb top n w (nodes_init zero labels) in
    let isproto q := nth q (n_status fp) false = true in
    Forall P vals ->
    ltb zero top = true ->
    (forall p q, (p < n)%nat -> (q < n)%nat -> p <> q ->
       ltb (w p q) zero = false /\ ltb (w p q) top = true) ->
    (exists s, (s < n)%nat /\ isproto s) ->
    let nd := sup_fit ltb zero top labels w in
    let cost q := nth q (n_cost nd) zero in
    let pred q := nth q (n_pred nd) None in
    let plabel q := nth q (n_plabel nd) 0%nat in
    (Permutation (n_order nd) (seq 0 n) /\
     (forall i j, (i < j)%nat -> (j < n)%nat ->
        ltb (cost (nth j (n_order nd) 0%nat)) (cost (nth i (n_order nd) 0%nat)) = false) /\
     (forall q, (q < n)%nat -> isproto q ->
        pred q = None /\ eqv ltb (cost q) zero /\ plabel q = nth q labels 0%nat) /\
     (forall q, (q < n)%nat -> ~ isproto q ->
        exists p, pred q = Some p /\ (p < n)%nat /\ p <> q /\
          eqv ltb (cost q) (wmax ltb (cost p) (w p q)) /\ plabel q = plabel p /\ before (n_order nd) p q) /\
     (forall q, (q < n)%nat ->
        exists r k, (r < n)%nat /\ isproto r /\ reaches pred q r k /\ pred r = None /\
          (k < n)%nat /\ plabel q = nth r labels 0%nat) /\
     (forall q s pi, (q < n)%nat -> (s < n)%nat -> isproto s -> path_from_to n s q pi ->
        ltb (pathmaxW ltb w zero pi) (cost q) = false) /\
     (forall q, (q < n)%nat -> exists s pi, (s < n)%nat /\ isproto s /\ path_from_to n s q pi /\
        eqv ltb (pathmaxW ltb w zero pi) (cost q))) /\
    n_status nd = n_status fp /\ n_label nd = labels.
Proof. exact (@sup_fit_weak_order). Qed.

(* the implementation's setting: binary64 weights, zero = 0.0, top = FLOAT_MAX, comparisons of Python floats *)
Theorem C01_sup_fit_float_optimum_path_forest :
  forall (zero top : float) (labels : list nat) (w : nat -> nat -> float),
    let n := length labels in
    let vals := zero :: top :: weight_vals n w in
    let fp := find_prototypes PrimFloat.ltb top n w (nodes_init zero labels) in
    let isproto q := nth q (n_status fp) false = true in
    Forall (fun x => is_nan x = false) vals ->
    PrimFloat.ltb zero top = true ->
    (forall p q, (p < n)%nat -> (q < n)%nat -> p <> q ->
       PrimFloat.ltb (w p q) zero = false /\ PrimFloat.ltb (w p q) top = true) ->
    (exists s, (s < n)%nat /\ isproto s) ->
    let nd := sup_fit PrimFloat.ltb zero top labels w in
    let cost q := nth q (n_cost nd) zero in
    let pred q := nth q (n_pred nd) None in
    let plabel q := nth q (n_plabel nd) 0%nat in
    (Permutation (n_order nd) (seq 0 n) /\
     (forall i j, (i < j)%nat -> (j < n)%nat ->
        PrimFloat.ltb (cost (nth j (n_order nd) 0%nat)) (cost (nth i (n_order nd) 0%nat)) = false) /\
     (forall q, (q < n)%nat -> isproto q ->
        pred q = None /\ eqv PrimFloat.ltb (cost q) zero /\ plabel q = nth q labels 0%nat) /\
     (forall q, (q < n)%nat -> ~ isproto q ->
        exists p, pred q = Some p /\ (p < n)%nat /\ p <> q /\
          eqv PrimFloat.ltb (cost q) (wmax PrimFloat.ltb (cost p) (w p q)) /\
          plabel q = plabel p /\ before (n_order nd) p q) /\
     (forall q, (q < n)%nat ->
        exists r k, (r < n)%nat /\ isproto r /\ reaches pred q r k /\ pred r = None /\
          (k < n)%nat /\ plabel q = nth r labels 0%nat) /\
     (forall q s pi, (q < n)%nat -> (s < n)%nat -> isproto s -> path_from_to n s q pi ->
        PrimFloat.ltb (pathmaxW PrimFloat.ltb w zero pi) (cost q) = false) /\
     (forall q, (q < n)%nat -> exists s pi, (s < n)%nat /\ isproto s /\ path_from_to n s q pi /\
        eqv PrimFloat.ltb (pathmaxW PrimFloat.ltb w zero pi) (cost q))) /\
    n_status nd = n_status fp /\ n_label nd = labels.
Proof. exact sup_fit_float_opf. Qed.

Theorem C01_float_eqv_is_eqb :
  forall a b : float, is_nan a = false -> is_nan b = false ->
    (eqv PrimFloat.ltb a b <-> PrimFloat.eqb a b = true).
Proof. exact eqv_float_eqb. Qed.

(* on a strict total order eqv is Leibniz equality: C01_sup_fit_weak_order gives back C01_sup_fit_anyorder *)
Theorem C01_eqv_total_order :
  forall (W : Type) (ltb : W -> W -> bool),
    strict_total_order ltb -> forall a b : W, eqv ltb a b <-> a = b.
Proof. exact (@eqv_total). Qed.

(* ---------- non-vacuity: five samples, weights with ties, both zeros, top = FLOAT_MAX ---------- *)

Theorem C01_float_example_premises :
  Forall (fun x => is_nan x = false) (0%float :: fmax :: weight_vals (length ex_labels) exfl_w) /\
  In (-0)%float exfl_vals /\ In 0%float exfl_vals /\ (-0)%float <> 0%float /\
  PrimFloat.eqb (-0) 0 = true /\ PrimFloat.ltb (-0) 0 = false /\ PrimFloat.ltb 0 (-0) = false.
Proof. exact (conj exfl_vals_nn exfl_both_zeros). Qed.

Theorem C01_float_example_opf_premises :
  PrimFloat.ltb 0 fmax = true /\
  (forall p q, (p < length ex_labels)%nat -> (q < length ex_labels)%nat -> p <> q ->
     PrimFloat.ltb (exfl_w p q) 0 = false /\ PrimFloat.ltb (exfl_w p q) fmax = true) /\
  (exists s, (s < length ex_labels)%nat /\
     nth s (n_status (find_prototypes PrimFloat.ltb fmax (length ex_labels) exfl_w
                        (nodes_init 0%float ex_labels))) false = true).
Proof. exact exfl_opf_premises. Qed.

Theorem C01_float_example_result :
  sup_fit PrimFloat.ltb 0%float fmax ex_labels exfl_w =
  mkNodes [0.5; 0.5; 0; 0; 0.5]%float [Some 1; Some 2; None; None; Some 3]%nat [0; 0; 0; 1; 1]%nat
          [0; 0; 0; 1; 1]%nat [false; false; true; true; false]
          [false; false; false; false; false] [2; 3; 1; 4; 0]%nat /\
  map (ranker exfl_vals) [(-0); 0; 0.5; 0.75; 1.25; 2.5; fmax]%float = [0; 0; 1; 2; 3; 4; 5]%Z /\
  sup_fit Z.ltb (ranker exfl_vals 0) (ranker exfl_vals fmax) ex_labels
          (fun p q => ranker exfl_vals (exfl_w p q)) =
  mkNodes [1; 1; 0; 0; 1]%Z [Some 1; Some 2; None; None; Some 3]%nat [0; 0; 0; 1; 1]%nat
          [0; 0; 0; 1; 1]%nat [false; false; true; true; false]
          [false; false; false; false; false] [2; 3; 1; 4; 0]%nat.
Proof. exact (conj exfl_sup_fit (conj exfl_ranks exfl_sup_fit_ranks)). Qed.
