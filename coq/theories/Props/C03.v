From Coq Require Import ZArith List Permutation.
From OPF Require Import Base.Lists Model.Sup Proofs.Predict.
Import ListNotations.

(* C03 - supervised / semi-supervised prediction equals the exhaustive minimum of
   max(cost, distance).  [nd] is any node table (SupervisedOPF and SemiSupervisedOPF share the
   predict code); the two premises on the conquest order are what training delivers
   (C01_sup_fit_optimum_path_forest, first two conjuncts).  [d k] is the distance between
   training sample k and the query. *)

(* The scan as coded returns the predicted label of a training sample t that minimises
   max(cost t, d t) over ALL training samples; t is recorded as the conqueror, and it is the
   first minimiser in conquest order (position i). *)
Theorem C03_predict_is_argmin :
  forall (zero : Z) (nd : @nodes Z) (d : nat -> Z),
    let n := length (n_cost nd) in
    let cost q := nth q (n_cost nd) zero in
    let val q := Z.max (cost q) (d q) in
    let plabel q := nth q (n_plabel nd) 0%nat in
    (1 <= n)%nat ->
    Permutation (n_order nd) (seq 0 n) ->
    (forall i j, (i < j)%nat -> (j < n)%nat ->
       (cost (nth i (n_order nd) 0%nat) <= cost (nth j (n_order nd) 0%nat))%Z) ->
    exists t i,
      (t < n)%nat /\
      predict_one Z.ltb zero nd d = (plabel t, Some t) /\
      (forall s, (s < n)%nat -> (val t <= val s)%Z) /\
      (i < n)%nat /\ nth i (n_order nd) 0%nat = t /\
      (forall i', (i' < i)%nat -> (val t < val (nth i' (n_order nd) 0%nat))%Z).
Proof. exact predict_is_argmin. Qed.

Theorem C03_predict_label_is_argmin :
  forall (zero : Z) (nd : @nodes Z) (d : nat -> Z),
    let n := length (n_cost nd) in
    let cost q := nth q (n_cost nd) zero in
    let val q := Z.max (cost q) (d q) in
    (1 <= n)%nat ->
    Permutation (n_order nd) (seq 0 n) ->
    (forall i j, (i < j)%nat -> (j < n)%nat ->
       (cost (nth i (n_order nd) 0%nat) <= cost (nth j (n_order nd) 0%nat))%Z) ->
    exists t, (t < n)%nat /\
      fst (predict_one Z.ltb zero nd d) = nth t (n_plabel nd) 0%nat /\
      snd (predict_one Z.ltb zero nd d) = Some t /\
      forall s, (s < n)%nat -> (val t <= val s)%Z.
Proof. exact predict_label_is_argmin. Qed.

(* The early exit never changes the result: the scan as coded equals the same scan without the
   test on the next node's cost ([predict_one_full], Proofs/Predict.v), and both equal the
   specification "first minimiser of max(cost, d) along the conquest order". *)
Theorem C03_early_exit_sound :
  forall (zero : Z) (nd : @nodes Z) (d : nat -> Z),
    let n := length (n_cost nd) in
    let cost q := nth q (n_cost nd) zero in
    let val q := Z.max (cost q) (d q) in
    (1 <= n)%nat ->
    length (n_order nd) = n ->
    (forall i j, (i < j)%nat -> (j < n)%nat ->
       (cost (nth i (n_order nd) 0%nat) <= cost (nth j (n_order nd) 0%nat))%Z) ->
    predict_one Z.ltb zero nd d = predict_one_full Z.ltb zero nd d /\
    predict_one Z.ltb zero nd d =
      (nth (first_minimiser val (n_order nd)) (n_plabel nd) 0%nat,
       Some (first_minimiser val (n_order nd))).
Proof. exact early_exit_sound. Qed.

(* An equidistant query on the trained forest of C01_example_result: samples 2 (label 0) and
   3 (label 1) both offer the minimum value 1; the first in conquest order [2;3;1;4;0] wins. *)
Theorem C03_example_equidistant :
  let nd := mkNodes [2; 2; 0; 0; 2]%Z [Some 1; Some 2; None; None; Some 3]%nat [0; 0; 0; 1; 1]%nat
              [0; 0; 0; 1; 1]%nat [false; false; true; true; false]
              [false; false; false; false; false] [2; 3; 1; 4; 0]%nat in
  let d k := nth k [5; 3; 1; 1; 4]%Z 0%Z in
  predict_one Z.ltb 0%Z nd d = (0%nat, Some 2%nat) /\
  predict_one_full Z.ltb 0%Z nd d = (0%nat, Some 2%nat) /\
  map (fun q => Z.max (nth q (n_cost nd) 0%Z) (d q)) (seq 0 5) = [5; 3; 1; 1; 4]%Z /\
  nth 2 (n_plabel nd) 0%nat = 0%nat /\ nth 3 (n_plabel nd) 0%nat = 1%nat.
Proof. exact ex_equidistant_props. Qed.
